"""
Correspondence (tier B) between the real `ibicus.debias.ISIMIP` per-window pipeline and `Model/Isimip.lean`
(driver `lean/drivers/DrvIsimip.lean`).

    correspondence(rng, n_cases, tier, res) -> list of mismatches
    CONFIGS                                  -> name -> dict(kind=<data kind>, kw=<ISIMIP constructor kwargs>, dist=…)
    make_debiaser(config)                    -> a real ISIMIP instance (constructor, rational test-double family)

For every case the real `_apply_on_window` runs once as a whole (op `window`) and once stage by stage
(`step3`, `step4`, `step5`, `step6`, `step7`; every stage is fed the *real* output of the previous real stage, sent
exactly), and each is compared with the model: counts / branch / exception class exactly, floats within
`1e-9 * (1 + scale)`.

Oracles are recorded from the real run by a `Spy` (monkeypatches restored on exit):
  * `np.random.uniform` / `np.random.random` -> `Draws` (the values each call returned);
  * `scipy.stats.linregress` -> the three `pvalue < 0.05` decisions;
  * `ISIMIP._step6_fit_good_enough` -> the KS decision (conjunction of the calls made);
  * `np.cos`, `scipy.special.logit`, `scipy.special.expit` -> (argument, value) tables, evaluated in the driver
    at the nearest recorded argument.

Canonicalisation: `np.argsort` is not stable, so among *equal* input values the real code's order is arbitrary
(which of several exact zeros gets the smallest random draw in step 4, which of several tied values is sent to a
bound in step 6).  Outputs are therefore compared after sorting them within each group of positions whose inputs
are equal (for `window`: equal value and — when a significant trend was removed — equal year).

Discontinuity guard: the driver flags `half` (round(n·P) at an exact half), `isclose` (bounded transfer at the
`np.isclose` tolerance), `thr` (a computed value on a threshold), `ctie` (equal computed values from different inputs);
the Spy flags `iecdf` (a discrete `iecdf` method evaluated at a jump) and `ecdftie` (`ecdf(method="linear_interpolation")`
evaluated at a duplicated sample value: the interpolant jumps there and which side `np.interp` returns depends on
the rounding of `np.quantile`'s knots — the exact semantics, which the model has, is the right-most knot).  A flagged case whose outputs differ is
accepted and counted in `res.extra["ties_accepted"]`.
"""
import collections
import logging
import warnings
from fractions import Fraction

import numpy as np

from harness import common as C
from harness import isimip_family

INF = float("inf")

# ------------------------------------------------------------------ configurations
_T = dict(ks_test_for_goodness_of_cdf_fit=False)
_PR = dict(lower_bound=0.0, lower_threshold=0.125)
_SKEW = dict(lower_bound=0.0, lower_threshold=1 / 64, upper_bound=1.0, upper_threshold=1 - 1 / 64)
_HURS = dict(lower_bound=0.0, lower_threshold=0.01, upper_bound=100.0, upper_threshold=99.99)

CONFIGS = {
    # unbounded, additive (tas / psl / rlds like)
    "tas_detr": dict(kind="unbounded", kw=dict(trend_preservation_method="additive", nonparametric_qm=False, detrending=True, **_T)),
    "tas_nodetr": dict(kind="unbounded", kw=dict(trend_preservation_method="additive", nonparametric_qm=False, detrending=False, **_T)),
    "tas_ks": dict(kind="unbounded", kw=dict(trend_preservation_method="additive", nonparametric_qm=False, detrending=True)),
    "tas_nosigtest": dict(kind="unbounded", kw=dict(trend_preservation_method="additive", nonparametric_qm=False, detrending=True,
                                                     detrending_with_significance_test=False, **_T)),
    "tas_npqm": dict(kind="unbounded", kw=dict(trend_preservation_method="additive", nonparametric_qm=True, detrending=True)),
    "tas_hazen": dict(kind="unbounded", kw=dict(trend_preservation_method="additive", nonparametric_qm=False, detrending=False,
                                                 ecdf_method="step_function", iecdf_method="hazen", **_T)),
    # lower bound + threshold (pr / sfcwind / tasrange like)
    "pr_mult": dict(kind="lower", kw=dict(trend_preservation_method="multiplicative", nonparametric_qm=False, detrending=False, **_PR, **_T)),
    "pr_mixed": dict(kind="lower", kw=dict(trend_preservation_method="mixed", nonparametric_qm=False, detrending=False, **_PR, **_T)),
    "pr_mixed_ks": dict(kind="lower", kw=dict(trend_preservation_method="mixed", nonparametric_qm=False, detrending=False, **_PR)),
    "pr_nofreq": dict(kind="lower", kw=dict(trend_preservation_method="mixed", nonparametric_qm=False, detrending=False,
                                             bias_correct_frequencies_of_values_beyond_thresholds=False, **_PR, **_T)),
    "pr_all": dict(kind="lower", kw=dict(trend_preservation_method="multiplicative", nonparametric_qm=False, detrending=False,
                                          trend_transfer_only_for_values_within_threshold=False, **_PR, **_T)),
    "pr_v30": dict(kind="lower", kw=dict(trend_preservation_method="mixed", nonparametric_qm=False, detrending=False,
                                          mode_non_parametric_qm="isimipv3.0", **_PR, **_T)),
    "pr_rice": dict(kind="lower", dist="rice", kw=dict(trend_preservation_method="mixed", nonparametric_qm=False, detrending=False,
                                                        mode_non_parametric_qm="isimipv3.0", **_PR, **_T)),
    "pr_npqm": dict(kind="lower", kw=dict(trend_preservation_method="multiplicative", nonparametric_qm=True, detrending=False, **_PR)),
    "pr_detr_add": dict(kind="lower", kw=dict(trend_preservation_method="additive", nonparametric_qm=False, detrending=True, **_PR, **_T)),
    # both bounds + thresholds (hurs / tasskew / prsnratio / rsds like)
    "skew_npqm": dict(kind="unit", kw=dict(trend_preservation_method="bounded", nonparametric_qm=True, detrending=False, **_SKEW)),
    "skew_param": dict(kind="unit", kw=dict(trend_preservation_method="bounded", nonparametric_qm=False, detrending=False, **_SKEW, **_T)),
    "skew_param_v30": dict(kind="unit", kw=dict(trend_preservation_method="bounded", nonparametric_qm=False, detrending=False,
                                                 mode_non_parametric_qm="isimipv3.0", **_SKEW, **_T)),
    "skew_rice_ks": dict(kind="unit", dist="rice", kw=dict(trend_preservation_method="bounded", nonparametric_qm=False, detrending=False, **_SKEW)),
    "skew_step_inv": dict(kind="unit", kw=dict(trend_preservation_method="bounded", nonparametric_qm=True, detrending=False,
                                                ecdf_method="step_function", iecdf_method="inverted_cdf", **_SKEW)),
    "hurs": dict(kind="hurs", kw=dict(trend_preservation_method="bounded", nonparametric_qm=True, detrending=False,
                                       trend_transfer_only_for_values_within_threshold=False,
                                       bias_correct_frequencies_of_values_beyond_thresholds=False, **_HURS)),
    "hurs_param_freq": dict(kind="hurs", kw=dict(trend_preservation_method="bounded", nonparametric_qm=False, detrending=False,
                                                  trend_transfer_only_for_values_within_threshold=False, **_HURS, **_T)),
    # upper bound + threshold only
    "upper_add": dict(kind="upper", kw=dict(trend_preservation_method="additive", nonparametric_qm=False, detrending=False,
                                             upper_bound=10.0, upper_threshold=9.875, **_T)),
    # step 2: imputation of missing values (prsnratio like)
    "prsn_impute": dict(kind="unit", missing=True, kw=dict(trend_preservation_method="bounded", nonparametric_qm=True, detrending=False,
                                                            impute_missing_values=True, **_SKEW)),
    "prsn_impute_param": dict(kind="unit", missing=True, kw=dict(trend_preservation_method="bounded", nonparametric_qm=False, detrending=False,
                                                                  impute_missing_values=True, iecdf_method="hazen", **_SKEW, **_T)),
    # event likelihood adjustment (logit / expit / log(10) oracles)
    "tas_ela": dict(kind="unbounded", kw=dict(trend_preservation_method="additive", nonparametric_qm=False, detrending=False,
                                               event_likelihood_adjustment=True, **_T)),
    "pr_ela": dict(kind="lower", kw=dict(trend_preservation_method="mixed", nonparametric_qm=False, detrending=False,
                                          event_likelihood_adjustment=True, **_PR, **_T)),
    # legitimate zero-valued settings (C09): a lower threshold of exactly 0 — only exact zeros are beyond it; floc = 0.0 is a fixed argument
    "pr_thr0": dict(kind="lower", kw=dict(trend_preservation_method="mixed", nonparametric_qm=False, detrending=False,
                                           lower_bound=0.0, lower_threshold=0.0, **_T)),
    "skew_lthr0": dict(kind="unit", kw=dict(trend_preservation_method="bounded", nonparametric_qm=False, detrending=False,
                                             lower_bound=0.0, lower_threshold=0.0, upper_bound=1.0, upper_threshold=1 - 1 / 64, **_T)),
}


def make_debiaser(config):
    """a real ISIMIP instance for a name in CONFIGS (or a dict of the same shape)"""
    from ibicus.debias import ISIMIP

    spec = CONFIGS[config] if isinstance(config, str) else config
    dist = isimip_family.rice_typed() if spec.get("dist") == "rice" else isimip_family.IsiRatSigmoid()
    with warnings.catch_warnings():
        warnings.simplefilter("ignore")
        return ISIMIP(distribution=dist, **spec["kw"])


# ------------------------------------------------------------------ encoding
def ext(x):
    x = float(x)
    if x == INF:
        return "inf"
    if x == -INF:
        return "-inf"
    return C.rat(x)


def b01(x):
    return "1" if x else "0"


def cfg_token(deb):
    """the driver's cfg token, read from the attributes of the real instance"""
    import scipy.stats

    rice = type(deb.distribution) is type(scipy.stats.rice) or type(deb.distribution) is type(scipy.stats.weibull_min)
    return ";".join([
        deb.trend_preservation_method, b01(deb.nonparametric_qm), b01(deb.detrending),
        ext(deb.lower_bound), ext(deb.lower_threshold), ext(deb.upper_bound), ext(deb.upper_threshold),
        b01(deb.impute_missing_values), b01(deb.detrending_with_significance_test),
        b01(deb.trend_transfer_only_for_values_within_threshold), b01(deb.bias_correct_frequencies_of_values_beyond_thresholds),
        b01(deb.event_likelihood_adjustment), b01(deb.ks_test_for_goodness_of_cdf_fit),
        deb.ecdf_method, deb.iecdf_method, deb.mode_non_parametric_qm, b01(rice),
        b01(deb.scale_by_annual_cycle_of_upper_bounds), str(int(deb.window_length_annual_cycle_of_upper_bounds))])


def rl(x):
    return C.rlist([float(v) for v in x])


def rlo(x):
    """list with missing values: `none` for nan / inf"""
    x = [float(v) for v in x]
    return ",".join(C.rat(v) if np.isfinite(v) else "none" for v in x) if x else "-"


# ------------------------------------------------------------------ spying on the real run
DISCRETE_IECDF = ("inverted_cdf", "averaged_inverted_cdf", "closest_observation")


class Spy:
    """records the oracles / intermediate facts of a real run; every patch is undone on exit"""

    def __init__(self):
        self.uniform, self.random = [], []
        self.cos_in, self.cos_out = [], []
        self.logit_in, self.logit_out, self.expit_in, self.expit_out = [], [], [], []
        self.sig, self.ks = [], []
        self.n_lower, self.n_upper = None, None
        self.adjust_sizes = None
        self.messages = []
        self.flags = set()
        self._saved = []

    def _patch(self, obj, name, new):
        self._saved.append((obj, name, obj.__dict__[name] if isinstance(obj, type) else getattr(obj, name)))
        setattr(obj, name, new)

    def __enter__(self):
        import scipy.special
        import scipy.stats

        import ibicus.debias._isimip as isi_mod
        import ibicus.utils._math_utils as mu
        from ibicus.debias import ISIMIP

        spy = self
        o_uniform, o_random, o_cos = np.random.uniform, np.random.random, np.cos
        o_logit, o_expit, o_lin = scipy.special.logit, scipy.special.expit, scipy.stats.linregress
        o_ks = ISIMIP.__dict__["_step6_fit_good_enough"].__func__
        o_ml = ISIMIP.__dict__["_step6_get_mask_for_entries_to_set_to_lower_bound"].__func__
        o_mu = ISIMIP.__dict__["_step6_get_mask_for_entries_to_set_to_upper_bound"].__func__
        o_adj = ISIMIP.__dict__["_step6_adjust_values_between_thresholds"]
        o_iecdf = mu.iecdf

        def uniform(low=0.0, high=1.0, size=None):
            v = o_uniform(low, high, size)
            spy.uniform.append((float(low), float(high), np.array(v, dtype=float).ravel()))
            return v

        def random(size=None):
            v = o_random(size)
            spy.random.append(np.array(v, dtype=float).ravel())
            return v

        def cos(x, *a, **k):
            r = o_cos(x, *a, **k)
            spy.cos_in += [float(t) for t in np.ravel(x)]
            spy.cos_out += [float(t) for t in np.ravel(r)]
            return r

        def logit(x, *a, **k):
            r = o_logit(x, *a, **k)
            spy.logit_in += [float(t) for t in np.ravel(x)]
            spy.logit_out += [float(t) for t in np.ravel(r)]
            return r

        def expit(x, *a, **k):
            r = o_expit(x, *a, **k)
            spy.expit_in += [float(t) for t in np.ravel(x)]
            spy.expit_out += [float(t) for t in np.ravel(r)]
            return r

        def linregress(*a, **k):
            r = o_lin(*a, **k)
            spy.sig.append(bool(r.pvalue < 0.05))
            return r

        def ks(data, distribution, fit):
            r = o_ks(data, distribution, fit)
            spy.ks.append(bool(r))
            return r

        def mask_lower(nr, arr):
            spy.n_lower = int(nr)
            return o_ml(nr, arr)

        def mask_upper(nr, arr):
            spy.n_upper = int(nr)
            return o_mu(nr, arr)

        def adjust(self_, a, b, c, d, e):
            spy.adjust_sizes = (a.size, b.size, c.size, d.size, e.size)
            return o_adj(self_, a, b, c, d, e)

        def iecdf(x, p, method="inverted_cdf", **kw):
            if method in DISCRETE_IECDF:
                n = np.asarray(x).size
                pp = np.atleast_1d(np.asarray(p, dtype=float))
                vi = {"inverted_cdf": (n - 1) * pp, "averaged_inverted_cdf": n * pp - 1, "closest_observation": n * pp - 1.5}[method]
                inner = (pp > 0) & (pp < 1)
                if np.any(inner & (np.abs(vi - np.round(vi)) < 1e-9)):
                    spy.flags.add("iecdf")
            return o_iecdf(x, p, method=method, **kw)

        o_ecdf = mu.ecdf

        def ecdf(x, y, method="step_function"):
            # linear_interpolation: the interpolant jumps at a duplicated sample value; which side np.interp returns there
            # depends on the rounding of np.quantile's knots (k/(n-1)*(n-1) is k±ulp), not on the exact semantics
            if method == "linear_interpolation":
                xs = np.sort(np.asarray(x, dtype=float))
                dup = xs[1:][xs[1:] == xs[:-1]]
                if dup.size and np.isin(np.asarray(y, dtype=float), dup).any():
                    spy.flags.add("ecdftie")
            return o_ecdf(x, y, method=method)

        self._patch(mu, "ecdf", ecdf)
        self._patch(isi_mod, "ecdf", ecdf)
        self._patch(np.random, "uniform", uniform)
        self._patch(np.random, "random", random)
        self._patch(np, "cos", cos)
        self._patch(scipy.special, "logit", logit)
        self._patch(scipy.special, "expit", expit)
        self._patch(scipy.stats, "linregress", linregress)
        self._patch(ISIMIP, "_step6_fit_good_enough", staticmethod(ks))
        self._patch(ISIMIP, "_step6_get_mask_for_entries_to_set_to_lower_bound", staticmethod(mask_lower))
        self._patch(ISIMIP, "_step6_get_mask_for_entries_to_set_to_upper_bound", staticmethod(mask_upper))
        self._patch(ISIMIP, "_step6_adjust_values_between_thresholds", adjust)
        self._patch(mu, "iecdf", iecdf)
        self._patch(isi_mod, "iecdf", iecdf)

        self._logger = logging.getLogger("ibicus")
        self._level = self._logger.level
        self._propagate = self._logger.propagate
        self._logger.setLevel(logging.DEBUG)
        self._logger.propagate = False

        class H(logging.Handler):
            def emit(self_, record):
                spy.messages.append(record.getMessage())

        self._handler = H()
        self._logger.addHandler(self._handler)
        self._warn = warnings.catch_warnings()
        self._warn.__enter__()
        warnings.simplefilter("ignore")
        self._err = np.errstate(all="ignore")
        self._err.__enter__()
        return self

    def __exit__(self, *exc):
        self._err.__exit__(*exc)
        self._warn.__exit__(*exc)
        self._logger.removeHandler(self._handler)
        self._logger.setLevel(self._level)
        self._logger.propagate = self._propagate
        for obj, name, old in reversed(self._saved):
            setattr(obj, name, old)
        return False

    # ---- derived facts
    def sig_bits(self):
        s = (self.sig + [False, False, False])[:3]
        return "".join(b01(x) for x in s)

    def ks_bit(self):
        return b01(all(self.ks) if self.ks else True)

    def draws(self, deb):
        """the six step-4 draw lists (lower obs/H/F, upper obs/H/F) in the driver's order"""
        calls = list(self.uniform)
        out = []
        for active in (deb.has_lower_bound and deb.has_lower_threshold, deb.has_upper_bound and deb.has_upper_threshold):
            for _ in range(3):
                out.append(calls.pop(0)[2] if active and calls else np.array([]))
        return out

    def imputes(self, deb, series):
        """the three step-2 draw lists: `np.random.random` is called for a series with at least two valid values,
        and not at all after a series without any (ValueError)"""
        calls = list(self.random)
        out, dead = [], False
        for x in series:
            nvalid = int(np.isfinite(x).sum())
            if deb.impute_missing_values and not dead and nvalid >= 2 and calls:
                out.append(calls.pop(0))
            else:
                out.append(np.array([]))
            if nvalid == 0:
                dead = True
        return out

    def branch(self, deb, n):
        """which return of step 6 was taken, from the recorded calls and log messages"""
        if self.adjust_sizes is None:
            if any("no pseudo-future observations" in m for m in self.messages):
                return "noPseudoObs", 0
            return "allToBounds", 0
        if deb.nonparametric_qm:
            return "npqm", 0
        pre = 1 if (deb.has_threshold and self.adjust_sizes[4] > 0) else 0
        text = " ".join(self.messages)
        if "There are no values between thresholds in cm_future" in text:
            return "noneBetween", pre
        if "too few values between thresholds" in text:
            return "tooFew", pre
        if "Parametric CDF fit to the cm_future" in text:
            return "fitFailed", pre
        if "Goodness of fit not good enough" in text:
            return "ksRejected", pre
        return ("parametricEla" if deb.event_likelihood_adjustment else "parametric"), pre


# ------------------------------------------------------------------ data
def _years(rng, n):
    ny = rng.choice([1, 2, 3, 4, 5, 6, 8, 10])
    y0 = rng.randint(1950, 2080)
    ys = sorted(rng.choice(range(ny)) for _ in range(n))
    if rng.random() < 0.5:  # every year present, in order (what a real window looks like)
        ys = sorted((k * ny) // max(n, 1) for k in range(n))
    return np.array([y0 + y for y in ys], dtype=int)


def _dy(ks, den):
    return np.array([k / den for k in ks], dtype=float)


def gen_series(rng, kind, n, years):
    """a dyadic series of length n of the given kind (exact in binary floating point)"""
    if kind == "unbounded":
        base = rng.randint(-3000, 20000)
        spread = rng.choice([8, 64, 640])
        slope = rng.choice([0, 0, rng.randint(-200, 200)])
        ks = [base + rng.randint(-spread, spread) + rng.randint(-spread, spread) + slope * int(y - years[0]) for y in years]
        if rng.random() < 0.15:  # ties
            ks = [rng.choice(ks[: max(1, n // 3)]) for _ in range(n)]
        return _dy(ks, 64)
    if kind == "lower":  # pr-like: zeros, drizzle below the threshold 8/64, wet values
        pdry = rng.choice([0.0, 0.1, 0.3, 0.5, 0.8, 0.95, 1.0])
        top = rng.choice([64, 640, 3000])
        ks = []
        for _ in range(n):
            u = rng.random()
            if u < pdry * 0.6:
                ks.append(0)
            elif u < pdry:
                ks.append(rng.randint(0, 8))
            else:
                ks.append(9 + int((rng.random() ** 2) * top))
        return _dy(ks, 64)
    if kind == "upper":  # bounded above by 10 = 640/64, threshold 632/64
        phigh = rng.choice([0.0, 0.2, 0.6, 1.0])
        ks = [rng.choice([640, rng.randint(632, 640)]) if rng.random() < phigh else 631 - int((rng.random() ** 2) * 2000) for _ in range(n)]
        return _dy(ks, 64)
    if kind in ("unit", "hurs"):  # [0,1] in 1/1024 (thresholds 16/1024, 1008/1024) or [0,100] in 1/64
        den, top = (1024, 1024) if kind == "unit" else (64, 6400)
        lo_thr, hi_thr = (16, 1008) if kind == "unit" else (0, 6400)  # hurs thresholds 0.01 / 99.99: only the bounds are beyond
        plow = rng.choice([0.0, 0.1, 0.4, 0.9, 1.0])
        phigh = rng.choice([0.0, 0.1, 0.4]) if plow < 0.9 else 0.0
        centre = rng.random()
        ks = []
        for _ in range(n):
            u = rng.random()
            if u < plow:
                ks.append(rng.choice([0, rng.randint(0, lo_thr)]))
            elif u < plow + phigh:
                ks.append(rng.choice([top, rng.randint(hi_thr, top)]))
            else:
                v = (centre + rng.random() + rng.random()) / 3
                ks.append(min(hi_thr - 1, max(lo_thr + 1, int(v * top))))
        return _dy(ks, den)
    raise ValueError(kind)


def gen_case(rng, spec, tier):
    big = 80
    sizes = [rng.choice([rng.randint(3, 8), rng.randint(9, 30), rng.randint(31, big)]) for _ in range(3)]
    if rng.random() < 0.1:
        sizes = [sizes[0]] * 3
    ys = [_years(rng, n) for n in sizes]
    series = [gen_series(rng, spec["kind"], n, y) for n, y in zip(sizes, ys)]
    u = rng.random()
    if u < 0.06:  # no bias: cm_hist = obs (zero-bias / isclose branches of step 5 and of the frequency formula)
        series[1], ys[1] = series[0].copy(), ys[0].copy()
    elif u < 0.12:  # no climate change signal: cm_future = cm_hist
        series[2], ys[2] = series[1].copy(), ys[1].copy()
    elif u < 0.16:  # everything equal
        series[1], ys[1] = series[0].copy(), ys[0].copy()
        series[2], ys[2] = series[0].copy(), ys[0].copy()
    if spec.get("missing"):
        for x in series:
            if rng.random() < 0.75:  # tie-free valid values (the order of imputed values depends on ties, see `ctie`)
                x[:] = np.array(rng.sample(range(17, 1008), x.size)) / 1024
            pm = rng.choice([0.0, 0.1, 0.2, 0.3, 0.5, 0.5, 0.7, 0.9] + ([0.97, 1.0] if rng.random() < 0.15 else []))
            pm = min(pm, 1.0 if rng.random() < 0.03 else 1 - 2.5 / x.size)
            for i in range(x.size):
                if rng.random() < pm:
                    x[i] = rng.choice([np.nan, np.nan, np.inf, -np.inf])
    return series, ys


# ------------------------------------------------------------------ comparison helpers
def canon(vals, keys):
    """sort `vals` within every group of positions with equal key"""
    vals = list(vals)
    groups = collections.defaultdict(list)
    for i, k in enumerate(keys):
        groups[k].append(i)
    for idx in groups.values():
        if len(idx) > 1:
            sv = sorted(vals[i] for i in idx)
            for i, v in zip(idx, sv):
                vals[i] = v
    return vals


def impute_keys(x):
    """canonicalisation keys for step 2: missing positions whose interpolated rank (the code's interp1d of
    argsort(argsort(valid)) over the positions) is equal receive their values in the sort's arbitrary order"""
    import scipy.interpolate

    x = np.asarray(x, dtype=float)
    inv = ~np.isfinite(x)
    keys = [("v", i) for i in range(x.size)]
    valid = x[~inv]
    if inv.any() and valid.size >= 2:
        f = scipy.interpolate.interp1d(np.where(~inv)[0], np.argsort(np.argsort(valid)), fill_value="extrapolate")
        for i, v in zip(np.where(inv)[0], f(np.where(inv)[0])):
            keys[i] = ("i", round(float(v), 7))  # equal in exact arithmetic may differ by an ulp in floats
    elif inv.any():
        for i in np.where(inv)[0]:
            keys[i] = ("i", 0.0)
    return keys


def parse_rl(tok):
    return [float(Fraction(t)) for t in tok.split(",")] if tok != "-" else []


def close(a, b, scale):
    if len(a) != len(b):
        return False
    tol = 1e-9 * (1 + scale)
    return all(abs(x - y) <= tol or (x != x and y != y) for x, y in zip(a, b))


def worst(a, b):
    """position and values of the largest difference (for mismatch reports)"""
    if len(a) != len(b):
        return f"lengths {len(a)} vs {len(b)}"
    k = max(range(len(a)), key=lambda i: abs(a[i] - b[i]) if a[i] == a[i] and b[i] == b[i] else INF, default=None)
    return "" if k is None else f"worst at [{k}]: model {a[k]!r} impl {b[k]!r}"


def scale_of(*arrs):
    m = 0.0
    for a in arrs:
        for v in a:
            v = abs(float(v))
            if v == v and v != INF:
                m = max(m, v)
    return m


class Expect:
    """one driver line and what the real code produced for it"""

    def __init__(self, op, line, case, **kw):
        self.op, self.line, self.case = op, line, case
        self.__dict__.update(kw)


# ------------------------------------------------------------------ one case
def _tables(spy):
    return f"{rl(spy.logit_in)} {rl(spy.logit_out)} {rl(spy.expit_in)} {rl(spy.expit_out)} {C.rat(float(np.log(10)))}"


def build_case(deb, name, series, ys, seed, case):
    """runs the real code (whole window + stage by stage) and returns the list of Expect"""
    obs, H, F = series
    yO, yH, yF = ys
    tok = cfg_token(deb)
    exps = []

    # ---- the whole window
    with Spy() as spy:
        np.random.seed(seed)
        try:
            out, exc = deb._apply_on_window(obs.copy(), H.copy(), F.copy(), yO, yH, yF), None
        except Exception as ex:  # noqa: BLE001
            out, exc = None, type(ex).__name__
    d = spy.draws(deb) + spy.imputes(deb, series)
    sigF = deb.detrending and deb.detrending_with_significance_test and (spy.sig + [False] * 3)[2]
    line = (f"window {tok} {spy.sig_bits()}{spy.ks_bit()} {rlo(obs)} {rlo(H)} {rlo(F)} {C.ilist(yO)} {C.ilist(yH)} {C.ilist(yF)} "
            + " ".join(rl(x) for x in d) + f" {rl(spy.cos_in)} {rl(spy.cos_out)} {_tables(spy)}")
    keys = [(float(v), int(y) if sigF else 0) for v, y in zip(F, yF)]
    if deb.impute_missing_values:
        ik = impute_keys(F)
        keys = [k if np.isfinite(v) else (ik[i], k[1]) for i, (k, v) in enumerate(zip(keys, F))]
    pyflags = set(spy.flags)
    if deb.impute_missing_values and any(np.unique(x[np.isfinite(x)]).size != np.isfinite(x).sum() for x in series):
        pyflags.add("ctie2")  # ranks of equal valid values decide where the imputed values go
    exps.append(Expect("window", line, case, out=out, exc=exc, keys=keys, nl=spy.n_lower, nu=spy.n_upper,
                       branch=spy.branch(deb, F.size), pyflags=pyflags, inputs=(obs, H, F)))

    # ---- step 2, one series at a time
    if deb.impute_missing_values:
        filled = []
        for k, x in enumerate(series):
            with Spy() as s2:
                np.random.seed(seed + 2 + k)
                try:
                    r2, exc2 = deb._step2_impute_values(x.copy()), None
                except Exception as ex:  # noqa: BLE001
                    r2, exc2 = None, type(ex).__name__
            u = s2.random[0] if s2.random else np.array([])
            exps.append(Expect("step2", f"step2 {tok} {rlo(x)} {rl(u)}", case, out=r2, exc=exc2, pyflags=set(s2.flags), inputs=(x,),
                               keys=impute_keys(x)))
            filled.append(r2)
        if any(r is None for r in filled):
            return exps
        obs, H, F = filled

    # ---- stage by stage, each stage on the real output of the previous real stage
    try:
        with Spy() as s3:
            o3, h3, f3, tr = deb.step3(obs.copy(), H.copy(), F.copy(), yO, yH, yF)
        exps.append(Expect("step3", f"step3 {tok} {s3.sig_bits()}1 {rl(obs)} {rl(H)} {rl(F)} {C.ilist(yO)} {C.ilist(yH)} {C.ilist(yF)}",
                           case, outs=[o3, h3, f3, tr], inputs=(obs, H, F)))
        with Spy() as s4:
            np.random.seed(seed + 1)
            o4, h4, f4 = deb.step4(o3.copy(), h3.copy(), f3.copy())
        d4 = s4.draws(deb)
        exps.append(Expect("step4", f"step4 {tok} {rl(o3)} {rl(h3)} {rl(f3)} " + " ".join(rl(x) for x in d4), case,
                           outs=[o4, h4, f4], inputs=(o3, h3, f3)))
        with Spy() as s5:
            try:
                oF, exc5 = deb.step5(o4.copy(), h4.copy(), f4.copy()), None
            except Exception as ex:  # noqa: BLE001
                oF, exc5 = None, type(ex).__name__
        exps.append(Expect("step5", f"step5 {tok} {rl(o4)} {rl(h4)} {rl(f4)} {rl(s5.cos_in)} {rl(s5.cos_out)}", case,
                           out=oF, exc=exc5, pyflags=set(s5.flags), inputs=(o4, h4, f4)))
        if oF is None:
            return exps
        with Spy() as s6:
            try:
                r6, exc6 = deb.step6(o4.copy(), oF.copy(), h4.copy(), f4.copy()), None
            except Exception as ex:  # noqa: BLE001
                r6, exc6 = None, type(ex).__name__
        exps.append(Expect("step6", f"step6 {tok} 000{s6.ks_bit()} {rl(o4)} {rl(oF)} {rl(h4)} {rl(f4)} {_tables(s6)}", case,
                           out=r6, exc=exc6, keys=[float(v) for v in f4], nl=s6.n_lower, nu=s6.n_upper,
                           branch=s6.branch(deb, f4.size), pyflags=set(s6.flags), inputs=(o4, oF, h4, f4)))
        if r6 is None:
            return exps
        r7 = deb.step7(r6.copy(), tr)
        exps.append(Expect("step7", f"step7 {tok} {rl(r6)} {rl(tr)}", case, outs=[r7], inputs=(r6, tr)))
    except Exception as ex:  # noqa: BLE001  (a stage raised where the whole window did not: report as a mismatch of the harness)
        exps.append(Expect("stage-exception", "bad-op-probe", case, note=f"{type(ex).__name__}: {ex}"))
    return exps


def compare(e, got, hist):
    """-> (status, detail); status in ok | tie | mismatch"""
    toks = got.split(" ")
    flags = set()
    if toks[0] == "ok" and e.op in ("window", "step2", "step5", "step6") and toks[-1] != "-":
        flags |= set(toks[-1].split(","))
    flags |= getattr(e, "pyflags", set())

    def verdict(ok, detail):
        if ok:
            return "ok", ""
        if flags:
            for f in flags:
                hist[f"tie-flag:{f}"] += 1
            return "tie", detail
        return "mismatch", detail

    if e.op == "stage-exception":
        return "mismatch", e.note
    if toks[0] not in ("ok", "error"):
        return "mismatch", f"driver said {got[:200]}"
    if e.op in ("step3", "step4", "step7"):
        if toks[0] != "ok":
            return "mismatch", f"model {got[:100]} impl ok"
        model = [parse_rl(t) for t in toks[1:1 + len(e.outs)]]
        sc = scale_of(*e.inputs, *e.outs)
        for k, (m, r) in enumerate(zip(model, e.outs)):
            r = [float(v) for v in r]
            if e.op == "step4":
                key = [float(v) for v in e.inputs[k]]
                m, r = canon(m, key), canon(r, key)
            if not close(m, r, sc):
                return verdict(False, f"{e.op} output {k}: {worst(m, r)}")
        return "ok", ""
    # window / step5 / step6: value or exception
    if e.exc is not None or toks[0] == "error":
        if toks[0] == "error" and e.exc == toks[1]:
            hist[f"{e.op}:error:{e.exc}"] += 1
            return "ok", ""
        return verdict(False, f"{e.op}: impl {'raises ' + e.exc if e.exc else 'ok'}; model {got[:80]}")
    real = [float(v) for v in e.out]
    if e.op in ("step5", "step2"):
        model = parse_rl(toks[1])
        if e.op == "step2":
            model, real = canon(model, e.keys), canon(real, e.keys)
        return verdict(close(model, real, scale_of(*e.inputs, real)), f"{e.op}: {worst(model, real)}")
    if e.op == "step6":
        nl, nu, br, pre, model = int(toks[1]), int(toks[2]), toks[3], int(toks[4]), parse_rl(toks[5])
    else:
        model, nl, nu, br, pre = parse_rl(toks[1]), int(toks[2]), int(toks[3]), toks[4], int(toks[5])
    hist[f"{e.op}:{br}{'+premap' if pre else ''}"] += 1
    if (nl, nu) != (e.nl, e.nu):
        return verdict(False, f"{e.op}: counts impl {(e.nl, e.nu)} model {(nl, nu)}")
    if (br, pre) != e.branch:
        return verdict(False, f"{e.op}: branch impl {e.branch} model {(br, pre)}")
    model, real = canon(model, e.keys), canon(real, e.keys)
    return verdict(close(model, real, scale_of(*e.inputs, real)), f"{e.op}: {worst(model, real)}")


# ------------------------------------------------------------------ the campaign
def correspondence(rng, n_cases, tier, res, configs=None):
    """n_cases windows spread over CONFIGS; returns the list of mismatches (dicts). Fills res.extra / coverage."""
    names = list(configs or CONFIGS)
    debs = {n: make_debiaser(n) for n in names}
    exps = []
    for k in range(n_cases):
        name = names[k % len(names)]
        spec = CONFIGS[name]
        series, ys = gen_case(rng, spec, tier)
        seed = rng.randint(0, 2**31 - 2)
        case = {"config": name, "k": k, "sizes": [int(x.size) for x in series], "np_seed": seed}
        exps += build_case(debs[name], name, series, ys, seed, case)
    lines = [e.line for e in exps]
    mismatches = []
    hist = collections.Counter()
    per_cfg = collections.Counter()
    ties = 0
    try:
        out = C.run_driver("DrvIsimip", lines)
    except C.DriverError as ex:
        return [{"op": "driver", "case": {}, "detail": str(ex)[:600]}]
    for e, got in zip(exps, out):
        res.cov["traces_validated_against_impl"] += 1
        status, detail = compare(e, got, hist)
        per_cfg[(e.case["config"], status)] += 1
        if e.op == "window":
            res.count((e.case["config"], tuple(e.case["sizes"]), got.split(" ")[4] if got.startswith("ok") else got[:30]), True,
                      sample={**e.case, "model": got[:120]})
        if status == "tie":
            ties += 1
        elif status == "mismatch":
            mismatches.append({"op": e.op, "case": e.case, "detail": detail[:500], "line": e.line})
    res.extra["ties_accepted"] = res.extra.get("ties_accepted", 0) + ties
    bh = res.extra.setdefault("branch_hist", {})
    for k, v in hist.items():
        bh[k] = bh.get(k, 0) + v
    pc = res.extra.setdefault("per_config", {})
    for (n, st), v in per_cfg.items():
        pc.setdefault(n, {}).setdefault(st, 0)
        pc[n][st] += v
    return mismatches


# ------------------------------------------------------------------ step 1 / step 8 (outside the window loop)
def _dates(rng):
    import datetime

    kind = rng.choice(["years", "years", "leapyear", "subannual", "strided"])
    y0 = rng.randint(1960, 2090)
    if kind == "leapyear":
        y0 -= y0 % 4
        if y0 % 100 == 0 and y0 % 400 != 0:
            y0 += 4
    start = datetime.date(y0, 1, 1) + datetime.timedelta(days=rng.choice([0, 0, rng.randint(1, 364)]))
    n = {"years": rng.choice([365, 366, 730, 800]), "leapyear": rng.choice([366, 731]), "subannual": rng.randint(5, 300),
         "strided": rng.randint(200, 1100)}[kind]
    dates = [start + datetime.timedelta(days=k) for k in range(n)]
    if kind == "strided":
        dates = dates[:: rng.randint(2, 9)]
    return np.array(dates, dtype=object)


def correspondence_aux(rng, n_cases, tier, res, shuffle_prob=0.0):
    """`step1` / `step8` of the real code (annual cycle of upper bounds; rsds like) against the driver ops `step1`, `step8`"""
    from ibicus.debias import ISIMIP
    from ibicus.utils import day_of_year

    exps = []
    for k in range(n_cases):
        w = rng.choice([31, 31, 1, 2, 3, 4, 5, 15, 60, 365, 400])
        with warnings.catch_warnings():
            warnings.simplefilter("ignore")
            deb = ISIMIP(distribution=isimip_family.IsiRatSigmoid(), trend_preservation_method="bounded", nonparametric_qm=True,
                         detrending=False, scale_by_annual_cycle_of_upper_bounds=bool(k % 10), window_length_annual_cycle_of_upper_bounds=w,
                         lower_bound=0.0, lower_threshold=1 / 64, upper_bound=1.0, upper_threshold=1 - 1 / 64)
        same = rng.random() < 0.5
        tF = _dates(rng)
        tO, tH = (tF, tF) if same else (_dates(rng), _dates(rng))
        series = []
        for t in (tO, tH, tF):
            amp = rng.randint(100, 20000)
            zero_from = rng.choice([None, None, rng.randint(1, 366)])
            vals = []
            for d in t:
                doy = d.timetuple().tm_yday
                season = 1 + np.cos(2 * np.pi * (doy - 172) / 365.25)
                v = int(amp * (0.1 + 0.45 * season) * (0.3 + 0.7 * rng.random()))
                if zero_from is not None and (doy - zero_from) % 366 < w + 3:
                    v = 0  # a stretch of the year where every value is zero: the cycle is 0 there (scaling 1)
                vals.append(v)
            series.append(np.array(vals, dtype=float) / 64)
        if shuffle_prob and rng.random() < shuffle_prob:  # C06: non-chronological storage (each series permuted with its dates)
            perms = [np.random.RandomState(rng.randint(0, 2**31 - 1)).permutation(x.size) for x in series]
            if same:
                perms = [perms[2]] * 3
            series = [x[p_] for x, p_ in zip(series, perms)]
            tO, tH, tF = tO[perms[0]], tH[perms[1]], tF[perms[2]]
        obs, H, F = series
        with warnings.catch_warnings():
            warnings.simplefilter("ignore")
            dO, dH, dF = (np.asarray(day_of_year(t), dtype=int) for t in (tO, tH, tF))
        tok = cfg_token(deb)
        case = {"config": "step1/8", "k": k, "w": w, "sizes": [int(x.size) for x in series], "same_dates": bool(same)}
        with Spy():
            try:
                o1, h1, f1, cyc = deb.step1(obs.copy(), H.copy(), F.copy(), tO, tH, tF)
                exc = None
            except Exception as ex:  # noqa: BLE001
                exc = type(ex).__name__
        if exc is not None:
            exps.append(Expect("step1", f"step1 {tok} {rl(obs)} {rl(H)} {rl(F)} {C.ilist(dO)} {C.ilist(dH)} {C.ilist(dF)}", case, exc=exc, outs=None))
            continue
        exps.append(Expect("step1", f"step1 {tok} {rl(obs)} {rl(H)} {rl(F)} {C.ilist(dO)} {C.ilist(dH)} {C.ilist(dF)}", case, exc=None,
                           outs=[o1, h1, f1, cyc], inputs=(obs, H, F)))
        x = np.array([rng.randint(0, 1024) for _ in range(F.size)], dtype=float) / 1024
        with Spy():
            r8 = deb.step8(x.copy(), cyc, tF)
        exps.append(Expect("step8", f"step8 {tok} {rl(x)} {'none' if cyc is None else rl(cyc)} {C.ilist(dF)}", case, exc=None,
                           outs=[r8], inputs=(x, [] if cyc is None else cyc)))
        res.count(("step1/8", w, same, int(np.unique(dF).size)), True, sample=case if k < 2 else None)
        hist0 = res.extra.setdefault("branch_hist", {})
        eq = np.array_equal(np.unique(dH), np.unique(dF)) and np.array_equal(np.unique(dO), np.unique(dF))
        for key in (f"step1:{'equal_days' if eq else 'differing_days'}", f"step1:{'all366' if np.unique(dF).size == 366 else 'lookup'}"):
            hist0[key] = hist0.get(key, 0) + 1
    try:
        out = C.run_driver("DrvIsimip", [e.line for e in exps])
    except C.DriverError as ex:
        return [{"op": "driver", "case": {}, "detail": str(ex)[:600]}]
    mismatches = []
    hist = res.extra.setdefault("branch_hist", {})
    for e, got in zip(exps, out):
        res.cov["traces_validated_against_impl"] += 1
        toks = got.split(" ")
        ok, detail = True, ""
        if e.exc is not None or toks[0] != "ok":
            ok = toks[0] == "error" and e.exc == toks[1]
            detail = f"{e.op}: impl {e.exc} model {got[:80]}"
        else:
            sc = scale_of(*e.inputs, *[o for o in e.outs if o is not None])
            for j, r in enumerate(e.outs):
                if r is None:
                    ok, detail = toks[1 + j] == "none", f"{e.op}: cycle impl None model {toks[1 + j][:40]}"
                elif toks[1 + j] == "none":
                    ok, detail = False, f"{e.op}: output {j} model none"
                else:
                    m = parse_rl(toks[1 + j])
                    ok, detail = close(m, [float(v) for v in r], sc), f"{e.op} output {j}: {worst(m, [float(v) for v in r])}"
                if not ok:
                    break
        key = f"{e.op}:{'ok' if ok else 'mismatch'}"
        hist[key] = hist.get(key, 0) + 1
        if not ok:
            mismatches.append({"op": e.op, "case": e.case, "detail": detail[:500], "line": e.line})
    return mismatches


# ------------------------------------------------------------------ apply_location (step 1 + window loop + step 8)
def correspondence_location(rng, n_cases, tier, res, shuffle_prob=0.0):
    """the real `ISIMIP.apply_location` (running-window and month mode) against `Model.Isimip.applyLocationRW/Months` for
    configurations that need neither oracles nor draws (no detrending, no bound/threshold pair, KS off): this ties the
    composition `step1 -> Model.Skeleton loop with winFn -> step8` to the real code"""
    import datetime

    from ibicus.debias import ISIMIP
    from ibicus.utils import day_of_year, month, year

    exps = []
    for k in range(n_cases):
        rw = bool(k % 2)
        S = rng.choice([9, 15, 31, 45])
        L = S + rng.choice([0, 10, 30])
        kw = dict(trend_preservation_method="additive", nonparametric_qm=bool(rng.random() < 0.4), detrending=False,
                  ks_test_for_goodness_of_cdf_fit=False, scale_by_annual_cycle_of_upper_bounds=bool(rng.random() < 0.5),
                  window_length_annual_cycle_of_upper_bounds=rng.choice([5, 31]),
                  running_window_mode=rw, running_window_length=L, running_window_step_length=S)
        with warnings.catch_warnings():
            warnings.simplefilter("ignore")
            deb = ISIMIP(distribution=isimip_family.IsiRatSigmoid(), **kw)
        ts, xs = [], []
        for _ in range(3):
            start = datetime.date(rng.randint(1960, 2090), 1, 1) + datetime.timedelta(days=rng.choice([0, rng.randint(0, 364)]))
            n = rng.choice([365, 400, 730, 731])
            stride = rng.choice([1, 2, 3]) if rw and S >= 15 else rng.choice([3, 5, 7])
            t = np.array([start + datetime.timedelta(days=j) for j in range(0, n, stride)], dtype=object)
            base = rng.randint(100, 20000)
            x = np.array([base + rng.randint(-640, 640) + int(300 * np.cos(2 * np.pi * d.timetuple().tm_yday / 365.25)) for d in t], dtype=float) / 64
            if shuffle_prob and rng.random() < shuffle_prob:  # C06: non-chronological storage (values permuted with their dates)
                perm = np.random.RandomState(rng.randint(0, 2**31 - 1)).permutation(t.size)
                t, x = t[perm], x[perm]
            ts.append(t)
            xs.append(x)
        with Spy() as spy:
            try:
                out, exc = deb.apply_location(xs[0].copy(), xs[1].copy(), xs[2].copy(), ts[0], ts[1], ts[2]), None
            except Exception as ex:  # noqa: BLE001
                out, exc = None, type(ex).__name__
        with warnings.catch_warnings():
            warnings.simplefilter("ignore")
            doy = [np.asarray(day_of_year(t), dtype=int) for t in ts]
            mon = [np.asarray(month(t), dtype=int) for t in ts]
            yrs = [np.asarray(year(t), dtype=int) for t in ts]
        Ln = deb.running_window.window_length_in_days if rw else 1
        Sn = deb.running_window.window_step_length_in_days if rw else 1
        line = (f"applyloc {'rw' if rw else 'months'} {cfg_token(deb)} {Ln} {Sn} " + " ".join(C.ilist(d) for d in doy) + " "
                + " ".join(C.ilist(m) for m in mon) + " " + " ".join(C.ilist(y) for y in yrs) + " " + " ".join(rl(x) for x in xs))
        case = {"config": "apply_location", "k": k, "mode": "rw" if rw else "months", "L": L, "S": S, "sizes": [int(x.size) for x in xs],
                "npqm": kw["nonparametric_qm"], "scale": kw["scale_by_annual_cycle_of_upper_bounds"]}
        exps.append(Expect("applyloc", line, case, out=out, exc=exc, inputs=xs, pyflags=set(spy.flags),
                           keys=[float(v) for v in xs[2]], used_oracles=bool(spy.uniform or spy.random or spy.sig or spy.ks)))
        res.count(("applyloc", rw, L, S, kw["nonparametric_qm"], kw["scale_by_annual_cycle_of_upper_bounds"]), True, sample=case if k < 2 else None)
    try:
        out = C.run_driver("DrvIsimip", [e.line for e in exps])
    except C.DriverError as ex:
        return [{"op": "driver", "case": {}, "detail": str(ex)[:600]}]
    mismatches = []
    hist = res.extra.setdefault("branch_hist", {})
    for e, got in zip(exps, out):
        res.cov["traces_validated_against_impl"] += 1
        toks = got.split(" ")
        if e.used_oracles:
            ok, detail = False, "the configuration unexpectedly consumed an oracle / draw"
        elif e.exc is not None or toks[0] != "ok":
            ok, detail = (toks[0] == "error" and e.exc == toks[1]), f"applyloc: impl {e.exc} model {got[:80]}"
        else:
            model = [float("nan") if t == "none" else float(Fraction(t)) for t in toks[1].split(",")] if toks[1] != "-" else []
            real = [float(v) for v in e.out]
            ok = close(model, real, scale_of(*e.inputs, [v for v in real if v == v]))
            detail = f"applyloc: {worst(model, real)}"
        flags = set(e.pyflags) | (set(toks[2].split(",")) if toks[0] == "ok" and len(toks) > 2 and toks[2] != "-" else set())
        status = "ok" if ok else ("tie" if flags else "mismatch")
        key = f"applyloc:{e.case['mode']}:{status}"
        hist[key] = hist.get(key, 0) + 1
        if status == "tie":
            res.extra["ties_accepted"] = res.extra.get("ties_accepted", 0) + 1
        elif status == "mismatch":
            mismatches.append({"op": "applyloc", "case": e.case, "detail": detail[:500], "line": e.line})
    return mismatches
