"""C05 — grid application is exactly the per-location method, serial or parallel."""
import random
import re

import numpy as np

from harness import common as C
from harness import gridprobes as G

PROP = "C05"
TARGETS = ["IbicusModel.Props.C05", "IbicusModel.Lemmas.GenGridLoops"]
GEN = ["GridLoops"]

SHAPES = [(1, 1), (1, 4), (4, 1), (2, 3), (3, 2), (2, 2), (1, 2), (3, 1), (3, 3)]
DTYPES = ["f8", "f4", "i8", "mixed"]


# memory layouts that are always exercised (grids with both spatial dimensions > 1, non-square): (shape, layouts of obs / cm_hist / cm_future)
FORCED = [((2, 3), ("F", "F", "F")), ((3, 2), ("stored[y,x,t]",) * 3), ((2, 3), ("F", "C", "C")), ((3, 2), ("C", "C", "F")),
          ((3, 3), ("strided", "F", "stored[x,y,t]")), ((2, 3), ("stored[x,y,t]",) * 3), ((3, 2), ("strided",) * 3), ((2, 3), ("C", "F", "F"))]


def gen_case(rng, tier, force=None):
    nx, ny = rng.choice(SHAPES)
    if force:
        nx, ny = force[0]
    To, Th, Tf = rng.randint(1, 6), rng.randint(1, 6), rng.randint(1, 6)
    if rng.random() < 0.25:
        Th = To = Tf
    kind = rng.choice(["deb", "deb", "dc"])
    dt = rng.choice(DTYPES)
    nprs = np.random.RandomState(rng.randint(0, 2**31 - 1))
    dts = {"f8": (np.float64,) * 3, "f4": (np.float32,) * 3, "i8": (np.int64,) * 3,
           "mixed": tuple(rng.choice([np.float64, np.float32]) for _ in range(3))}[dt]
    obs, hist, fut = (G.rand_data(nprs, T, nx, ny, d) for T, d in zip((To, Th, Tf), dts))
    marker = rng.choice([None, None, None, G.M_LONG, G.M_ONE])
    if force:
        marker = None
    mcell = None
    if marker is not None:
        mcell = (rng.randrange(nx), rng.randrange(ny))
        (fut if kind == "deb" else obs)[0, mcell[0], mcell[1]] = marker
    failsafe = rng.random() < 0.3
    layouts = force[1] if force else tuple(rng.choice(G.LAYOUTS) if rng.random() < 0.4 else "C" for _ in range(3))
    obs, hist, fut = (G.relayout(a, lay) for a, lay in zip((obs, hist, fut), layouts))
    return dict(kind=kind, nx=nx, ny=ny, To=To, Th=Th, Tf=Tf, dtype=dt, marker=marker, mcell=mcell, failsafe=failsafe, layouts=list(layouts)), obs, hist, fut


def expected_dtype(fut):
    return fut.dtype if np.issubdtype(fut.dtype, np.floating) else np.dtype(float)


class _Packing:
    """problems list that attaches the (tiny) input arrays to the failing case so that the replay file is self-contained"""

    def __init__(self, problems, obs, hist, fut):
        self.problems, self.data = problems, (obs, hist, fut)

    def append(self, item):
        self.problems.append((item[0], {**item[1], **G.pack(*self.data)}))


def oracle(case, deb, obs, hist, fut, results, problems, kw=None, ref_deb=None):
    """the property on the real code: every result = stacked apply_location, same shape / dtype, all results equal.
    ref_deb: a FRESH instance of the same configuration for the per-location reference (an instance that has been through apply
    may carry state; the property compares with the debiaser as configured)"""
    kw = kw or {}
    if ref_deb is not None:
        deb = ref_deb
    problems = _Packing(problems, obs, hist, fut)
    out_T = obs.shape[0] if case["kind"] == "dc" else fut.shape[0]
    dt = expected_dtype(fut)
    conv = [x if np.issubdtype(x.dtype, np.floating) else x.astype(float) for x in (obs, hist, fut)]
    ref, errs = G.stacked(deb, conv[0], conv[1], conv[2], out_T, dt, **kw)
    if callable(deb) and not errs:  # a pool worker gets a pickled copy of the debiaser: it must treat a location like the original does
        i, j = case["nx"] - 1, case["ny"] - 1
        diff = G.pickle_roundtrip_differs(deb, conv[0][:, i, j], conv[1][:, i, j], conv[2][:, i, j], **kw)
        if diff:
            problems.append((f"pickle round trip of the debiaser changes apply_location at cell ({i},{j}): {diff}", {**case, "cell": [i, j]}))
    first = None
    for label, r in results:
        if errs:  # a location returns the wrong length: every run must raise, none may return an array
            if r[0] == "ok":
                problems.append((f"{label}: an array was returned although apply_location on location {sorted(errs)[0]} alone raises / returns an unusable "
                                 f"result ({type(errs[sorted(errs)[0]]).__name__}) and failsafe is off", case))
            continue
        if r[0] != "ok":
            problems.append((f"{label}: apply raised {r[1]}: {r[2]} although every location returns a series", case))
            continue
        out = r[1]
        if out.shape != (out_T, case["nx"], case["ny"]):
            problems.append((f"{label}: output shape {out.shape}, expected {(out_T, case['nx'], case['ny'])}", case))
            continue
        if out.dtype != dt or not np.issubdtype(out.dtype, np.floating):
            problems.append((f"{label}: output dtype {out.dtype}, expected {dt} (dtype of the converted cm_future)", case))
        if not np.array_equal(out, ref.astype(out.dtype), equal_nan=True):
            bad = np.argwhere(~((out == ref) | (np.isnan(out) & np.isnan(ref))))
            t, i, j = (int(v) for v in bad[0])
            problems.append((f"{label}: column ({i},{j}) differs from apply_location on that cell alone "
                             f"(t={t}: {out[t, i, j]!r} vs {ref[t, i, j]!r}; {len(bad)} elements differ)", case))
        if first is None:
            first = (label, out)
        elif not G.same(first[1], out):
            problems.append((f"{label} and {first[0]} return different arrays", case))


def check_state(case, deb, snap, obs, hist, fut, problems):
    """apply must leave the instance as configured: a changed attribute makes later cells / later calls behave differently"""
    after = G.snapshot(deb)
    changed = sorted(k for k in set(snap) | set(after) if snap.get(k) != after.get(k))
    if changed:
        problems.append((f"apply changed the debiaser instance: {', '.join(f'{k}: {snap.get(k)} -> {after.get(k)}' for k in changed)[:200]}",
                         {**case, **G.pack(obs, hist, fut)}))


# ---------------------------------------------------------------------------------------------------------------------------------
# Call sequences on ONE debiaser instance.  Quantifiers of the property covered here: "configurations" — a configuration reached by
# assigning settings on an existing instance (apply re-derives the helper objects, running windows etc., from them), not only one
# passed to the constructor — and "schedules" in the sense of the order of calls: the instance has already worked on ANOTHER data set
# (other calendar, equal or different lengths), has been copied / pickled, and the per-location calls `apply_location` are made on that
# very instance before and after the grid call, not on a fresh one.  Judged: serial apply = parallel apply = stacked apply_location on
# the instance itself (before the grid call when no assigned setting is waiting for apply to re-derive it, and after it) = stacked
# apply_location on an instance freshly constructed (attrs.evolve -> __init__) from the instance's current settings.  Bitwise.
HISTORY_PATTERNS = ("set", "serial-then", "loc-then", "apply-then-set", "set-then-parallel-first", None, None, None)


def gen_history(rng, name, pattern=None):
    """a JSON-able history case: steps before the judged grid run + the calendars / lengths of the earlier (A) and the judged (B) data set"""
    import datetime

    deb = G.history_debiasers()[name]()
    cur = {k: getattr(deb, k) for k in G.HISTORY_SETTINGS if hasattr(deb, k)}

    def set_step():
        window_fields = [f for f in ("running_window_length", "running_window_step_length", "running_window_over_years_of_cm_future_length") if f in cur]
        for _ in range(40):
            f = rng.choice(window_fields) if window_fields and rng.random() < 0.6 else rng.choice(sorted(cur))
            v = rng.choice(G.HISTORY_SETTINGS[f])
            if f == "running_window_step_length" and v < 7 and not name.startswith(("rw/WindowProbe", "rw/LinearScaling", "rw/DeltaChange")):
                continue  # wall time: a fit per window and per day of the year
            new = {**cur, f: v}
            if (v == cur[f] or new.get("running_window_step_length", 0) > new.get("running_window_length", 10**9)
                    or new.get("running_window_over_years_of_cm_future_step_length", 0) > new.get("running_window_over_years_of_cm_future_length", 10**9)):
                continue
            cur[f] = v
            return ["set", f, v]
        return ["copy"]

    def apply_step(par=None):
        par = rng.random() < 0.35 if par is None else par
        return ["apply", "parallel" if par else "serial", rng.choice([1, 2, 3])]

    nx, ny = rng.choice([(1, 2), (2, 1), (2, 2), (1, 3)])

    def loc_step():
        return ["loc", rng.randrange(nx), rng.randrange(ny)]

    if pattern == "set":
        steps = [set_step()]
    elif pattern == "serial-then":
        steps = [apply_step(False)]
    elif pattern == "loc-then":
        steps = [loc_step()]
    elif pattern == "apply-then-set":
        steps = [apply_step(), set_step()]
    elif pattern == "set-then-parallel-first":
        steps = [set_step(), [rng.choice(["pickle", "copy", "deepcopy"])]] if rng.random() < 0.5 else [set_step()]
    else:
        steps = []
        for _ in range(rng.randint(1, 3)):
            u = rng.random()
            steps.append(set_step() if u < 0.35 else apply_step() if u < 0.65 else loc_step() if u < 0.85 else [rng.choice(["pickle", "copy", "deepcopy"])])

    def starts():
        return [(datetime.date(rng.randint(1970, 2050), 1, 1) + datetime.timedelta(days=rng.randint(20, 340))).isoformat() for _ in range(3)]

    lengths_B = [rng.randint(380, 460) for _ in range(3)]
    same_lengths = pattern in ("serial-then", "loc-then") or rng.random() < 0.65
    lengths_A = list(lengths_B) if same_lengths else [rng.randint(380, 460) for _ in range(3)]
    starts_B = starts() if (pattern is not None or rng.random() < 0.8) else None
    starts_A = starts() if rng.random() < 0.8 else None
    same_data = pattern is None and rng.random() < 0.1  # the earlier work was on the very same data set: a repeated run
    if same_data:
        lengths_A, starts_A = list(lengths_B), starts_B
    order = ["serial", "parallel"]
    if pattern == "set-then-parallel-first" or (pattern is None and rng.random() < 0.5):
        order.reverse()
    return dict(kind="dc" if "DeltaChange" in name else "deb", what="history/" + name, name=name, pattern=pattern, nx=nx, ny=ny, steps=steps,
                lengths_A=lengths_A, starts_A=starts_A, lengths_B=lengths_B, starts_B=starts_B, same_data=same_data,
                time_type=rng.choice(["date", "date", "datetime64"]), order=order, nproc=rng.choice([1, 2, 2, 3]),
                data_seed=rng.randint(0, 2**31 - 1), seed=C.seed())


def history_data(case):
    nprs = np.random.RandomState(case["data_seed"])
    nx, ny = case["nx"], case["ny"]
    sb = case["starts_B"] or [None] * 3
    B = tuple(G.seasonal_grid(nprs, T, nx, ny, m, st) for T, m, st in zip(case["lengths_B"], (283, 285, 287), sb))
    if case["same_data"]:
        return tuple(x.copy() for x in B), B
    sa = case["starts_A"] or [None] * 3
    A = tuple(G.seasonal_grid(nprs, T, nx, ny, m, st) for T, m, st in zip(case["lengths_A"], (281, 286, 289), sa))
    return A, B


def run_history(case, A, B):
    """takes one instance through the steps of the case on data set A, then judges the grid run on data set B.
    returns (problems: [text], note | None); never raises for a failure of the code under test"""
    import copy
    import pickle
    import warnings

    import attrs

    problems = []
    deb = G.history_debiasers()[case["name"]]()
    kwA = G.history_time_kwargs(case["starts_A"], case["lengths_A"], case["time_type"])
    kwB = G.history_time_kwargs(case["starts_B"], case["lengths_B"], case["time_type"])
    pending = False  # a setting was assigned and no apply has re-derived the helper objects since

    def loc(d, data, i, j, kw):
        with warnings.catch_warnings():
            warnings.simplefilter("ignore")
            try:
                return ("ok", d.apply_location(data[0][:, i, j].copy(), data[1][:, i, j].copy(), data[2][:, i, j].copy(), **kw))
            except Exception as ex:  # noqa: BLE001
                return ("error", type(ex).__name__, G.safe_str(ex))

    def fresh_of(d):
        with warnings.catch_warnings():
            warnings.simplefilter("ignore")
            return attrs.evolve(copy.deepcopy(d))

    for n, st in enumerate(case["steps"]):
        try:
            if st[0] == "set":
                setattr(deb, st[1], st[2])
                pending = True
                continue
            if st[0] in ("pickle", "copy", "deepcopy"):
                deb = pickle.loads(pickle.dumps(deb)) if st[0] == "pickle" else copy.copy(deb) if st[0] == "copy" else copy.deepcopy(deb)
                continue
        except Exception as ex:  # noqa: BLE001
            return problems, f"step {n} {st} is not possible on this debiaser ({type(ex).__name__}: {G.safe_str(ex)[:80]}) — case skipped"
        if st[0] == "apply":
            control = fresh_of(deb)
            r = G.run_apply(deb, *A, parallel=(st[1] == "parallel"), nproc=st[2], **kwA)
            pending = False
            rc = None if r[0] == "ok" else G.run_apply(control, *A, **kwA)
        else:
            control = None if pending else fresh_of(deb)
            r = loc(deb, A, st[1], st[2], kwA)
            rc = None if (r[0] == "ok" or control is None) else loc(control, A, st[1], st[2], kwA)
        if r[0] != "ok":
            if rc is not None and rc[0] == "ok":
                problems.append(f"history step {n} {st} on the earlier data set raised {r[1]}: {r[2]} on the instance with this history, "
                                "but not on an instance freshly constructed from the same settings")
                return problems, None
            return problems, (f"step {n} {st} raises {r[1]} " + ("while an assigned setting awaits apply (a direct apply_location call there is outside the property)"
                                                                if control is None else "also on a fresh instance") + " — case skipped")

    proto = copy.deepcopy(deb)

    def fresh():
        return attrs.evolve(proto)

    out_T = B[0].shape[0] if case["kind"] == "dc" else B[2].shape[0]
    ref, errs = G.stacked(fresh, *B, out_T, np.dtype(float), **kwB)
    if errs:
        c = sorted(errs)[0]
        return problems, f"location {c} raises {type(errs[c]).__name__} on a freshly constructed instance — not an instance of C05, case skipped"

    def judge(label, r):
        if r[0] != "ok":
            problems.append(f"{label}: raised {r[1]}: {r[2]} although every location returns a series on a freshly constructed instance")
            return
        out = r[1]
        if out.shape != ref.shape:
            problems.append(f"{label}: output shape {out.shape}, expected {ref.shape}")
        elif not np.array_equal(out, ref, equal_nan=True):
            bad = np.argwhere(~((out == ref) | (np.isnan(out) & np.isnan(ref))))
            t, i, j = (int(v) for v in bad[0])
            problems.append(f"{label}: column ({i},{j}) differs from apply_location on that cell alone (instance freshly constructed from the same settings) "
                            f"(t={t}: {out[t, i, j]!r} vs {ref[t, i, j]!r}; {len(bad)} elements differ in {len({(int(a), int(b)) for _, a, b in bad})} cells)")

    def same_instance(label):
        got, e = G.stacked(deb, *B, out_T, np.dtype(float), **kwB)
        if e:
            c = sorted(e)[0]
            judge(label, ("error", type(e[c]).__name__, f"at location {c}: " + G.safe_str(e[c])))
        else:
            judge(label, ("ok", got))

    if not pending:
        same_instance("apply_location per cell on the instance itself BEFORE the grid call")
    outs = {}
    for mode in case["order"]:
        label = "serial grid run" if mode == "serial" else f"parallel/{case['nproc']} grid run"
        r = G.run_apply(deb, *B, parallel=(mode == "parallel"), nproc=case["nproc"], **kwB)
        judge(label, r)
        if r[0] == "ok":
            outs[mode] = r[1]
    if len(outs) == 2 and not G.same(outs["serial"], outs["parallel"]):
        problems.append(f"parallel/{case['nproc']} and serial return different arrays on the same instance")
    same_instance("apply_location per cell on the instance itself AFTER the grid calls")
    return problems, None


# ---------------------------------------------------------------------------------------------------------------------------------
# Input KINDS.  Quantifier of the property covered here: "inputs" — the property speaks of *3-d [time, x, y] arrays*, not of C-contiguous
# native float64 ndarrays.  What `apply` accepts (np.ndarray and subclasses) reaches the per-cell loop only through its conversion step
# (non-float dtype -> float, masked array -> NaN at the masked entries, "For computation the masked values here are filled in by
# nan-values").  A cell's time series is what the caller's array DENOTES at that cell: the value where the entry is valid, missing (NaN)
# where it is masked — never the storage that happens to lie under a mask (a fill value such as -9999 / 1e20).  Cases: per argument a dtype
# (float64/32, int64/32/16, uint16/8), a container (plain, read-only, non-native byte order, masked array without mask / with an all-False
# mask / with masked entries / with a wholly masked cell = a land-sea mask; built by masked_array(mask=), masked_equal(sentinel) or by
# assigning np.ma.masked on a view) and a memory layout; probes and real debiasers, Debiaser.apply and DeltaChange.apply, serial and
# parallel.  Judged by the same oracle as every other case: shape, floating dtype (that of the converted cm_future), every column =
# apply_location on the cell's denoted series alone (a fresh instance), serial = parallel; when a location raises on its series (a
# debiaser that cannot work with a gap) every run must raise.
KIND_CONTAINERS = ("ndarray", "readonly", "byteswapped", "masked/nomask", "masked/all-false", "masked/entries", "masked/column",
                   "masked/equal-sentinel", "masked/view-assign")
KIND_DTYPES = ("f8", "f4", "i8", "i4", "i2", "u2", "u1")
# (kind, position of the forced argument, its dtype, its container): every run has masked entries over non-float and float storage in
# each argument position of both apply implementations
KIND_FORCED = [("deb", 0, "i8", "masked/entries"), ("deb", 1, "i4", "masked/column"), ("deb", 2, "i2", "masked/equal-sentinel"),
               ("dc", 0, "i4", "masked/view-assign"), ("dc", 1, "u2", "masked/entries"), ("dc", 2, "i8", "masked/column"),
               ("deb", 2, "f4", "masked/entries"), ("dc", 0, "f8", "masked/equal-sentinel"), ("deb", 0, "u1", "masked/column"),
               ("dc", 2, "i2", "masked/entries")]


def kind_sentinel(dtype):
    """what lies in the storage under a masked entry (the usual fill values)"""
    dt = np.dtype(dtype)
    if np.issubdtype(dt, np.floating):
        return dt.type(1e20)
    return dt.type(-9999) if np.issubdtype(dt, np.signedinteger) else np.iinfo(dt).max


def gen_kinds(rng, what, forced=None):
    """a JSON-able input-kind case + the three storage arrays (native, C order; the sentinel already lies under the entries to be masked)"""
    probe = what.startswith("probe")
    kind = forced[0] if forced else ("dc" if what.endswith(("/dc", "DeltaChange")) else "deb")
    if probe:
        what = "probe-kinds/" + kind
    nx, ny = rng.choice([(1, 2), (2, 1), (2, 2), (2, 3), (3, 2), (1, 3), (1, 1)])
    lengths = [rng.randint(2, 6) for _ in range(3)] if probe else [rng.randint(30, 50) for _ in range(3)]
    if rng.random() < 0.25:
        lengths = [lengths[0]] * 3
    dtypes, containers, layouts, masks, stor = [], [], [], [], []
    nprs = np.random.RandomState(rng.randint(0, 2**31 - 1))
    for a in range(3):
        dt = rng.choice(KIND_DTYPES if probe else KIND_DTYPES[:-1])
        co = rng.choice(KIND_CONTAINERS)
        if forced and a == forced[1]:
            dt, co = forced[2], forced[3]
        if co == "byteswapped" and np.dtype(dt).itemsize == 1:
            co = "readonly"
        if not probe and co in ("masked/entries", "masked/column", "masked/equal-sentinel", "masked/view-assign") and not forced \
                and what.split("/", 1)[1] not in ("LinearScaling", "DeltaChange") and rng.random() < 0.5:
            co = "masked/all-false"  # half of the fitted debiasers' cases stay free of gaps (a gap makes most fits raise: then all runs must raise)
        T = lengths[a]
        if probe:
            x = G.rand_data(nprs, T, nx, ny, dt)
        elif np.issubdtype(np.dtype(dt), np.floating):
            x = G.tas_grid(nprs, T, nx, ny, 283 + 2 * a, np.dtype(dt))
        else:
            x = (nprs.randint(270, 300, size=(T, nx, ny)) + 2 * a).astype(dt)  # integer Kelvin
        m = np.zeros(x.shape, dtype=bool)
        if co in ("masked/entries", "masked/equal-sentinel", "masked/view-assign"):
            for _ in range(rng.randint(1, 2)):
                m[rng.randrange(T), rng.randrange(nx), rng.randrange(ny)] = True
            if co != "masked/entries" and rng.random() < 0.3:
                m[:, rng.randrange(nx), rng.randrange(ny)] = True
        elif co == "masked/column":
            m[:, rng.randrange(nx), rng.randrange(ny)] = True
            if rng.random() < 0.5:
                m[rng.randrange(T), rng.randrange(nx), rng.randrange(ny)] = True
        x[m] = kind_sentinel(dt)
        dtypes.append(dt)
        containers.append(co)
        layouts.append(rng.choice(G.LAYOUTS) if rng.random() < 0.3 else "C")
        masks.append([int(v) for v in np.flatnonzero(m.ravel())])
        stor.append(x)
    case = dict(kind=kind, what=what, variant="input kinds", nx=nx, ny=ny, To=lengths[0], Th=lengths[1], Tf=lengths[2], dtypes=dtypes,
                containers=containers, layouts=layouts, masks=masks, nprocs=[rng.choice(G.NPROCS_QUICK)] if probe else [2], seed=C.seed())
    return case, stor


def build_kinds(case, stor):
    """-> (the three arguments handed to apply, the three float arrays they denote: NaN at the masked entries)"""
    args, den = [], []
    for x, dt, co, lay, mi in zip(stor, case["dtypes"], case["containers"], case["layouts"], case["masks"]):
        x = G.relayout(np.array(x, dtype=dt), lay)
        m = np.zeros(x.size, dtype=bool)
        m[list(mi)] = True
        m = m.reshape(x.shape)
        if co == "byteswapped":
            x = x.astype(x.dtype.newbyteorder())
        d = x.copy() if np.issubdtype(x.dtype, np.floating) else x.astype(float)
        d[m] = np.nan
        if co == "readonly":
            x.flags.writeable = False
            a = x
        elif co == "masked/nomask":
            a = np.ma.masked_array(x)
        elif co in ("masked/all-false", "masked/entries", "masked/column"):
            a = np.ma.masked_array(x, mask=m.copy(), fill_value=kind_sentinel(dt) if m.any() else None)
        elif co == "masked/equal-sentinel":
            a = np.ma.masked_equal(x, kind_sentinel(dt))
        elif co == "masked/view-assign":
            a = x.view(np.ma.MaskedArray)
            a[m] = np.ma.masked
        else:
            a = x
        if co.startswith("masked/") and not (isinstance(a, np.ma.MaskedArray) and np.array_equal(np.ma.getmaskarray(a), m)
                                             and np.array_equal(np.ma.getdata(a), x)):
            a = np.ma.masked_array(x, mask=m.copy())  # the construction path did not give the intended array: the plain constructor
        args.append(a)
        den.append(d)
    return args, den


def run_kinds(case, stor):
    """runs one input-kind case against the real code; -> [(problem, case + storage arrays)]; never raises for a failure of the code under test"""
    def mk():
        return G.debiaser_for(case)

    results = [("serial", G.run_apply(mk(), *build_kinds(case, stor)[0]))]
    for p in case["nprocs"]:
        results.append((f"parallel/{p}", G.run_apply(mk(), *build_kinds(case, stor)[0], parallel=True, nproc=p)))
    local = []
    oracle(case, mk(), *build_kinds(case, stor)[1], results, local, ref_deb=mk)
    return [(p, {**c, **G.pack(*stor)}) for p, c in local]


def run(tier, res, force_search=False):
    rng = random.Random(C.seed() * 104729 + 5)
    res.rule = ("cases = (debiaser kind, grid shape, three time lengths, dtypes, failsafe flag, optional wrong-length / length-1 marker cell) from one PRNG "
                "(VERIF_SEED); every case is run serially and with parallel=True (process counts from {1,2,3,5}); non-trivial = more than one cell or unequal "
                "time lengths; distinct = distinct (kind, nx, ny, To, Th, Tf, dtype, marker, failsafe, memory layouts) tuples; memory layouts (C, Fortran, stored [x,y,t] / [y,x,t], "
                "strided) per input, 8 forced layout cases on non-square grids; process counts include the default and 8 (> number of cells). Real debiasers: 8 x small grids, "
                "running windows with time arrays, QDM pr with an all-dry first cell, ISIMIP with a degenerate first cell, argument aliasing; serial + parallel, "
                "reference = apply_location on copies with a FRESH instance; call sequences on one instance (settings assigned after construction, earlier "
                "serial / parallel / per-location work on another data set with another calendar and equal or different lengths, copy / pickle), judged "
                "serial = parallel = per-location on the instance itself before and after the grid call = per-location on a freshly constructed instance; "
                "input kinds (own PRNG stream): per argument a dtype (float64/32, int64/32/16, uint16/8) x a container (plain, read-only, byte-swapped, masked array "
                "without mask / all-False mask / masked entries / a wholly masked cell, three construction paths, fill values in the storage under the mask) x a layout, "
                "probes and real debiasers, reference = apply_location on the series the array denotes (NaN at masked entries)")
    res.trusted = C.BASE_TRUSTED + [
        "multiprocessing.Pool.starmap is modelled by Model.Grid.poolRun/starmap (slots indexed by argument position, explicit completion schedule); "
        "the starmap contract is *derived* from that model (Props.C05.starmap_contract), that the runtime behaves like the model is trusted and exercised by the tier-B runs",
        "numpy basic-slice assignment output[:, i, j] = result: same length, length-1 or scalar is broadcast, anything else raises ValueError (Model.Grid.colOf)",
        "np.ndindex is C-order (Model.Grid.ndindex); checked against numpy on every run",
        "tier A (translator/extract_gridloops.py): the structure of Debiaser.apply / DeltaChange.apply (four call sites), of the catch wrapper and of the two "
        "map functions is regenerated from the source as data with names resolved to roles (Gen/GridLoops.lean) and proved equal to Model/GridLoops.lean; "
        "Model.GridLoops.denote* is my reading of such a spec as a computation on Model.Grid (proved equal to applySerial / applyParallel / debiaserApplyKw / deltaChangeApplyKw)",
        "multiprocessing internals used as the tie of the chunk model: Pool._get_tasks (chunking) and MapResult._chunksize (default chunk size) of the running "
        "interpreter; one pool task = (func, chunk) pickled together, so every chunk runs on its own copy of the instance (Model.Grid.chunkTask) — exercised by the counting probe",
    ]
    res.assumptions = [
        "process start, pickling of the bound apply_location and of the column slices, and per-worker RNG state are runtime behaviour and are not modelled "
        f"(start method observed: {G.start_method()}); only deterministic configurations are compared serial vs parallel",
        "'whatever order the pool completes locations in' is proved for every completion schedule of the slot model of the pool, i.e. relative to the starmap contract",
        "apply_location returns a 1-d series (a 0-d result is covered only as the failsafe scalar NaN)",
        "the three inputs have the same spatial shape (enforced by _check_inputs_and_convert_if_possible, property C14)",
        "hook IBICUS_VERIF=1 NaN-fills the freshly allocated output so an unwritten column would be observable",
        "RUNTIME-ONLY clauses (decided by the oracle on the real code, no theorem — the value-level model cannot exhibit them): output dtype = dtype of the "
        "converted cm_future (numpy dtype conversion); independence of the memory layout and of argument aliasing (numpy views: model arrays are values, "
        "a column is a copy by construction); pickle round trip of the debiaser leaves apply_location unchanged (object identity / pickling); state outside "
        "the instance (class attributes, module globals, numpy's global generator) — the instance-state model (StCell) covers state carried by the instance "
        "only, whose chunk-wise copying it reproduces exactly (counting probe); float rounding differences between a strided view and a contiguous copy of a column",
        "history of the instance: Model.Grid.applyRefresh (apply = self.__attrs_post_init__() as a function refresh on the instance state, then the map of the "
        "instance's own location function in BOTH branches) is my reading of the first statement of Debiaser.apply / DeltaChange.apply; the theorems "
        "refreshed_instance_* / history_irrelevant are stated on it; that the real classes behave so (settings assigned after construction, earlier work on another "
        "data set / calendar, copies, per-location calls on the very instance before and after the grid call) is decided by the call-sequence cases on the real code",
        "instance state: the theorems pure_instance_* assume PureSt (apply_location leaves the instance unchanged); that the built-in debiasers are pure is "
        "checked on the real code (vars(instance) before/after apply, fresh-instance reference) and by C12's write-site tie, not proved here",
    ]
    lean_ok = C.lean_phase(res, PROP, GEN, TARGETS)

    n_cases = 60 if tier == "quick" else 260
    n_real = 2 if tier == "quick" else 5
    if force_search or not lean_ok:
        n_cases *= 3
    problems, lines, expect = [], [], []

    # ---- index enumerations
    for nx, ny in SHAPES + [(0, 3), (3, 0), (5, 7)]:
        lines.append(f"ndindex {nx} {ny}")
        expect.append(("ndindex", {"nx": nx, "ny": ny}, ",".join(f"{i}:{j}" for i, j in np.ndindex((nx, ny))) or "-"))
        lines.append(f"pairs {nx} {ny}")
        expect.append(("pairs", {"nx": nx, "ny": ny}, ",".join(f"{i}:{j}" for i in range(nx) for j in range(ny)) or "-"))

    # ---- probe debiasers through the real apply / DeltaChange.apply
    mismatch_budget = []
    for k in range(n_cases):
        case, obs, hist, fut = gen_case(rng, tier, FORCED[k] if k < len(FORCED) else None)
        deb = G.make(case["kind"])
        ncell = case["nx"] * case["ny"]
        nprocs = [rng.choice(G.NPROCS_QUICK)] if tier == "quick" else rng.sample(G.NPROCS_QUICK, 2)
        if k % 9 == 0:
            nprocs = list(G.NPROCS_QUICK)
        if k % 5 == 1:
            nprocs = nprocs + [None, 8]  # the library default (4) and more processes than most of these grids have cells
        results = [("serial", G.run_apply(deb, obs, hist, fut, failsafe=case["failsafe"], progressbar=(k % 7 == 0)))]
        for p in nprocs:
            results.append((f"parallel/{p or 'default'}", G.run_apply(deb, obs, hist, fut, parallel=True, nproc=p, failsafe=case["failsafe"])))
        case["nprocs"] = nprocs
        res.count((case["kind"], case["nx"], case["ny"], case["To"], case["Th"], case["Tf"], case["dtype"], case["marker"], case["failsafe"], tuple(case["layouts"])),
                  ncell > 1 or len({case["To"], case["Th"], case["Tf"]}) > 1, sample={**case, "serial": G.canon(results[0][1])[:120]})
        oracle(case, deb, obs, hist, fut, results, problems)
        # correspondence with the model: serial, and parallel under a random completion schedule
        lines.append(G.grid_line(case["kind"], "serial", case["failsafe"], obs, hist, fut, []))
        expect.append(("grid-serial", case, G.canon(results[0][1])))
        for label, r in results[1:]:
            sched = list(range(ncell))
            rng.shuffle(sched)
            lines.append(G.grid_line(case["kind"], "par", case["failsafe"], obs, hist, fut, sched))
            expect.append(("grid-" + label, {**case, "sched": sched}, G.canon(r)))
        # kwargs reach apply_location unchanged, serial and parallel
        if k % 6 == 0 and case["marker"] is None:
            kw = {"shift": rng.randint(1, 9)}
            rs = [("serial+kw", G.run_apply(deb, obs, hist, fut, **kw)), ("parallel/2+kw", G.run_apply(deb, obs, hist, fut, parallel=True, nproc=2, **kw))]
            oracle({**case, "kwargs": kw}, deb, obs, hist, fut, rs, problems, kw)
        # no cell influences another: change everything outside one cell
        if k % 4 == 0 and ncell > 1 and case["marker"] is None:
            i, j = rng.randrange(case["nx"]), rng.randrange(case["ny"])
            nprs = np.random.RandomState(rng.randint(0, 2**31 - 1))
            o2, h2, f2 = (G.rand_data(nprs, x.shape[0], case["nx"], case["ny"], x.dtype) for x in (obs, hist, fut))
            for a, b in ((o2, obs), (h2, hist), (f2, fut)):
                a[:, i, j] = b[:, i, j]
            r1 = results[0][1]
            r2 = G.run_apply(deb, o2, h2, f2, parallel=(k % 8 == 0), nproc=2)
            if r1[0] == "ok" and (r2[0] != "ok" or not np.array_equal(r1[1][:, i, j], r2[1][:, i, j], equal_nan=True)):
                problems.append((f"column ({i},{j}) changed when only the other cells' data changed",
                                 {**case, "cell": [i, j], **G.pack(obs, hist, fut), **G.pack(o2, h2, f2, "other_")}))

    # ---- driver
    mismatches = []
    try:
        out = C.run_driver("DrvGrid", lines)
        for (what, case, exp), got in zip(expect, out):
            res.cov["traces_validated_against_impl"] += 1
            if exp != got:
                mismatches.append({"op": what, "case": case, "impl": exp[:300], "model": got[:300]})
    except (C.DriverError, Exception) as ex:  # noqa: BLE001
        mismatches.append({"op": "driver", "case": {}, "impl": "", "model": f"{type(ex).__name__}: {str(ex)[:400]}"})
    if mismatches:
        res.tie_broken.append(f"correspondence DrvGrid: {len(mismatches)} mismatches, first: {mismatches[0]}")

    # ---- the eight real debiasers: apply = stacked apply_location, bitwise, serial and parallel
    if force_search or not lean_ok or mismatches:
        n_real *= 3
    debs = G.real_debiasers()
    for rep in range(n_real):
        nx, ny = (2, 2) if rep == 0 else rng.choice([(1, 3), (3, 1), (2, 2), (2, 3), (1, 1)])
        nprs = np.random.RandomState(rng.randint(0, 2**31 - 1))
        To, Th, Tf = rng.randint(30, 50), rng.randint(30, 50), rng.randint(30, 50)
        dtype = np.float64 if rep % 2 == 0 else np.float32
        obs, hist, fut = G.tas_grid(nprs, To, nx, ny, 283, dtype), G.tas_grid(nprs, Th, nx, ny, 285, dtype), G.tas_grid(nprs, Tf, nx, ny, 287, dtype)
        nprocs = [2] if tier == "quick" else [1, 2, 3, 5]
        for name, mk in debs.items():
            deb = mk()
            case = dict(kind="dc" if name == "DeltaChange" else "deb", what="real/" + name, nx=nx, ny=ny, To=To, Th=Th, Tf=Tf,
                        dtype=str(np.dtype(dtype)), seed=C.seed(), rep=rep)
            snap = G.snapshot(deb)
            rs = [("serial", G.run_apply(deb, obs, hist, fut))] + [(f"parallel/{p}", G.run_apply(mk(), obs, hist, fut, parallel=True, nproc=p)) for p in nprocs]
            oracle(case, deb, obs, hist, fut, rs, problems, ref_deb=mk)
            check_state(case, deb, snap, obs, hist, fut, problems)
            res.count(("real", name, nx, ny, To, Th, Tf, str(np.dtype(dtype))), True, sample=case if rep == 0 and name == "QuantileMapping" else None)

    # ---- cells with a few isolated missing / non-finite time steps: the grid run must hand them to apply_location like any other cell
    #      (NaN-tolerant debiasers pass them through point-wise; for the others the location raises and so must apply)
    miss_names = ["LinearScaling", "DeltaChange", "probe/deb", "probe/dc"] + (rng.sample([n for n in debs if n not in ("LinearScaling", "DeltaChange")], 2)
                                                                              if tier == "quick" else [n for n in debs if n not in ("LinearScaling", "DeltaChange")])
    for name in miss_names:
        for bad in ((np.nan,) if tier == "quick" else (np.nan, np.inf)):
            nprs = np.random.RandomState(rng.randint(0, 2**31 - 1))
            nx, ny = rng.choice([(2, 2), (1, 3), (2, 3)])
            if name.startswith("probe/"):
                kind = name.split("/")[1]
                mk = (lambda kind=kind: G.make(kind))
                To, Th, Tf = rng.randint(3, 6), rng.randint(3, 6), rng.randint(3, 6)
                obs, hist, fut = (G.rand_data(nprs, T, nx, ny, np.float64) for T in (To, Th, Tf))
            else:
                kind = "dc" if name == "DeltaChange" else "deb"
                mk = debs[name]
                To, Th, Tf = rng.randint(30, 50), rng.randint(30, 50), rng.randint(30, 50)
                obs, hist, fut = G.tas_grid(nprs, To, nx, ny, 283), G.tas_grid(nprs, Th, nx, ny, 285), G.tas_grid(nprs, Tf, nx, ny, 287)
            cells = [(i, j) for i in range(nx) for j in range(ny)]
            rng.shuffle(cells)
            planted = []
            for arr, aname, c, cnt in ((fut, "cm_future", cells[0], 2), (obs, "obs", cells[1], 1), (hist, "cm_hist", cells[2], 1)):
                for t in rng.sample(range(1, arr.shape[0]), cnt):  # never the first step (the probes read their marker there)
                    arr[t, c[0], c[1]] = bad
                planted.append(f"{cnt}x {bad} in {aname} at {c}")
            case = dict(kind=kind, what=("real/" + name) if not name.startswith("probe/") else name, nx=nx, ny=ny, To=To, Th=Th, Tf=Tf, dtype="float64",
                        planted=planted, seed=C.seed(), nprocs=[2])
            rs = [("serial", G.run_apply(mk(), obs, hist, fut)), ("parallel/2", G.run_apply(mk(), obs, hist, fut, parallel=True, nproc=2))]
            oracle(case, mk(), obs, hist, fut, rs, problems, ref_deb=mk)
            res.count(("isolated-missing", name, str(bad), nx, ny, To, Th, Tf), True, sample=case if name == "LinearScaling" else None)

    # ---- input kinds (see gen_kinds): dtype x container (plain / read-only / byte-swapped / masked arrays with and without masked entries,
    #      several construction paths) x layout per argument; own PRNG stream, so the case streams above and below do not shift
    krng = random.Random(C.seed() * 104729 + 505)
    n_kinds = len(KIND_FORCED) + (20 if tier == "quick" else 60)
    kind_plan = [("probe/" + rng_kind, None) for rng_kind in (krng.choice(["deb", "deb", "dc"]) for _ in range(n_kinds))]
    for k, f in enumerate(KIND_FORCED):
        kind_plan[k] = ("probe/" + f[0], f)
    others = [n for n in debs if n not in ("LinearScaling", "DeltaChange")]
    kind_plan += [("real/LinearScaling", ("deb", 2, "i8", "masked/entries")), ("real/DeltaChange", ("dc", 0, "i4", "masked/column")),
                  ("real/LinearScaling", None), ("real/DeltaChange", None)]
    kind_plan += [("real/" + n, None) for n in (krng.sample(others, 3) if tier == "quick" else others + krng.sample(others, 3))]
    if force_search or not lean_ok:
        kind_plan += [("probe/" + krng.choice(["deb", "dc"]), None) for _ in range(2 * n_kinds)]
    import time as _time

    t_kinds = _time.time()
    for what, forced in kind_plan:
        case, stor = gen_kinds(krng, what, forced)
        try:
            probs = run_kinds(case, stor)
        except Exception as ex:  # noqa: BLE001  (the code under test is called under try inside run_apply / stacked; this is a last resort)
            probs = [(f"the input-kind case raised {type(ex).__name__}: {G.safe_str(ex)}", {**case, **G.pack(*stor)})]
        problems.extend(probs)
        gaps = sum(len(m) for m in case["masks"])
        res.count(("kinds", case["what"], tuple(case["dtypes"]), tuple(case["containers"]), tuple(case["layouts"]), case["nx"], case["ny"],
                   case["To"], case["Th"], case["Tf"], gaps), gaps > 0 or any(c != "ndarray" for c in case["containers"]) or any(d not in ("f8", "f4") for d in case["dtypes"]),
                  sample=case if forced == KIND_FORCED[0] else None)
    res.extra["input_kind_cases"], res.extra["input_kind_seconds"] = len(kind_plan), round(_time.time() - t_kinds, 2)

    # ---- a degenerate FIRST cell (constant model series: the parametric fit of ISIMIP step 6 fails its KS test there) must not change how the
    #      later cells are treated: every cell = the cell alone on a fresh instance, serial = parallel, instance attributes unchanged by apply
    import datetime

    allmk = {**debs, **G.more_debiasers()}
    from ibicus.debias import ISIMIP

    allmk["isimip/tas-windows"] = lambda: ISIMIP.from_variable("tas", running_window_step_length=31)
    for name, T0 in (("ISIMIP", 60), ("isimip/tas-windows", 380), ("QuantileMapping", 50), ("ScaledDistributionMapping", 50)):
        if tier == "quick" and name in ("QuantileMapping", "ScaledDistributionMapping") and not (force_search or not lean_ok or mismatches):
            continue
        nprs = np.random.RandomState(rng.randint(0, 2**31 - 1))
        nx, ny = rng.choice([(2, 2), (1, 3), (2, 3)])
        To, Th, Tf = T0 + rng.randint(0, 9), T0 + rng.randint(0, 9), T0 + rng.randint(0, 9)
        obs, hist, fut = G.tas_grid(nprs, To, nx, ny, 283), G.tas_grid(nprs, Th, nx, ny, 285), G.tas_grid(nprs, Tf, nx, ny, 287)
        hist[:, 0, 0] = 273.15
        fut[:, 0, 0] = 273.15
        mk = allmk[name]
        deb = mk()
        case = dict(kind="deb", what="real/" + name, variant="first cell has constant cm_hist / cm_future", nx=nx, ny=ny, To=To, Th=Th, Tf=Tf,
                    dtype="float64", seed=C.seed(), nprocs=[2])
        _, errs = G.stacked(mk, obs, hist, fut, Tf, fut.dtype)
        if errs:
            res.notes.append(f"{name}: the constant cell raises {type(errs[sorted(errs)[0]]).__name__} — not an instance of C05 (C13 covers failures)")
            continue
        snap = G.snapshot(deb)
        rs = [("serial", G.run_apply(deb, obs, hist, fut)), ("parallel/2", G.run_apply(mk(), obs, hist, fut, parallel=True, nproc=2))]
        oracle(case, deb, obs, hist, fut, rs, problems, ref_deb=mk)
        check_state(case, deb, snap, obs, hist, fut, problems)
        res.count(("degenerate-first", name, nx, ny, To, Th, Tf), True, sample=case if name == "ISIMIP" else None)

    # ---- ISIMIP with weibull_min / rice (the distributions step 6 singles out) on a variable with BOTH thresholds, and the stock settings:
    #      serial = parallel = per location = pickled copy per location (data strictly between the thresholds: deterministic)
    isimip_names = ["isimip/sfcWind-both", "isimip/rice-both"]
    if tier != "quick" or force_search or not lean_ok or mismatches:
        isimip_names += ["isimip/sfcWind-stock", "isimip/tasrange-stock", "isimip/tasrange-both"]
    for name in isimip_names:
        mk = allmk[name]
        nprs = np.random.RandomState(rng.randint(0, 2**31 - 1))
        nx, ny = rng.choice([(1, 2), (2, 1)]) if tier == "quick" else rng.choice([(2, 2), (1, 3)])
        To, Th, Tf = 370 + rng.randint(0, 30), 370 + rng.randint(0, 30), 370 + rng.randint(0, 30)
        obs, hist, fut = G.wind_grid(nprs, To, nx, ny, 6.0, 2.0), G.wind_grid(nprs, Th, nx, ny, 7.5, 1.8), G.wind_grid(nprs, Tf, nx, ny, 8.0, 1.7)
        case = dict(kind="deb", what="real/" + name, nx=nx, ny=ny, To=To, Th=Th, Tf=Tf, dtype="float64", seed=C.seed(), nprocs=[2])
        _, errs = G.stacked(mk, obs, hist, fut, Tf, fut.dtype)
        if errs:
            res.notes.append(f"{name}: location {sorted(errs)[0]} raises {type(errs[sorted(errs)[0]]).__name__} — skipped")
            continue
        deb = mk()
        snap = G.snapshot(deb)
        nprocs = [2] if tier == "quick" else [1, 3]
        rs = [("serial", G.run_apply(deb, obs, hist, fut))] + [(f"parallel/{p}", G.run_apply(mk(), obs, hist, fut, parallel=True, nproc=p)) for p in nprocs]
        oracle(case, deb, obs, hist, fut, rs, problems, ref_deb=mk)
        check_state(case, deb, snap, obs, hist, fut, problems)
        res.count(("isimip-special-distribution", name, nx, ny, To, Th, Tf), True, sample=case if name.endswith("sfcWind-both") else None)

    # ---- argument aliasing: the same array object passed twice (adjusting the historical period: apply(obs, H, H); apply(O, O, F)).
    #      serial (views of the caller's arrays) = parallel (pickled copies) = per-location result on independent copies
    alias_names = list(debs) + ["pr/ScaledDistributionMapping", "pr/QuantileDeltaMapping"]
    if tier == "quick" and not (force_search or not lean_ok or mismatches):
        alias_names = ["ScaledDistributionMapping", "pr/ScaledDistributionMapping", "pr/QuantileDeltaMapping", "ECDFM", "QuantileMapping", "DeltaChange"] + rng.sample(
            ["LinearScaling", "ISIMIP", "CDFt", "QuantileDeltaMapping"], 1)
    for name in alias_names:
        mk = allmk[name]
        nprs = np.random.RandomState(rng.randint(0, 2**31 - 1))
        nx, ny = rng.choice([(2, 2), (1, 2), (2, 1)])
        T = rng.randint(40, 70)
        if name.startswith("pr/"):
            o0, h0, f0 = G.pr_grid(nprs, T, nx, ny, 0.8, 6), G.pr_grid(nprs, T, nx, ny, 0.9, 8), G.pr_grid(nprs, T, nx, ny, 0.9, 10)
        else:
            o0, h0, f0 = G.tas_grid(nprs, T, nx, ny, 283), G.tas_grid(nprs, T, nx, ny, 285), G.tas_grid(nprs, T, nx, ny, 287)
        n0 = rng.randint(8, 20)
        for alias in G.ALIASES:
            # logical values consistent with the memory relation (overlaps agree), then fresh arrays with that relation for every run
            o1, h1, f1 = o0.copy(), h0.copy(), f0.copy()
            if alias == "cm_hist and cm_future are overlapping slices of one array":
                f1 = np.concatenate([h1[n0:], f0[: n0 + 7]])           # cm_hist = cm[:T], cm_future = cm[n0:]
            elif alias == "cm_hist is a slice of cm_future":
                f1 = np.concatenate([h1, f0[:n0]])                     # cm_future = the whole run, cm_hist = its first part
            elif alias == "obs and cm_hist are overlapping slices of one array":
                h1 = np.concatenate([o1[n0:], h0[: n0 + 3]])
            elif alias == "cm_future is cm_hist":
                f1 = h1
            elif alias == "cm_hist is obs":
                h1 = o1

            def args():
                return G.alias_args(alias, o1, h1, f1, n0)

            a_ = args()
            if not (np.array_equal(a_[0], o1) and np.array_equal(a_[1], h1) and np.array_equal(a_[2], f1)):
                raise AssertionError("alias construction changed the logical values")
            ref_args = (o1.copy(), h1.copy(), f1.copy())
            out_T = o1.shape[0] if name == "DeltaChange" else f1.shape[0]
            case = dict(kind="dc" if name == "DeltaChange" else "deb", what="real/" + name, alias=alias, alias_n0=n0, nx=nx, ny=ny,
                        To=int(o1.shape[0]), Th=int(h1.shape[0]), Tf=int(f1.shape[0]), dtype="float64", seed=C.seed(), nprocs=[2])
            _, errs = G.stacked(mk, *ref_args, out_T, np.dtype(float))
            if errs:
                res.notes.append(f"{name} / {alias}: location {sorted(errs)[0]} raises {type(errs[sorted(errs)[0]]).__name__} — skipped")
                continue
            rs = [("serial", G.run_apply(mk(), *args())), ("parallel/2", G.run_apply(mk(), *args(), parallel=True, nproc=2))]
            oracle(case, mk(), *ref_args, rs, problems, ref_deb=mk)
            res.count(("alias", name, alias, nx, ny, T), True, sample=case if name == "pr/ScaledDistributionMapping" and alias.startswith("cm_future") else None)

    late_lines, late_expect = [], []  # second driver batch: keyword arguments, chunking, instance state

    # ---- kwargs reach apply_location in every branch (both probes, serial and parallel) — always, not by chance
    for kind in ("deb", "dc"):
        nprs = np.random.RandomState(rng.randint(0, 2**31 - 1))
        nx, ny = rng.choice([(2, 2), (1, 3), (2, 3)])
        To, Th, Tf = rng.randint(1, 6), rng.randint(1, 6), rng.randint(1, 6)
        obs, hist, fut = (G.rand_data(nprs, T, nx, ny, np.float64) for T in (To, Th, Tf))
        kw = {"shift": rng.randint(1, 9)}
        case = dict(kind=kind, what="probe-kwargs/" + kind, nx=nx, ny=ny, To=To, Th=Th, Tf=Tf, dtype="f8", marker=None, failsafe=False, kwargs=kw, nprocs=[1, 2])
        deb = G.make(kind)
        rs = [("serial+kw", G.run_apply(deb, obs, hist, fut, **kw))] + [(f"parallel/{p}+kw", G.run_apply(deb, obs, hist, fut, parallel=True, nproc=p, **kw)) for p in (1, 2)]
        oracle(case, deb, obs, hist, fut, rs, problems, kw)
        late_lines.append(G.grid_line(kind, "serial", False, obs, hist, fut, []).replace("grid ", "gridkw ", 1) + f" {kw['shift']}")
        late_expect.append(("gridkw-serial", case, G.canon(rs[0][1])))
        for label, r in rs[1:]:
            sched = list(range(nx * ny))
            rng.shuffle(sched)
            late_lines.append(G.grid_line(kind, "par", False, obs, hist, fut, sched).replace("grid ", "gridkw ", 1) + f" {kw['shift']}")
            late_expect.append(("gridkw-" + label, {**case, "sched": sched}, G.canon(r)))
        diff = G.pickle_roundtrip_differs(lambda: G.make(kind), obs[:, 0, 0], hist[:, 0, 0], fut[:, 0, 0], **kw)
        if diff:
            problems.append((f"pickle round trip of the debiaser changes apply_location at cell (0,0): {diff}", {**case, **G.pack(obs, hist, fut)}))
        res.count(("kwargs", kind, nx, ny, To, Th, Tf), True)

    # ---- running-window debiasers: the time arrays travel through apply(**kwargs); dates do not start on 1 January
    more = G.more_debiasers()
    import datetime

    for name in ("rw/DeltaChange", "rw/LinearScaling"):
        for rep in range(1 if tier == "quick" else 3):
            nprs = np.random.RandomState(rng.randint(0, 2**31 - 1))
            nx, ny = rng.choice([(1, 2), (2, 2), (2, 1)])
            lengths = [rng.randint(380, 500) for _ in range(3)]
            starts = [(datetime.date(rng.randint(1970, 2050), 1, 1) + datetime.timedelta(days=rng.randint(20, 340))).isoformat() for _ in range(3)]
            obs, hist, fut = (G.tas_grid(nprs, T, nx, ny, m) + 8 * np.sin(np.arange(T) / 58.0)[:, None, None] for T, m in zip(lengths, (283, 285, 287)))
            kw = G.time_kwargs(starts, lengths)
            deb = more[name]()
            case = dict(kind="dc" if "DeltaChange" in name else "deb", what="real/" + name, nx=nx, ny=ny, To=lengths[0], Th=lengths[1], Tf=lengths[2],
                        dtype="float64", starts=starts, seed=C.seed(), rep=rep, nprocs=[2])
            rs = [("serial+time", G.run_apply(deb, obs, hist, fut, **kw)), ("parallel/2+time", G.run_apply(more[name](), obs, hist, fut, parallel=True, nproc=2, **kw))]
            oracle(case, deb, obs, hist, fut, rs, problems, kw, ref_deb=more[name])
            # sensitivity of this case: without the time arrays (dates inferred from 1 January) the result is a different one
            r0 = G.run_apply(deb, obs, hist, fut)
            sensitive = rs[0][1][0] == "ok" and r0[0] == "ok" and not G.same(rs[0][1][1], r0[1])
            res.count(("time-kwargs", name, nx, ny, tuple(starts), tuple(lengths)), sensitive, sample=case if rep == 0 and "Delta" in name else None)
            if not sensitive:
                res.notes.append(f"{name}: case with starts {starts} does not depend on the time arrays")

    # ---- call sequences on one instance (see gen_history / run_history): settings assigned after construction, earlier work on another
    #      data set with another calendar (equal lengths or not), copies; per-location calls on the very instance before / after the grid call
    hist_names = ["rw/WindowProbe", "rw/LinearScaling", "rw/DeltaChange"]
    hist_other = ["rw/QuantileMapping", "isimip/tas-windows", "yw/CDFt", "yw/QuantileDeltaMapping", "LinearScaling", "DeltaChange", "ISIMIP"]
    n_hist = 20 if tier == "quick" else 60
    if force_search or not lean_ok or mismatches:
        n_hist *= 3
    import time

    t_hist = time.time()
    for k in range(n_hist):
        name = hist_names[k % 3] if k % 4 != 3 else hist_other[(k // 4 + C.seed()) % len(hist_other)]
        case = gen_history(rng, name, HISTORY_PATTERNS[(k // 3) % len(HISTORY_PATTERNS)] if k % 4 != 3 else rng.choice(HISTORY_PATTERNS))
        A, B = history_data(case)
        try:
            probs, note = run_history(case, A, B)
        except Exception as ex:  # noqa: BLE001  (the code under test is called under try inside run_history; this is a last resort)
            probs, note = [f"the call sequence raised {type(ex).__name__}: {G.safe_str(ex)}"], None
        if note:
            res.notes.append(f"history/{name}: {note}")
        for p in probs:
            problems.append((p, {**case, **G.pack(*B), **({} if case["same_data"] else G.pack(*A, prefix="prev_"))}))
        res.count(("history", name, str(case["steps"]), tuple(case["lengths_A"]), tuple(case["lengths_B"]), str(case["starts_A"]), str(case["starts_B"]),
                   tuple(case["order"]), case["nproc"]), note is None,
                  sample={k_: v for k_, v in case.items() if k_ != "data_seed"} if k == 0 else None)

    res.extra["history_cases"], res.extra["history_seconds"] = n_hist, round(time.time() - t_hist, 2)

    # ---- precipitation debiasers whose fit runs an optimiser / hurdle model: a degenerate (all-dry) cell is processed first;
    #      cell alone = in grid = in the grid with a different predecessor = parallel, bitwise
    # (QuantileDeltaMapping pr uses only fit + ppf of the left-censored gamma model; the hurdle / censored *cdf* of the other pr debiasers draws
    #  from numpy's global generator, so they are not deterministic configurations and are not compared here)
    pr_shapes = [(1, 2), (2, 2)] if tier == "quick" else [(1, 2), (2, 2), (1, 3), (3, 1), (2, 3)]
    for nx, ny in pr_shapes:
        name = "pr/QuantileDeltaMapping"
        nprs = np.random.RandomState(rng.randint(0, 2**31 - 1))
        To, Th, Tf = (rng.randint(150, 260) for _ in range(3))
        obs, hist, fut = G.pr_grid(nprs, To, nx, ny, 0.8, 6), G.pr_grid(nprs, Th, nx, ny, 0.9, 8), G.pr_grid(nprs, Tf, nx, ny, 0.9, 10)
        deb = more[name]()
        variants = [("wet-first", obs, hist)]
        o2, h2 = obs.copy(), hist.copy()
        o2[:, 0, 0] = 0.0
        h2[:, 0, 0] = 0.0
        variants.append(("dry-first", o2, h2))
        cols = {}
        for vname, o, h in variants:
            case = dict(kind="deb", what="real/" + name, variant=vname, nx=nx, ny=ny, To=To, Th=Th, Tf=Tf, dtype="float64", seed=C.seed(), nprocs=[2])
            _, errs = G.stacked(more[name], o, h, fut, Tf, fut.dtype)
            if errs:  # the degenerate cell is rejected by this debiaser: not an instance (C13 covers failures)
                res.notes.append(f"{name}/{vname}: cell {sorted(errs)[0]} raises {type(errs[sorted(errs)[0]]).__name__} — variant skipped")
                continue
            rs = [("serial", G.run_apply(deb, o, h, fut)), ("parallel/2", G.run_apply(more[name](), o, h, fut, parallel=True, nproc=2))]
            oracle(case, deb, o, h, fut, rs, problems, ref_deb=more[name])
            res.count(("pr", name, vname, nx, ny, To, Th, Tf), True, sample=case if vname == "dry-first" and "Delta" in name else None)
            if rs[0][1][0] == "ok":
                cols[vname] = rs[0][1][1][:, -1, -1]
        if len(cols) == 2 and not np.array_equal(cols["wet-first"], cols["dry-first"], equal_nan=True):
            problems.append((f"{name}: the column of the unchanged last cell differs when only the first cell's data changes (wet -> all-dry)",
                             {**case, "variant": "wet-first vs dry-first", **G.pack(obs, hist, fut), **G.pack(o2, h2, fut, "other_"), "cell": [nx - 1, ny - 1]}))

    # ---- the pool's chunking and an instance with state (model: chunksOf / defaultChunksize / applySerialSt / applyParallelSt)
    for k_, n_ in [(1, 1), (1, 5), (2, 5), (3, 7), (3, 9), (4, 4), (5, 3), (7, 20)]:
        late_lines.append(f"chunks {k_} {n_}")
        late_expect.append(("chunks", {"k": k_, "n": n_}, C.ilist(G.real_chunks(k_, n_))))
    chunksize = {}
    for p_ in (1, 2, 3, 5):
        ns = list(range(0, 14)) + [16, 17, 20, 21, 40, 41]
        chunksize[p_] = G.real_default_chunksizes(p_, ns)
        for n_, cs in chunksize[p_].items():
            late_lines.append(f"defchunk {n_} {p_}")
            late_expect.append(("defchunk", {"n": n_, "p": p_}, str(cs)))
    for nx, ny, p_ in [(3, 3, 1), (3, 3, 2), (2, 3, 1), (1, 3, 5), (3, 4, 1)][: (3 if tier == "quick" else 5)]:
        n_ = nx * ny
        nprs = np.random.RandomState(rng.randint(0, 2**31 - 1))
        To, Th, Tf = rng.randint(1, 4), rng.randint(1, 4), rng.randint(1, 4)
        for fs in (False, True):
            obs, hist, fut = (G.rand_data(nprs, T, nx, ny, np.float64) for T in (To, Th, Tf))
            if fs:
                fut[0, rng.randrange(nx), rng.randrange(ny)] = G.M_ERR
            s0 = rng.choice([0, 3])
            kch = chunksize[p_].get(n_) or G.real_default_chunksizes(p_, [n_])[n_]
            case = dict(kind="deb", what="counting-probe", nx=nx, ny=ny, To=To, Th=Th, Tf=Tf, failsafe=fs, s0=s0, nr_processes=p_, chunksize=kch)
            for mode in ("serial", "par"):
                deb = G.CountingProbe(calls=s0)
                r = G.run_apply(deb, obs, hist, fut, parallel=(mode == "par"), nproc=p_, failsafe=fs)
                nch = len(G.real_chunks(kch, n_))
                sched = list(range(nch))
                rng.shuffle(sched)
                late_lines.append(f"gridst {mode} {int(fs)} {nx} {ny} {To} {Th} {Tf} {C.ilist(obs.ravel())} {C.ilist(hist.ravel())} {C.ilist(fut.ravel())} "
                                  f"{s0} {kch} {C.ilist(sched) if mode == 'par' else '-'}")
                late_expect.append(("gridst-" + mode, {**case, "sched": sched}, G.canon(r) + (f" state {deb.calls}" if r[0] == "ok" else "")))
                res.count(("state", mode, nx, ny, p_, fs, s0), True, sample={**case, "mode": mode, "result": (G.canon(r) + f" state {deb.calls}")[:90]} if (nx, ny, p_) == (3, 3, 1) and not fs else None)
    try:
        out2 = C.run_driver("DrvGrid", late_lines)
        for (what, case, exp), got in zip(late_expect, out2):
            res.cov["traces_validated_against_impl"] += 1
            if exp != got:
                mismatches.append({"op": what, "case": case, "impl": exp[:300], "model": got[:300]})
    except (C.DriverError, Exception) as ex:  # noqa: BLE001
        mismatches.append({"op": "driver", "case": {}, "impl": "", "model": f"{type(ex).__name__}: {str(ex)[:400]}"})
    if mismatches and not any("correspondence DrvGrid" in t for t in res.tie_broken):
        res.tie_broken.append(f"correspondence DrvGrid: {len(mismatches)} mismatches, first: {mismatches[0]}")

    res.extra["start_method"] = G.start_method()
    # ---- verdict
    seen = set()
    for p, case in problems:
        key = (re.sub(r"[0-9]+", "#", p)[:48], case.get("kind"), case.get("what"))
        if key in seen or len(seen) >= 6:
            continue
        seen.add(key)
        res.violations.append((p, {"property": PROP, "failing_input": _json(case), "problem": p,
                                   "signature": {"what": case.get("what", "probe/" + str(case.get("kind")))}}))
    if res.tie_broken and not problems:
        res.violations.append(("proof obligation / correspondence no longer checks: " + "; ".join(res.tie_broken)[:600],
                               {"property": PROP, "failing_input": None, "broken": res.tie_broken, "mismatches": mismatches[:5]}))
    return res


def _json(case):
    return {k: (list(v) if isinstance(v, tuple) else v) for k, v in case.items()}


def replay(data):
    """re-run the failing input of a replay file against the real code; exit 1 iff the violation reproduces"""
    fi = data.get("failing_input")
    if not fi or "obs" not in fi:
        print("replay: no failing input recorded (a proof obligation / the correspondence broke):", str(data.get("broken"))[:300])
        return 2
    if str(fi.get("what", "")).startswith("history/"):  # a call sequence on one instance: re-run the steps on the recorded data sets
        B = G.unpack(fi)
        A = tuple(x.copy() for x in B) if fi.get("same_data") else G.unpack(fi, "prev_")
        probs, note = run_history({k: v for k, v in fi.items() if not isinstance(v, dict)}, A, B)
        for p in probs:
            print("REPRODUCED:", p)
        if not probs:
            print("not reproduced: the property holds on this call sequence" + (f" ({note})" if note else ""))
        return 1 if probs else 0
    if fi.get("containers"):  # an input-kind case: rebuild the containers (dtype, mask, construction path, layout) over the recorded storage
        probs = run_kinds({k: v for k, v in fi.items() if not (isinstance(v, dict) and "values" in v)}, list(G.unpack(fi)))
        for p, _ in probs:
            print("REPRODUCED:", p)
        if not probs:
            print("not reproduced: the property holds on this input")
        return 1 if probs else 0
    obs, hist, fut = G.unpack(fi)
    if fi.get("layouts"):
        obs, hist, fut = (G.relayout(a, lay) for a, lay in zip((obs, hist, fut), fi["layouts"]))
    if fi.get("alias"):
        obs, hist, fut = G.alias_args(fi["alias"], obs, hist, fut, fi.get("alias_n0", 0))
    deb = G.debiaser_for(fi)
    kw = fi.get("kwargs") or {}
    if fi.get("starts"):
        kw = G.time_kwargs(fi["starts"], [obs.shape[0], hist.shape[0], fut.shape[0]])
    fs = bool(fi.get("failsafe", False))
    results = [("serial", G.run_apply(deb, obs, hist, fut, failsafe=fs, **kw))]
    for p in fi.get("nprocs") or [2]:
        results.append((f"parallel/{p}", G.run_apply(deb, obs, hist, fut, parallel=True, nproc=p, failsafe=fs, **kw)))
    problems = []
    oracle({k: v for k, v in fi.items() if k not in ("obs", "hist", "fut")}, deb, obs.copy(), hist.copy(), fut.copy(), results, problems, kw,
           ref_deb=lambda: G.debiaser_for(fi))
    if "other_obs" in fi and "cell" in fi:
        o2, h2, f2 = G.unpack(fi, "other_")
        i, j = fi["cell"]
        r1, r2 = results[0][1], G.run_apply(deb, o2, h2, f2)
        if r1[0] == "ok" and (r2[0] != "ok" or not np.array_equal(r1[1][:, i, j], r2[1][:, i, j], equal_nan=True)):
            problems.append((f"column ({i},{j}) changed when only the other cells' data changed", fi))
    for p, _ in problems:
        print("REPRODUCED:", p)
    if not problems:
        print("not reproduced: the property holds on this input")
    return 1 if problems else 0
