"""C12 — debiasing is pure: inputs untouched, instances reusable, seed-deterministic.

Lean side (proof over an explicit store model, partial by nature):
  Model/Purity.lean    alias model (provenance own | caller k, programs, checker, heap semantics) + write-site tables
  Model/Instance.lean  instance model (settings x derived, derive, apply)
  Props/C12.lean       inputs_preserved, result_is_fresh, derive_idem, apply_settings_fixed, output_depends_only_on, apply_repeatable ...
  Gen/WriteSites.lean  regenerated write sites / self-assign sites / global state of the anchored files (tier A)

Tier B (this file): the real debiasers on read-only inputs of several memory layouts; bytes of every input before/after;
np.shares_memory at the entry of every modelled function against the model's provenance table (validates the TRUSTED numpy
view/copy classification); vars(instance) snapshots; repeated / interleaved calls under np.random.seed; the instance
model's `derive` against real instances.  Serial only (parallel is C05).
"""
import contextlib
import datetime
import inspect
import random
import sys
import warnings
from fractions import Fraction

import numpy as np

from harness import common as C

PROP = "C12"
TARGETS = ["IbicusModel.Props.C12"]
GEN = ["WriteSites"]
# tier A for the provenance programs (builder c12A): the function tables of all eight debiaser classes regenerated from the AST
# (translator/extract_purity.py -> Gen/Purity.lean), accepted by the checker of Model/PurityProg.lean (Lemmas/GenPurity.lean)
TARGETS += ["IbicusModel.Lemmas.GenPurity"]
GEN += ["Purity"]

CALLER_NAMES = ["obs", "cm_hist", "cm_future", "time_obs", "time_cm_hist", "time_cm_future"]
SIX = CALLER_NAMES
THREE = ["obs", "cm_hist", "cm_future"]
THREE_H = ["obs_hist", "cm_hist", "cm_future"]


# ------------------------------------------------------------------ data
def dates_from(start, n, kind="date"):
    if kind == "datetime64":
        return np.arange(np.datetime64(start), np.datetime64(start) + np.timedelta64(n, "D"))
    return np.array([start + datetime.timedelta(days=k) for k in range(n)], dtype=object)


def doy(dates):
    if np.issubdtype(np.asarray(dates).dtype, np.datetime64):
        dates = dates.astype("datetime64[D]").astype(object)
    return np.array([d.timetuple().tm_yday for d in dates])


def gen_data(var, nprs, dates, shift=0.0):
    """1-d series of the variable on the given dates"""
    n = len(dates)
    d = doy(dates)
    season = np.sin(2 * np.pi * d / 365.25)
    if var == "tas":
        return 283.0 + shift + 8 * season + 3 * nprs.standard_normal(n)
    if var == "pr":
        x = nprs.gamma(0.8, 4e-5 * (1 + 0.2 * shift), n)
        x[nprs.random_sample(n) < 0.35] = 0.0
        return x
    if var == "hurs":
        x = 100 * nprs.beta(5, 2, n) * (1 + 0.02 * shift)
        x[nprs.random_sample(n) < 0.06] = 100.0
        x[nprs.random_sample(n) < 0.03] = 0.0
        return np.clip(x, 0, 100)
    if var == "prsnratio":
        x = nprs.beta(1.2, 1.5, n)
        x[nprs.random_sample(n) < 0.10] = 0.0
        x[nprs.random_sample(n) < 0.10] = 1.0
        x[nprs.random_sample(n) < 0.12] = np.nan
        return x
    if var == "rsds":
        return np.maximum(0.0, (180 + 10 * shift + 120 * season) * nprs.beta(4, 1.5, n))
    raise ValueError(var)


LAYOUTS_3D = ["C", "F", "strided", "transposed", "offset"]
LAYOUTS_1D = ["C", "strided", "column", "reversed"]


def lay3(a, layout):
    """(base, view): view equals `a`, base owns the memory"""
    if layout == "C":
        b = np.array(a, order="C", copy=True)  # always a new object: the generator's arrays are never handed out themselves
        return b, b
    if layout == "F":
        b = np.asfortranarray(a)
        return b, b
    if layout == "strided":
        b = np.full((2 * a.shape[0],) + a.shape[1:], -7.0, dtype=a.dtype)
        b[::2] = a
        return b, b[::2]
    if layout == "transposed":
        b = np.ascontiguousarray(a.transpose(2, 1, 0))
        return b, b.transpose(2, 1, 0)
    if layout == "offset":
        b = np.full((a.shape[0] + 3,) + a.shape[1:], -7.0, dtype=a.dtype)
        b[2:-1] = a
        return b, b[2:-1]
    raise ValueError(layout)


def lay1(a, layout):
    if layout == "C":
        b = np.array(a, order="C", copy=True)  # always a new object: the generator's arrays are never handed out themselves
        return b, b
    if layout == "strided":
        b = np.empty(2 * a.size, dtype=a.dtype)
        b[:] = a[0] if a.size else 0
        b[::2] = a
        return b, b[::2]
    if layout == "column":
        b = np.empty((a.size, 3), dtype=a.dtype)
        for k in range(3):
            b[:, k] = a
        return b, b[:, 1]
    if layout == "reversed":
        b = np.ascontiguousarray(a[::-1])
        return b, b[::-1]
    raise ValueError(layout)


# ------------------------------------------------------------------ configurations
def configurations():
    """name -> (variable, factory, randomised, needs_dates)"""
    import scipy.stats

    from ibicus.debias import (CDFt, DeltaChange, ECDFM, ISIMIP, LinearScaling, QuantileDeltaMapping,
                               QuantileMapping, ScaledDistributionMapping)
    from ibicus.utils import gen_PrecipitationHurdleModel

    won = dict(running_window_mode=True, running_window_length=61, running_window_step_length=61)
    woff = dict(running_window_mode=False)
    yoff = dict(running_window_mode_over_years_of_cm_future=False)
    yon = dict(running_window_mode_over_years_of_cm_future=True, running_window_over_years_of_cm_future_length=3,
               running_window_over_years_of_cm_future_step_length=1)
    isi = dict(running_window_mode=True, running_window_length=61, running_window_step_length=61)
    cfgs = {
        "ls_tas": ("tas", lambda: LinearScaling.from_variable("tas", **woff), False),
        "ls_pr_window": ("pr", lambda: LinearScaling.from_variable("pr", **won), False),
        "ls_tas_nan": ("tas_nan", lambda: LinearScaling.from_variable("tas", **woff), False),
        "dc_tas_window": ("tas", lambda: DeltaChange.from_variable("tas", **won), False),
        "dc_pr": ("pr", lambda: DeltaChange.from_variable("pr", **woff), False),
        "qm_tas": ("tas", lambda: QuantileMapping.from_variable("tas", **woff), False),
        "qm_tas_nonparam_window": ("tas", lambda: QuantileMapping.from_variable("tas", mapping_type="nonparametric", detrending="no_detrending", **won), False),
        "qm_pr_hurdle": ("pr", lambda: QuantileMapping.from_variable("pr", **woff), True),
        "ecdfm_tas_window": ("tas", lambda: ECDFM.from_variable("tas", distribution=scipy.stats.norm, **won), False),
        "ecdfm_pr_hurdle": ("pr", lambda: ECDFM.from_variable("pr", **woff), True),
        "cdft_tas": ("tas", lambda: CDFt.from_variable("tas", **won, **yon), False),
        "cdft_pr_ssr": ("pr", lambda: CDFt.from_variable("pr", **woff, **yon), True),
        "cdft_tas_noshift": ("tas", lambda: CDFt.from_variable("tas", delta_shift="no_shift", **woff, **yoff), False),
        "qdm_tas": ("tas", lambda: QuantileDeltaMapping.from_variable("tas", **won, **yon), False),
        "qdm_pr_censored": ("pr", lambda: QuantileDeltaMapping.from_variable("pr", **woff, **yoff), True),
        "sdm_tas_window": ("tas", lambda: ScaledDistributionMapping.from_variable("tas", **won), False),
        "sdm_pr_relative": ("pr", lambda: ScaledDistributionMapping.from_variable("pr", **woff), False),
        "isimip_tas": ("tas", lambda: ISIMIP.from_variable("tas", **isi), False),
        "isimip_pr": ("pr", lambda: ISIMIP.from_variable("pr", **isi), True),
        "isimip_hurs": ("hurs", lambda: ISIMIP.from_variable("hurs", **isi), True),
        "isimip_prsnratio_impute": ("prsnratio", lambda: ISIMIP.from_variable("prsnratio", **isi), True),
        "isimip_rsds_dates": ("rsds", lambda: ISIMIP.from_variable("rsds", **isi), True),
        "isimip_tas_months": ("tas", lambda: ISIMIP.from_variable("tas", running_window_mode=False), False),
        "isimip_pr_months_notrendwithin": ("pr", lambda: ISIMIP.from_variable("pr", running_window_mode=False, trend_transfer_only_for_values_within_threshold=False), True),
        "isimip_hurs_months_param": ("hurs", lambda: ISIMIP.from_variable("hurs", running_window_mode=False, nonparametric_qm=False), True),
        # series shorter than a year: every month is one contiguous block (a slice would be a view)
        "isimip_pr_months_short": ("pr@short", lambda: ISIMIP.from_variable("pr", running_window_mode=False), True),
        "isimip_hurs_months_short": ("hurs@short", lambda: ISIMIP.from_variable("hurs", running_window_mode=False), True),
        "isimip_prsnratio_months_short": ("prsnratio@short", lambda: ISIMIP.from_variable("prsnratio", running_window_mode=False), True),
        # a dry / saturated season with 0, 1, 2 values between the thresholds per month or window (parametric step-6 fallbacks)
        "isimip_pr_dryseason": ("pr@dry", lambda: ISIMIP.from_variable("pr", running_window_mode=True, running_window_length=31, running_window_step_length=31), True),
        "isimip_pr_months_dryseason": ("pr@dry", lambda: ISIMIP.from_variable("pr", running_window_mode=False), True),
        "isimip_hurs_months_param_saturated": ("hurs@dry", lambda: ISIMIP.from_variable("hurs", running_window_mode=False, nonparametric_qm=False), True),
        # a running window that covers the whole year: the window index set is every time step
        "ls_tas_fullwindow": ("tas", lambda: LinearScaling.from_variable("tas", running_window_mode=True, running_window_length=367, running_window_step_length=367), False),
        "sdm_pr_fullwindow": ("pr", lambda: ScaledDistributionMapping.from_variable("pr", running_window_mode=True, running_window_length=367, running_window_step_length=367), False),
        "isimip_hurs_fullwindow": ("hurs", lambda: ISIMIP.from_variable("hurs", running_window_mode=True, running_window_length=367, running_window_step_length=367), True),
    }
    _ = gen_PrecipitationHurdleModel
    return cfgs


def model_cfg_tokens(deb, entry):
    """the model configuration(s) (driver tokens) of a real instance: [outer] or [outer, inner] for ISIMIP"""
    name = type(deb).__name__
    w = int(bool(getattr(deb, "running_window_mode", False)))
    if name == "LinearScaling":
        return [f"ls {entry} {w}"]
    if name == "DeltaChange":
        return [f"dc {entry} {w}"]
    if name == "QuantileMapping":
        return [f"qm {entry} {w} {deb.detrending} {int(deb.mapping_type == 'parametric')}"]
    if name == "ECDFM":
        return [f"ecdfm {entry} {w}"]
    if name == "CDFt":
        return [f"cdft {entry} {w} {int(deb.running_window_mode_over_years_of_cm_future)} {int(deb.SSR)} {int(deb.delta_shift != 'no_shift')}"]
    if name == "QuantileDeltaMapping":
        return [f"qdm {entry} {w} {int(deb.running_window_mode_over_years_of_cm_future)} {int(deb.censor_values_to_zero)}"]
    if name == "ScaledDistributionMapping":
        return [f"sdm {entry} {w} {int(deb.mapping_type == 'relative')}"]
    if name == "ISIMIP":
        lower = int(deb.has_lower_bound and deb.has_lower_threshold)
        upper = int(deb.has_upper_bound and deb.has_upper_threshold)
        return [f"isimip {entry} {w} {int(deb.scale_by_annual_cycle_of_upper_bounds)}",
                f"window {int(deb.impute_missing_values)} {int(deb.detrending)} {lower} {upper} "
                f"{int(deb.trend_transfer_only_for_values_within_threshold)} {deb.trend_preservation_method}"]
    raise ValueError(name)


def rng_guards(deb):
    """the guards of Model.Purity.rngSitesJ that the instance switches on; [] = the configuration is deterministic"""
    from ibicus.utils import gen_PrecipitationGammaLeftCensoredModel, gen_PrecipitationHurdleModel

    g = []
    name = type(deb).__name__
    if name == "CDFt" and deb.SSR:
        g.append("cdftSSR")
    if name == "ISIMIP":
        if deb.impute_missing_values:
            g.append("isimipImpute")
        if deb.has_lower_bound and deb.has_lower_threshold:
            g.append("isimipLower")
        if deb.has_upper_bound and deb.has_upper_threshold:
            g.append("isimipUpper")
    dist = getattr(deb, "distribution", None)
    if isinstance(dist, gen_PrecipitationHurdleModel) and dist.cdf_randomization:
        g.append("hurdleRandomization")
    if isinstance(dist, gen_PrecipitationGammaLeftCensoredModel):
        g.append("censoredModel")
    return g


# ------------------------------------------------------------------ provenance probes (monkeypatched wrappers, no source change)
class Recorder:
    def __init__(self):
        self.draw_sites = set()
        self.active = False
        self.callers = [None] * 6
        self.items = set()
        self.calls = 0

    def prov(self, arr):
        for k, c in enumerate(self.callers):
            if c is not None and np.may_share_memory(arr, c) and np.shares_memory(arr, c):
                return f"caller{k}"
        return "own"

    def record(self, pyname, bound, params):
        if not self.active:
            return
        self.calls += 1
        for p in params:
            v = bound.get(p)
            if isinstance(v, np.ndarray):
                self.items.add(f"{pyname}.{p}={self.prov(v)}")


REC = Recorder()


def wrap_targets():
    """(owner object, attribute, python name as the model prints it, recorded parameters)"""
    import ibicus.debias._cdft as m_cdft
    import ibicus.debias._debiaser as m_deb
    import ibicus.debias._delta_change as m_dc
    import ibicus.debias._ecdfm as m_ecdfm
    import ibicus.debias._isimip as m_isi
    import ibicus.debias._linear_scaling as m_ls
    import ibicus.debias._quantile_delta_mapping as m_qdm
    import ibicus.debias._quantile_mapping as m_qm
    import ibicus.debias._running_window_debiaser as m_rw
    import ibicus.debias._scaled_distribution_mapping as m_sdm

    D, DC, I = m_deb.Debiaser, m_dc.DeltaChange, m_isi.ISIMIP
    t = [
        (D, "apply", "Debiaser.apply", SIX), (DC, "apply", "DeltaChange.apply", SIX),
        (D, "map_over_locations", "Debiaser.map_over_locations", SIX),
        (D, "_run_func_on_location_and_catch_error", "Debiaser._run_func_on_location_and_catch_error", SIX),
        (m_rw.RunningWindowDebiaser, "apply_location", "RunningWindowDebiaser.apply_location", SIX),
        (DC, "apply_location", "DeltaChange.apply_location", SIX), (I, "apply_location", "ISIMIP.apply_location", SIX),
        (DC, "_apply_on_within_year_window", "DeltaChange._apply_on_within_year_window", THREE),
        (m_ls.LinearScaling, "apply_on_window", "LinearScaling.apply_on_window", SIX),
        (m_qm.QuantileMapping, "apply_on_window", "QuantileMapping.apply_on_window", SIX),
        (m_qm.QuantileMapping, "_standard_qm", "QuantileMapping._standard_qm", ["x", "obs", "cm_hist"]),
        (m_ecdfm.ECDFM, "apply_on_window", "ECDFM.apply_on_window", SIX),
        (m_cdft.CDFt, "apply_on_window", "CDFt.apply_on_window", SIX),
        (m_cdft.CDFt, "_apply_debiasing_steps", "CDFt._apply_debiasing_steps", THREE),
        (m_cdft.CDFt, "_randomize_zero_values_between_zero_and_threshold", "CDFt._randomize_zero_values_between_zero_and_threshold", ["x"]),
        (m_qdm.QuantileDeltaMapping, "apply_on_window", "QuantileDeltaMapping.apply_on_window", SIX),
        (m_qdm.QuantileDeltaMapping, "_apply_debiasing_steps", "QuantileDeltaMapping._apply_debiasing_steps", ["cm_future"]),
        (m_sdm.ScaledDistributionMapping, "apply_on_window", "ScaledDistributionMapping.apply_on_window", SIX),
        (m_sdm.ScaledDistributionMapping, "_apply_on_window_relative_sdm", "ScaledDistributionMapping._apply_on_window_relative_sdm", THREE),
        (m_sdm.ScaledDistributionMapping, "_apply_on_window_absolute_sdm", "ScaledDistributionMapping._apply_on_window_absolute_sdm", THREE),
        (I, "step1", "ISIMIP.step1", THREE_H + ["time_obs_hist", "time_cm_hist", "time_cm_future"]),
        (I, "_apply_on_window", "ISIMIP._apply_on_window", THREE_H),
        (I, "step2", "ISIMIP.step2", THREE_H), (I, "_step2_impute_values", "ISIMIP._step2_impute_values", ["x"]),
        (I, "step3", "ISIMIP.step3", THREE_H), (I, "_step3_remove_trend", "ISIMIP._step3_remove_trend", ["x"]),
        (I, "step4", "ISIMIP.step4", THREE_H),
        (I, "_step4_randomize_values_between_lower_threshold_and_bound", "ISIMIP._step4_randomize_values_between_lower_threshold_and_bound", ["vals"]),
        (I, "_step4_randomize_values_between_upper_threshold_and_bound", "ISIMIP._step4_randomize_values_between_upper_threshold_and_bound", ["vals"]),
        (I, "step5", "ISIMIP.step5", THREE_H), (I, "_step5_transfer_trend", "ISIMIP._step5_transfer_trend", THREE_H),
        (I, "step6", "ISIMIP.step6", THREE_H + ["obs_future"]),
        (I, "step7", "ISIMIP.step7", ["cm_future", "trend_cm_future"]),
        (I, "step8", "ISIMIP.step8", ["cm_future", "debiased_annual_cycle", "time_cm_future"]),
    ]
    return t


MODULE_FUNCS = [("_verif_mark_unassigned", ["x"]),
                ("quantile_map_non_parametically_with_constant_extrapolation", ["x", "y", "vals"])]


def make_wrapper(func, pyname, params):
    sig = inspect.signature(func)
    kwname = next((p.name for p in sig.parameters.values() if p.kind == p.VAR_KEYWORD), None)

    def wrapper(*a, **k):
        if REC.active:
            try:
                b = sig.bind(*a, **k)
                bound = dict(b.arguments)
                if kwname and kwname in bound:
                    bound.update(bound.pop(kwname))
            except TypeError:
                bound = dict(k)
            REC.record(pyname, bound, params)
        return func(*a, **k)

    wrapper.__wrapped__ = func
    # same module / qualified name as the original: the process pool pickles functions by name, and the name resolves to
    # this wrapper while the probes are installed
    wrapper.__name__ = getattr(func, "__name__", "wrapped")
    wrapper.__qualname__ = getattr(func, "__qualname__", wrapper.__name__)
    wrapper.__module__ = getattr(func, "__module__", __name__)
    return wrapper


@contextlib.contextmanager
def probes_installed():
    """install the recording wrappers on every modelled function; restore on exit"""
    undo, missing = [], []
    for owner, attr, pyname, params in wrap_targets():
        raw = owner.__dict__.get(attr)
        if raw is None:
            missing.append(pyname)
            continue
        if isinstance(raw, staticmethod):
            new = staticmethod(make_wrapper(raw.__func__, pyname, params))
        elif isinstance(raw, classmethod):
            missing.append(pyname + " (classmethod)")
            continue
        else:
            new = make_wrapper(raw, pyname, params)
        undo.append((owner, attr, raw))
        setattr(owner, attr, new)
    for fname, params in MODULE_FUNCS:
        seen_orig = None
        for mname, mod in list(sys.modules.items()):
            if not mname.startswith("ibicus") or mod is None:
                continue
            f = mod.__dict__.get(fname)
            if f is None or not callable(f) or hasattr(f, "__wrapped__"):
                continue
            if seen_orig is None:
                seen_orig = (f, make_wrapper(f, fname, params))
            if f is seen_orig[0]:
                undo.append((mod, fname, f))
                setattr(mod, fname, seen_orig[1])
        if seen_orig is None:
            missing.append(fname)
    # numpy's global-generator functions: record WHO draws (qualified name of the calling function)
    for fname in ("uniform", "random", "random_sample", "normal", "rand", "randn", "randint", "choice", "shuffle", "permutation", "seed"):
        orig = getattr(np.random, fname, None)
        if orig is None:
            continue

        def make(orig_=orig, fname_=fname):
            def rng_probe(*a, **k):
                if REC.active:
                    fr = sys._getframe(1)
                    if str(fr.f_globals.get("__name__", "")).startswith("ibicus"):
                        REC.draw_sites.add((getattr(fr.f_code, "co_qualname", fr.f_code.co_name), "np.random." + fname_))
                return orig_(*a, **k)
            return rng_probe

        undo.append((np.random, fname, orig))
        setattr(np.random, fname, make())
    try:
        yield missing
    finally:
        for owner, attr, raw in reversed(undo):
            setattr(owner, attr, raw)


# ------------------------------------------------------------------ one protocol run
def snapshot(x):
    """bytes of an array (object arrays: the pointers = element identity) + a value copy"""
    return (x.tobytes(), x.copy(), x.shape, x.strides, x.dtype)


def same_snapshot(x, snap):
    by, cp, shp, strd, dt = snap
    if x.shape != shp or x.strides != strd or x.dtype != dt:
        return "shape/strides/dtype changed"
    if x.tobytes() != by:
        return "bytes changed"
    if x.dtype == object:
        if not all(a is b and a == b for a, b in zip(x.ravel(), cp.ravel())):
            return "object elements changed"
    return None


def vars_snapshot(deb):
    import attrs

    fields = {a.name for a in attrs.fields(type(deb))}
    d = dict(vars(deb))
    settings = {k: d[k] for k in d if k in fields}
    derived = {k: d[k] for k in d if k not in fields}
    return settings, derived


def same_vars(a, b):
    if a.keys() != b.keys():
        return f"attribute set changed: {sorted(set(a) ^ set(b))}"
    for k in a:
        x, y = a[k], b[k]
        try:
            eq = (x is y) or bool(x == y)
        except Exception:  # noqa: BLE001
            eq = x is y
        if not eq:
            return f"attribute {k}: {x!r} -> {y!r}"
    return None


class Inputs:
    """the caller's arrays for one call: bases (own the memory), views (what is passed), snapshots"""

    def __init__(self, arrays, times, layout, entry, masks=None):
        self.bases, self.views, self.nd_views, self.masks = [], [], [], []
        lay = lay3 if entry == "apply" else lay1
        for k, a in enumerate(arrays):
            b, v = lay(a, layout)
            self.bases.append(b)
            self.nd_views.append(v)
            if masks is not None:
                # a float masked array built on the caller's ndarray without copying: the data buffer is the caller's
                m = masks[k].copy()
                mv = np.ma.MaskedArray(v, mask=m, copy=False)
                assert np.shares_memory(np.ma.getdata(mv), v)
                self.masks.append(np.ma.getmaskarray(mv))
                self.views.append(mv)
            else:
                self.views.append(v)
        self.msnaps = [snapshot(m) for m in self.masks]
        self.tbases, self.tviews = [], []
        for t in times:
            if t is None:
                self.tbases.append(None)
                self.tviews.append(None)
            else:
                b, v = lay1(t, "strided" if layout in ("strided", "column", "offset") else "C")
                self.tbases.append(b)
                self.tviews.append(v)
        self.snaps = [snapshot(b) for b in self.bases] + [None if b is None else snapshot(b) for b in self.tbases]
        self.vsnaps = [snapshot(v) for v in self.nd_views] + [None if v is None else snapshot(v) for v in self.tviews]

    def readonly(self, flag=True):
        for b in self.bases + [t for t in self.tbases if t is not None]:
            b.flags.writeable = not flag
        for v in self.nd_views + [w for w in self.views if isinstance(w, np.ma.MaskedArray)] + [t for t in self.tviews if t is not None]:
            if v.flags.writeable == flag:
                try:
                    v.flags.writeable = not flag
                except ValueError:
                    pass

    def callers(self):
        """the memory the caller owns (for a masked array: its data buffer)"""
        return self.nd_views + self.tviews

    def changed(self):
        out = []
        alls = self.bases + self.tbases
        for k, (b, s) in enumerate(zip(alls, self.snaps)):
            if b is None:
                continue
            why = same_snapshot(b, s)
            if why:
                out.append(f"{CALLER_NAMES[k]}: {why}")
        for k, (v, s) in enumerate(zip(self.nd_views + self.tviews, self.vsnaps)):
            if v is None:
                continue
            why = same_snapshot(v, s)
            if why and not any(o.startswith(CALLER_NAMES[k]) for o in out):
                out.append(f"{CALLER_NAMES[k]} (view): {why}")
        for k, (mv, m, ms) in enumerate(zip(self.views, self.masks, self.msnaps)):
            why = same_snapshot(np.ma.getmaskarray(mv), ms) or same_snapshot(m, ms)
            if why:
                out.append(f"{CALLER_NAMES[k]} (mask of the masked array): {why}")
            d = np.ma.getdata(mv)
            why = same_snapshot(d, self.vsnaps[k]) if d.strides == self.vsnaps[k][3] else None
            if why and not any(o.startswith(CALLER_NAMES[k]) for o in out):
                out.append(f"{CALLER_NAMES[k]} (np.ma.getdata of the masked array): {why}")
        return out


def rng_state_equal(a, b):
    return a[0] == b[0] and np.array_equal(a[1], b[1]) and tuple(a[2:]) == tuple(b[2:])


RNG_ADVANCED = []  # set by call(): did the last call change numpy's global generator state?


def call(deb, inp, entry, seed, parallel=False):
    """seed=None: do not re-seed (deterministic configurations are repeated on whatever state the generator is in)"""
    if seed is not None:
        np.random.seed(seed)
    st0 = np.random.get_state()
    try:
        return _call(deb, inp, entry, parallel=parallel)
    finally:
        RNG_ADVANCED.append(not rng_state_equal(st0, np.random.get_state()))


def _call(deb, inp, entry, parallel=False):
    o, h, f = inp.views
    to, th, tf = inp.tviews
    kw = {}
    if to is not None:
        kw = dict(time_obs=to, time_cm_hist=th, time_cm_future=tf)
    with warnings.catch_warnings():
        warnings.simplefilter("ignore")
        if entry == "apply":
            if parallel:
                return deb.apply(o, h, f, progressbar=False, parallel=True, nr_processes=1, **kw)
            return deb.apply(o, h, f, progressbar=False, **kw)
        return deb.apply_location(o, h, f, **kw)


def make_series(var, nprs, tier, entry, dtype, times_kind, conv=False, ties=False):
    n_o = 730 if tier == "quick" else 1095
    extra = 1
    dry = var.endswith("@dry")
    if dry:
        var = var[:-4]
    if var.endswith("@short"):
        var, n_o, extra = var[:-6], 365, 0  # exactly one (non-leap) calendar year: every month is one contiguous block
    y0 = 1990
    dO = dates_from(datetime.date(y0, 1, 1), n_o, times_kind)
    dH = dates_from(datetime.date(y0, 1, 1), n_o + extra, times_kind)
    dF = dates_from(datetime.date(y0 + 61, 1, 1), n_o + 2 * extra, times_kind)
    base = var.replace("_nan", "")
    shape = (1, 2) if entry == "apply" else ()
    arrs = []
    for dates, sh in ((dO, 0.0), (dH, 1.0), (dF, 3.0)):
        if entry == "apply":
            cols = [gen_data(base, nprs, dates, sh) for _ in range(shape[0] * shape[1])]
            a = np.stack(cols, axis=1).reshape(len(dates), *shape)
        else:
            a = gen_data(base, nprs, dates, sh)
        if dry and sh == 3.0:  # the series to be corrected only
            # a season in which the variable sits at its bound (no rain / saturated air) apart from 0, 1 or 2 days:
            # windows / months with exactly 0, 1, 2 values between the thresholds (data-dependent fallbacks of ISIMIP step 6)
            dd = doy(dates)
            yrs = np.array([getattr(t, "year", None) or int(str(t)[:4]) for t in dates])
            bound = 0.0 if base == "pr" else 100.0
            inside = 3e-5 if base == "pr" else 55.0
            a = np.array(a, dtype=float)
            block = (dd >= 121) & (dd <= 273)  # May .. September
            a[block] = bound
            y0_ = int(yrs.min())
            for (dsel, ysel, val) in ((196, y0_, inside), (232, y0_, inside), (236, y0_ + (1 if (yrs > y0_).any() else 0), 1.7 * inside)):
                a[(dd == dsel) & (yrs == ysel)] = val  # one value in July, two in August (of which one possibly in another year), none in June
        if ties:  # repeated values inside every window (measurements rounded to one decimal / two significant digits)
            a = np.round(a, 1) if base in ("tas", "hurs", "rsds") else np.where(a > 0, np.float64(1e-5) * np.round(a / 1e-5), a)
        if var.endswith("_nan"):
            a.ravel()[nprs.randint(0, a.size, 5)] = np.nan
        if conv:
            a = np.round(a).astype(np.int64)
        else:
            a = a.astype(dtype)
        arrs.append(a)
    return arrs, [dO, dH, dF]


def reassignment(deb, rng):
    """a valid re-assignment of window settings [(attribute, value)] (validators and step <= length respected)"""
    opts = []
    if getattr(deb, "running_window_mode_over_years_of_cm_future", False):
        L = deb.running_window_over_years_of_cm_future_length
        S = deb.running_window_over_years_of_cm_future_step_length
        opts.append([("running_window_over_years_of_cm_future_length", 1 if L != 1 else 3), ("running_window_over_years_of_cm_future_step_length", 1)])
        opts.append([("running_window_over_years_of_cm_future_length", max(L, 3)), ("running_window_over_years_of_cm_future_step_length", 3 if S != 3 else 1)])
        opts.append([("running_window_mode_over_years_of_cm_future", False)])
    elif hasattr(deb, "running_window_mode_over_years_of_cm_future"):
        opts.append([("running_window_mode_over_years_of_cm_future", True), ("running_window_over_years_of_cm_future_length", 1),
                     ("running_window_over_years_of_cm_future_step_length", 1)])
    if getattr(deb, "running_window_mode", False) and hasattr(deb, "running_window_length"):
        L, S = deb.running_window_length, deb.running_window_step_length
        opts.append([("running_window_length", L + 30)])
        opts.append([("running_window_length", max(L, 91)), ("running_window_step_length", 91 if S != 91 else 31)])
    elif hasattr(deb, "running_window_length") and type(deb).__name__ not in ("ISIMIP",):
        opts.append([("running_window_mode", True), ("running_window_length", 91), ("running_window_step_length", 91)])
    if not opts:
        return []
    # the year-window options first in line: they are the ones whose helper object is built from two settings
    return opts[0] if (getattr(deb, "running_window_mode_over_years_of_cm_future", False) and rng.random() < 0.5) else rng.choice(opts)


def clone_from_settings(deb):
    """a fresh instance constructed from the CURRENT values of all attrs fields of `deb`"""
    import attrs

    kw = {a.name: getattr(deb, a.name) for a in attrs.fields(type(deb)) if a.init}
    with warnings.catch_warnings():
        warnings.simplefilter("ignore")
        return type(deb)(**kw)


def is_store_error(ex):
    """numpy refuses a write into a read-only array ("assignment destination is read-only", "output array is read-only",
    "sort array is read-only" ...); a compiled routine that merely refuses to *read* a read-only buffer says
    "buffer source array is read-only" — that is not a store"""
    msg = str(ex)
    return isinstance(ex, (ValueError, RuntimeError)) and "read-only" in msg and "buffer source" not in msg


def protocol(name, var, factory, randomised, entry, layout, dtype, times, tier, rng, res, problems, mismatches, trace_jobs, ties=False):
    """full purity / reuse protocol for one (configuration, entry, layout).  returns nothing; appends findings"""
    nprs = np.random.RandomState(rng.randint(0, 2**31 - 1))
    times_kind = "datetime64" if times == "datetime64" else "date"
    conv = (times == "conv")
    masked = (times == "masked") and entry == "apply"
    arrs, dts = make_series(var, nprs, tier, entry, dtype, times_kind, conv=conv, ties=ties)
    arrs2, _ = make_series(var, nprs, tier, entry, dtype, times_kind, conv=conv, ties=ties)
    tarr = [None, None, None] if times == "none" else dts
    masks = None
    if masked:  # float masked arrays with (usually) a few masked cells, built on the caller's ndarrays without copying
        # NaN-tolerant configurations get masked cells (filled with NaN by the input check); the others an all-False mask.
        # numpy: `filled` copies only if something is masked — otherwise it returns the data buffer itself (an alias)
        frac = rng.choice([0.01, 0.03, 0.03, 0.0]) if name.startswith(NAN_OK) else 0.0
        masks = [nprs.random_sample(a.shape) < frac for a in arrs]
        if frac > 0:
            for m in masks:
                m.ravel()[nprs.randint(0, m.size)] = True
    seed = rng.randint(0, 2**31 - 1)
    deb = factory()
    guards = rng_guards(deb)
    deterministic = not guards
    # deterministic configurations are seeded once and then repeated on whatever state the generator is in;
    # randomised ones are re-seeded before every compared call
    reseed = None if deterministic else seed
    case = {"config": name, "entry": entry, "layout": layout, "dtype": str(np.dtype(dtype)) if not conv else "int64", "times": times, "np_seed": seed,
            "verif_seed": C.seed(), "tier": tier, "ties": bool(ties), "rng_guards": guards}
    s0, d0 = vars_snapshot(deb)
    ds0 = deep_state(s0)  # the settings THROUGH containers / helper objects (a key popped from a dict setting is invisible to same_vars)
    del RNG_ADVANCED[:]

    # ---- run 1: read-only inputs, provenance recorded
    inp = Inputs(arrs, tarr, layout, entry, masks=masks)
    inp.readonly(True)
    REC.items, REC.calls, REC.draw_sites = set(), 0, set()
    REC.callers = inp.callers()
    REC.active = True
    ro_note = None
    try:
        out1 = call(deb, inp, entry, seed)
    except Exception as ex:  # noqa: BLE001
        REC.active = False
        if is_store_error(ex):
            problems.append((f"{name}: a store into a caller buffer was attempted ({type(ex).__name__}: {str(ex)[:80]})",
                             {**case, "what": "read-only input written", "signature_kind": "store"}))
            return
        if "read-only" in str(ex):
            # a compiled routine refuses read-only buffers (not a write): fall back to writable inputs + byte comparison
            ro_note = f"{type(ex).__name__}: {str(ex)[:60]}"
            inp.readonly(False)
            REC.items, REC.calls, REC.draw_sites = set(), 0, set()
            REC.active = True
            try:
                out1 = call(deb, inp, entry, seed)
            except Exception as ex2:  # noqa: BLE001
                REC.active = False
                ch = inp.changed()
                if ch:
                    problems.append((f"{name}: caller arrays modified by {entry} (which then raised {type(ex2).__name__}): {ch}", {**case, "what": "input modified", "changed": ch}))
                res.notes.append(f"{name}/{entry}/{layout}/{times}: raises {type(ex2).__name__}: {str(ex2)[:80]} (configuration skipped)")
                return
        else:
            ch = inp.changed()
            if ch:
                problems.append((f"{name}: caller arrays modified by {entry} (which then raised {type(ex).__name__}): {ch}", {**case, "what": "input modified", "changed": ch}))
            res.notes.append(f"{name}/{entry}/{layout}/{times}: raises {type(ex).__name__}: {str(ex)[:80]} (configuration skipped)")
            return
    finally:
        REC.active = False
    items = set(REC.items)
    drawn = set(REC.draw_sites)
    if ro_note:
        res.extra.setdefault("readonly_not_tolerated", []).append(f"{name}: {ro_note}")

    ch = inp.changed()
    if ch:
        problems.append((f"{name}: caller arrays modified by {entry}: {ch}", {**case, "what": "input modified", "changed": ch}))
    for k, v in enumerate(inp.callers()):
        if v is not None and isinstance(out1, np.ndarray) and np.shares_memory(out1, v):
            mismatches.append({"op": "result-shares-memory", "case": case, "impl": f"result shares memory with {CALLER_NAMES[k]}", "model": "result is own (Props.C12.result_is_fresh)"})
    s1, d1 = vars_snapshot(deb)
    why = same_vars(s0, s1)
    if why:
        problems.append((f"{name}: settings changed by {entry}: {why}", {**case, "what": "settings changed", "detail": why}))
    if entry == "apply_location":
        why = same_vars(d0, d1)  # apply_location does not even re-derive
        if why:
            problems.append((f"{name}: instance attributes changed by apply_location: {why}", {**case, "what": "instance state changed", "detail": why}))

    # ---- run 2: the same call again
    inp_b = Inputs(arrs, tarr, layout, entry, masks=masks)
    out2 = call(deb, inp_b, entry, reseed)
    # ---- an unrelated call (other data, other seed, possibly through the other entry point), then the first call again
    entry_c = rng.choice(["apply", "apply_location"])
    if entry_c == entry:
        arrs_c = arrs2
    else:
        arrs_c, _ = make_series(var, nprs, tier, entry_c, dtype, times_kind, conv=False)
    inp_c = Inputs(arrs_c, tarr, rng.choice(LAYOUTS_3D if entry_c == "apply" else LAYOUTS_1D), entry_c)
    try:
        call(deb, inp_c, entry_c, seed + 1)
    except Exception as ex:  # noqa: BLE001
        if is_store_error(ex):
            raise
        res.notes.append(f"{name}: unrelated {entry_c} call raised {type(ex).__name__}")
    inp_d = Inputs(arrs, tarr, "C", entry, masks=masks)
    out3 = call(deb, inp_d, entry, reseed)
    # ---- a settings excursion (apply re-derives): change the window length, call, change it back, call
    out5 = None
    if entry == "apply" and hasattr(deb, "running_window_length") and not conv:
        L0, S0 = deb.running_window_length, deb.running_window_step_length
        try:
            deb.running_window_length = L0 + 30
            call(deb, Inputs(arrs2, tarr, "C", entry), entry, seed + 2)
            deb.running_window_length = L0
            out5 = call(deb, Inputs(arrs, tarr, "C", entry, masks=masks), entry, reseed)
        except Exception as ex:  # noqa: BLE001
            if is_store_error(ex):
                raise
            deb.running_window_length, deb.running_window_step_length = L0, S0
            res.notes.append(f"{name}: settings excursion raised {type(ex).__name__}")
    # ---- a fresh instance
    out4 = call(factory(), Inputs(arrs, tarr, "C", entry, masks=masks), entry, seed if not deterministic else seed + 11)
    # ---- the same through the process pool with one worker (the seed-determinism clause does not exclude parallel=True;
    #      what the pool does to grids is C05): seed, call, re-seed, call again
    if entry == "apply" and (not deterministic or rng.random() < 0.25):
        inp_p = [Inputs(arrs, tarr, "C", entry, masks=masks) for _ in range(2)]
        try:
            outp = [call(deb, ip, entry, seed, parallel=True) for ip in inp_p]
        except Exception as ex:  # noqa: BLE001
            outp = None
            res.extra["parallel_one_worker_failed"] = res.extra.get("parallel_one_worker_failed", 0) + 1
            res.notes.append(f"{name}: apply(parallel=True, nr_processes=1) raised {type(ex).__name__}: {str(ex)[:60]}")
        if outp is not None:
            res.extra["parallel_one_worker_cases"] = res.extra.get("parallel_one_worker_cases", 0) + 1
            if outp[0].tobytes() != outp[1].tobytes():
                nd = int((~((outp[0] == outp[1]) | (np.isnan(outp[0]) & np.isnan(outp[1])))).sum())
                problems.append((f"{name}: apply(parallel=True, nr_processes=1) repeated under the same np.random.seed differs ({nd} values)",
                                 {**case, "what": "not repeatable", "which": "parallel one worker, re-seeded"}))
            elif outp[0].shape != out1.shape or outp[0].tobytes() != out1.tobytes():
                mismatches.append({"op": "parallel-one-worker", "case": case, "impl": "apply(parallel=True, nr_processes=1) differs from the serial call under the same seed",
                                   "model": "Model.Instance.apply: output = run(view, args, draws); a forked worker inherits the generator state"})
            for ip in inp_p:
                ch = ip.changed()
                if ch:
                    problems.append((f"{name}: caller arrays modified by apply(parallel=True): {ch}", {**case, "what": "input modified", "changed": ch}))
    s2, d2 = vars_snapshot(deb)
    if deterministic and any(RNG_ADVANCED):
        problems.append((f"{name}: a configuration without any random step (no guard of Model.Purity.rngSitesJ is on) advanced numpy's global generator "
                         f"in {sum(RNG_ADVANCED)} of {len(RNG_ADVANCED)} calls", {**case, "what": "global generator consumed by a deterministic configuration"}))
    res.extra["deterministic_cases"] = res.extra.get("deterministic_cases", 0) + int(deterministic)
    res.extra["randomised_cases_that_drew"] = res.extra.get("randomised_cases_that_drew", 0) + int((not deterministic) and any(RNG_ADVANCED))
    if out5 is not None and not (out5.shape == out1.shape and out5.tobytes() == out1.tobytes()):
        mismatches.append({"op": "settings-excursion", "case": case, "impl": "output after changing running_window_length and changing it back differs",
                           "model": "Props.C12.output_depends_only_on"})
    for label, o in (("repeated call", out2), ("call after an unrelated call", out3), ("fresh instance", out4)):
        if not (isinstance(o, np.ndarray) and o.shape == out1.shape and o.dtype == out1.dtype and o.tobytes() == out1.tobytes()):
            nd = int((~((o == out1) | (np.isnan(o) & np.isnan(out1)))).sum()) if isinstance(o, np.ndarray) and o.shape == out1.shape else -1
            how = "without re-seeding (the configuration has no random step)" if deterministic else "under the same np.random.seed"
            problems.append((f"{name}: output of the {label} differs from the first call ({nd} values) {how}",
                             {**case, "what": "not repeatable", "which": label}))
    for i2 in (inp_b, inp_c, inp_d):
        ch = i2.changed()
        if ch:
            problems.append((f"{name}: caller arrays modified by {entry} (writable inputs): {ch}", {**case, "what": "input modified", "changed": ch}))
    why = same_vars(s1, s2) or same_vars(d1, d2)
    if why:
        problems.append((f"{name}: instance state drifts between calls: {why}", {**case, "what": "instance state changed", "detail": why}))
    why = deep_diff(ds0, deep_state(s2))
    if why:
        mismatches.append({"op": "deep-settings", "case": case, "impl": f"the calls changed a setting below the attribute level: {why}",
                           "model": "Props.C12.apply_settings_fixed: a call leaves the settings"})

    # ---- buffer reuse: the caller overwrites the CONTENTS of the very same array objects (data and time) and calls again;
    #      the result must be the one a fresh instance gives on these values (nothing may be remembered per array object)
    if not conv and not masked and (tarr[0] is not None) and rng.random() < (0.6 if getattr(deb, "running_window_mode", False) else 0.25):
        try:
            shift = rng.choice([45, 100, 200])
            dts2 = [np.array([d_ + (np.timedelta64(shift, "D") if isinstance(d_, np.datetime64) else datetime.timedelta(days=shift)) for d_ in t_], dtype=t_.dtype)
                    for t_ in dts]
            inp_r = Inputs(arrs, tarr, "C" if rng.random() < 0.5 else layout, entry)
            call(deb, inp_r, entry, seed)
            for v_, new_ in zip(inp_r.views, arrs2):
                v_[...] = new_
            for v_, new_ in zip(inp_r.tviews, dts2):
                v_[...] = new_
            out_r = call(deb, inp_r, entry, seed)
            out_rf = call(factory(), Inputs(arrs2, dts2, "C", entry), entry, seed)
        except Exception as ex:  # noqa: BLE001
            if is_store_error(ex):
                raise
            out_r = None
            res.notes.append(f"{name}: buffer-reuse sequence raised {type(ex).__name__}: {str(ex)[:60]}")
        if out_r is not None:
            res.extra["buffer_reuse_cases"] = res.extra.get("buffer_reuse_cases", 0) + 1
            if out_r.shape != out_rf.shape or out_r.tobytes() != out_rf.tobytes():
                nd = int((~((out_r == out_rf) | (np.isnan(out_r) & np.isnan(out_rf)))).sum()) if out_r.shape == out_rf.shape else -1
                problems.append((f"{name}: second call with the same array objects holding new contents (data replaced, dates shifted by {shift} days) differs from a "
                                 f"fresh instance on the same values ({nd} values)", {**case, "what": "remembers earlier arguments", "shift_days": shift}))

    copied = conv or (masked and all(m.any() for m in masks))  # astype copies; filled copies iff a cell is masked
    ent = ("apply:%d:%d" % (int(copied), int(times != "none"))) if entry == "apply" else ("loc:%d" % int(times != "none"))
    model_tokens = model_cfg_tokens(deb, ent)  # the configuration the recorded run 1 was made under

    # ---- settings re-assignment: "the result depends only on the settings": assign other window settings to the USED instance,
    #      build a FRESH instance with the very same current field values, same seed -> same output (apply re-derives)
    if entry == "apply" and not conv:
        changes = reassignment(deb, rng)
        if changes:
            try:
                for a_, v_ in changes:
                    setattr(deb, a_, v_)
                fresh = clone_from_settings(deb)
                out_u = call(deb, Inputs(arrs, tarr, "C", entry, masks=masks), entry, seed)
                out_f = call(fresh, Inputs(arrs, tarr, "C", entry, masks=masks), entry, seed)
            except Exception as ex:  # noqa: BLE001
                if is_store_error(ex):
                    raise
                out_u = out_f = None
                res.notes.append(f"{name}: settings re-assignment {changes} raised {type(ex).__name__}: {str(ex)[:60]}")
            if out_u is not None:
                res.extra["reassignment_cases"] = res.extra.get("reassignment_cases", 0) + 1
                if out_u.shape != out_f.shape or out_u.tobytes() != out_f.tobytes():
                    nd = int((~((out_u == out_f) | (np.isnan(out_u) & np.isnan(out_f)))).sum()) if out_u.shape == out_f.shape else -1
                    problems.append((f"{name}: after assigning {changes} the used instance and a fresh instance with identical settings give different output "
                                     f"({nd} values) under the same np.random.seed", {**case, "what": "depends on the instance's history", "assigned": [list(c_) for c_ in changes]}))

    trace_jobs.append((case, model_tokens, items, drawn, guards))
    nz = int(np.isnan(out1).sum()) if np.issubdtype(out1.dtype, np.floating) else 0
    res.count((name, entry, layout, case["dtype"], times, bool(ties)), True,
              sample={**case, "n_out": int(out1.size), "nan_out": nz, "probe_calls": REC.calls, "readonly": ro_note is None})


# ------------------------------------------------------------------ instance model correspondence
KINDS = ["LinearScaling", "DeltaChange", "QuantileMapping", "ScaledDistributionMapping", "CDFt", "ECDFM", "QuantileDeltaMapping", "ISIMIP"]


def build_instance(kind, st):
    import scipy.stats

    import ibicus.debias as D

    cls = getattr(D, kind)
    kw = dict(running_window_mode=st["rwm"], running_window_length=st["rwl"], running_window_step_length=st["rws"])
    if kind in ("CDFt", "QuantileDeltaMapping"):
        kw.update(running_window_mode_over_years_of_cm_future=st["yrm"], running_window_over_years_of_cm_future_length=st["yrl"],
                  running_window_over_years_of_cm_future_step_length=st["yrs"])
    if kind == "QuantileDeltaMapping":
        kw["cdf_threshold"] = None if st["cdf"] is None else float(st["cdf"])
        return cls(distribution=scipy.stats.norm, trend_preservation="absolute", **kw)
    if kind in ("LinearScaling", "DeltaChange"):
        return cls(delta_type="additive", **kw)
    if kind == "QuantileMapping":
        return cls(distribution=scipy.stats.norm, mapping_type="parametric", **kw)
    if kind == "ECDFM":
        return cls(distribution=scipy.stats.norm, **kw)
    if kind == "ScaledDistributionMapping":
        return cls(distribution=scipy.stats.norm, mapping_type="absolute", **kw)
    if kind == "CDFt":
        return cls(**kw)
    if kind == "ISIMIP":
        return cls(distribution=None if st["dn"] else scipy.stats.norm, nonparametric_qm=st["np"], trend_preservation_method="additive",
                   detrending=False, **kw)
    raise ValueError(kind)


def observe(inst, kind):
    rw = getattr(inst, "running_window", None)
    yr = getattr(inst, "running_window_over_years_of_cm_future", None)
    rws = "none" if rw is None else f"{rw.window_length_in_days}:{rw.window_step_length_in_days}"
    yrs = "none" if yr is None else f"{yr.window_length_in_years}:{yr.window_step_length_in_years}"
    cdf = getattr(inst, "cdf_threshold", None) if kind == "QuantileDeltaMapping" else None
    return rws, yrs, cdf


_VIEW_DATA = {}


def observe_used_windows(inst):
    """run the real apply_location on a small series and report which window objects it used: 'L:S|none,L:S|none'
    (None = the call could not be made for a reason unrelated to the windows)"""
    from ibicus.utils import RunningWindowOverDaysOfYear, RunningWindowOverYears

    if not _VIEW_DATA:
        nprs = np.random.RandomState(3)
        t = dates_from(datetime.date(1990, 1, 1), 400)
        _VIEW_DATA["d"] = (283 + nprs.standard_normal(400), 284 + nprs.standard_normal(400), 286 + nprs.standard_normal(400), t)
    o, h, f, t = _VIEW_DATA["d"]
    used = {"rw": "none", "yr": "none"}
    o_rw, o_yr = RunningWindowOverDaysOfYear.use, RunningWindowOverYears.use

    def use_rw(self, *a, **k):
        used["rw"] = f"{self.window_length_in_days}:{self.window_step_length_in_days}"
        return o_rw(self, *a, **k)

    def use_yr(self, *a, **k):
        used["yr"] = f"{self.window_length_in_years}:{self.window_step_length_in_years}"
        return o_yr(self, *a, **k)

    RunningWindowOverDaysOfYear.use, RunningWindowOverYears.use = use_rw, use_yr
    try:
        inst.apply_location(o, h, f, t, t, t)
    except AttributeError:
        return "AttributeError"  # a mode flag was switched on by assignment and nothing has built the window object yet
    except Exception:  # noqa: BLE001
        return None
    finally:
        RunningWindowOverDaysOfYear.use, RunningWindowOverYears.use = o_rw, o_yr
    return f"{used['rw']},{used['yr']}"


def gen_settings(rng, kind):
    L = rng.choice([1, 2, 5, 30, 31, 61, 91, rng.randint(1, 120)])
    S = rng.choice([1, 1, 2, L, max(1, L - 1), L + rng.choice([0, 0, 1, 2]), rng.randint(1, 120)])
    if kind in ("CDFt", "QuantileDeltaMapping"):
        lo = -1 if kind == "CDFt" else 1
        yl = rng.choice([1, 2, 3, 17, 31, rng.randint(lo, 40)])
        ys = rng.choice([1, 1, 2, yl, rng.randint(lo, 20)])
        yrm = rng.random() < 0.7
    else:
        yl, ys, yrm = 1, 1, False
    cdf = None
    if kind == "QuantileDeltaMapping" and rng.random() < 0.4:
        cdf = Fraction(rng.randint(1, 63), 2 ** rng.randint(6, 16))
    return dict(rwm=rng.random() < 0.6, rwl=L, rws=S, yrm=yrm, yrl=yl, yrs=ys, cdf=cdf,
                dn=(kind == "ISIMIP" and rng.random() < 0.3), np=(kind == "ISIMIP" and rng.random() < 0.5))


def derive_line(kind, st, rw0, yr0):
    return (f"derive {kind} {int(st['rwm'])} {st['rwl']} {st['rws']} {int(st['yrm'])} {st['yrl']} {st['yrs']} "
            f"{'none' if st['cdf'] is None else C.rat(st['cdf'])} {int(st['dn'])} {int(st['np'])} {rw0} {yr0}")


def instance_cases(rng, n, res, mismatches):
    """real construction / attribute assignment + __attrs_post_init__ against the model's derive"""
    lines, expect = [], []
    for k in range(n):
        kind = KINDS[k % len(KINDS)]
        st = gen_settings(rng, kind)
        case = {"kind": kind, **{a: (str(b) if isinstance(b, Fraction) else b) for a, b in st.items()}}
        with warnings.catch_warnings():
            warnings.simplefilter("ignore")
            try:
                inst = build_instance(kind, st)
                err = "ok"
            except Exception as ex:  # noqa: BLE001
                inst, err = None, "error:" + type(ex).__name__
        lines.append(derive_line(kind, st, "none", "none"))
        if inst is None:
            expect.append(("construct", case, (err, None, None, None)))
            res.count(("inst", kind, "error"), True)
            continue
        rws, yrs, cdf = observe(inst, kind)
        expect.append(("construct", case, (err, rws, yrs, cdf)))
        res.count(("inst", kind, st["rwm"], st["yrm"], st["cdf"] is None), True, sample=case if k < 2 else None)
        # ---- mutate settings by attribute assignment, then what apply does first: __attrs_post_init__()
        st2 = dict(st)
        for field in rng.sample(["rwm", "rwl", "rws", "yrm", "yrl"], rng.randint(1, 3)):
            new = gen_settings(rng, kind)[field]
            st2[field] = new
        attr = {"rwm": "running_window_mode", "rwl": "running_window_length", "rws": "running_window_step_length",
                "yrm": "running_window_mode_over_years_of_cm_future", "yrl": "running_window_over_years_of_cm_future_length"}
        applicable = kind in ("CDFt", "QuantileDeltaMapping")
        ok = True
        with warnings.catch_warnings():
            warnings.simplefilter("ignore")
            try:
                for f_, a_ in attr.items():
                    if st2[f_] != st[f_] and (applicable or f_ in ("rwm", "rwl", "rws")):
                        setattr(inst, a_, st2[f_])
                    else:
                        st2[f_] = st[f_]
            except Exception:  # noqa: BLE001  a validator refused the assignment
                ok = False
            if not ok:
                continue
            st2["cdf"] = None if cdf is None else Fraction(cdf)  # the threshold the instance carries now
            if kind in ("LinearScaling", "DeltaChange", "CDFt") and k % 2 == 0:
                # what a direct apply_location reads now (no re-derivation): the window objects whose `use` is called
                seen = observe_used_windows(inst)
                lines.append(f"view {kind} {int(st2['rwm'])} {int(st2['yrm'])} {rws} {yrs}")
                expect.append(("view", {**case, "rwm_now": st2["rwm"], "yrm_now": st2["yrm"]}, seen))
            try:
                inst.__attrs_post_init__()
                err2 = "ok"
            except Exception as ex:  # noqa: BLE001
                err2 = "error:" + type(ex).__name__
        rws2, yrs2, cdf2 = observe(inst, kind)
        lines.append(derive_line(kind, st2, rws, yrs))
        expect.append(("rederive", {**case, "then": {a: (str(b) if isinstance(b, Fraction) else b) for a, b in st2.items()}}, (err2, rws2, yrs2, cdf2)))
    out = C.run_driver("DrvPurity", lines)
    for (what, case, exp), got in zip(expect, out):
        res.cov["traces_validated_against_impl"] += 1
        if what == "view":
            if exp == "AttributeError":
                # the model must show the same: a mode flag is on and the attribute it needs is absent
                rwv, yrv = got[len("view="):].split(",")
                if not ((case["rwm_now"] and rwv == "none") or (case["yrm_now"] and yrv == "none")):
                    mismatches.append({"op": "instance-view", "case": case, "impl": "apply_location raised AttributeError (a window object is missing)", "model": got})
            elif exp is not None and got != "view=" + exp:
                mismatches.append({"op": "instance-view", "case": case, "impl": f"apply_location used the windows {exp}", "model": got})
            continue
        (err, rws, yrs, cdf) = exp
        toks = dict(t.split("=", 1) for t in got.split(" ")[1:] if "=" in t)
        gerr = got.split(" ")[0]
        bad = None
        if gerr.split(":")[0] != err.split(":")[0] or (err != "ok" and gerr != err):
            bad = f"status impl={err} model={gerr}"
        elif err == "ok" or what == "rederive":
            if rws is not None and toks.get("rw") != rws:
                bad = f"running_window impl={rws} model={toks.get('rw')}"
            elif yrs is not None and toks.get("yr") != yrs:
                bad = f"year window impl={yrs} model={toks.get('yr')}"
            elif case["kind"] == "QuantileDeltaMapping" and err == "ok":
                m = toks.get("cdf")
                mv = None if m == "none" else float(Fraction(m))
                if (cdf is None) != (mv is None) or (cdf is not None and abs(cdf - mv) > 1e-15 * (1 + abs(mv))):
                    bad = f"cdf_threshold impl={cdf} model={m}"
        if bad:
            mismatches.append({"op": "instance-" + what, "case": case, "impl": bad, "model": got[:200]})


def digest_job(name, entry, tier):
    """output digest of one seeded call; everything derives from the configuration name (no hash(), no global state)"""
    import hashlib
    import zlib

    var, factory, _ = configurations()[name]
    sd = zlib.crc32(f"{name}/{entry}".encode())
    nprs = np.random.RandomState(sd)
    arrs, dts = make_series(var, nprs, tier, entry, np.float64, "date")
    inp = Inputs(arrs, dts, "C", entry)
    try:
        out = call(factory(), inp, entry, sd % (2**31))
        return hashlib.sha256(np.ascontiguousarray(out).tobytes()).hexdigest()[:24]
    except Exception as ex:  # noqa: BLE001
        return f"raised {type(ex).__name__}"


def child_main():
    """entry of the child interpreters of cross_process_cases: prints {job: digest}"""
    import json

    jobs = json.loads(sys.stdin.read())
    out = {}
    for name, entry, tier in jobs:
        out[f"{name}/{entry}"] = digest_job(name, entry, tier)
    sys.stdout.write("\nDIGESTS " + json.dumps(out) + "\n")


def cross_process_cases(rng, tier, res, problems, mismatches, boost):
    """the result may depend on settings, arguments and numpy's generator state — not on the interpreter process: the same
    seeded calls in two child interpreters with different PYTHONHASHSEED (string-hash randomisation, i.e. set/dict-of-set
    iteration order) and in this process must give identical output digests"""
    import json
    import os
    import subprocess

    cfgs = configurations()
    names = [n for n in cfgs if rng_guards(cfgs[n][1]())]
    det = [n for n in cfgs if n not in names]
    names += det if (tier != "quick" or boost) else rng.sample(det, 4)
    jobs = [[n, "apply_location", tier] for n in names] + [[n, "apply", tier] for n in names if tier != "quick" or rng.random() < 0.25]
    procs = []
    for hs in ("1", "2", "31337"):
        env = dict(os.environ, PYTHONHASHSEED=hs)
        p = subprocess.Popen([sys.executable, "-c", "from harness import c12; c12.child_main()"], cwd=C.VERIF, env=env, stdin=subprocess.PIPE,
                             stdout=subprocess.PIPE, stderr=subprocess.PIPE, text=True)
        p.stdin.write(json.dumps(jobs))
        p.stdin.close()
        procs.append((hs, p))
    here = {f"{n}/{e}": digest_job(n, e, t) for n, e, t in jobs}
    results = {"this process": here}
    for hs, p in procs:
        out = p.stdout.read()
        err = p.stderr.read()
        p.wait()
        line = [ln for ln in out.split("\n") if ln.startswith("DIGESTS ")]
        if not line:
            mismatches.append({"op": "cross-process", "case": {"PYTHONHASHSEED": hs}, "impl": "child interpreter produced no digests: " + err[-300:], "model": ""})
            continue
        results[f"PYTHONHASHSEED={hs}"] = json.loads(line[0][len("DIGESTS "):])
    n_cmp = 0
    for key in here:
        vals = {w: r.get(key) for w, r in results.items()}
        n_cmp += 1
        if len(set(vals.values())) > 1:
            name, entry = key.split("/")
            problems.append((f"{name}: the same seeded {entry} call gives different output in different interpreter processes (only PYTHONHASHSEED differs): {vals}",
                             {"config": name, "entry": entry, "what": "depends on the interpreter process", "digests": vals, "tier": tier,
                              "how": "np.random.seed(crc32(name/entry)); data from RandomState(crc32(name/entry)); see harness.c12.digest_job"}))
    res.extra["cross_process_digests_compared"] = n_cmp
    res.extra["cross_process_interpreters"] = len(results)
    for _ in range(n_cmp):
        res.cov["traces_validated_against_impl"] += 0
    res.count(("cross-process", len(jobs)), True)


def qdm_sticky_probe(res):
    """what the code does when running_window_length is assigned after construction (recorded, not a C12 violation)"""
    import scipy.stats

    from ibicus.debias import QuantileDeltaMapping

    with warnings.catch_warnings():
        warnings.simplefilter("ignore")
        kw = dict(distribution=scipy.stats.norm, trend_preservation="absolute", running_window_length=31, running_window_step_length=31)
        used = QuantileDeltaMapping(**kw)
        used.running_window_length = 91
        used.__attrs_post_init__()
        fresh = QuantileDeltaMapping(**{**kw, "running_window_length": 91})
    res.extra["qdm_cdf_threshold_after_assignment"] = {
        "used_instance": used.cdf_threshold, "fresh_instance": fresh.cdf_threshold,
        "model": "Props.C12.qdm_cdf_threshold_sticky: 1/962 vs 1/2822",
        "agrees_with_model": abs(used.cdf_threshold - 1 / 962) < 1e-18 and abs(fresh.cdf_threshold - 1 / 2822) < 1e-18,
        "note": "history dependence under attribute assignment (C15 territory); with unchanged settings repeated calls are identical",
    }
    return res.extra["qdm_cdf_threshold_after_assignment"]["agrees_with_model"]


# ------------------------------------------------------------------ window-settings sweep on series that span several windows
# Quantifiers of C12 covered here (the protocol above fixes one odd (length, step) per configuration and two-year series):
#   * "all debiasers and SETTINGS": window lengths / step lengths drawn over even and odd values, step = length, step = 1,
#     whole-year windows — in particular values that the window helpers normalise at construction (even -> +1), for the
#     window over days of the year (every RunningWindowDebiaser, ISIMIP) and the window over years of cm_future (CDFt, QDM);
#   * "for all INPUTS": cm_future series of 3..30 years (starting on any month) so that the year window takes several steps
#     and the first / last window is a partial one; date and datetime64 time arrays; contiguous and strided views; f32/f64;
#   * "all SEQUENCES of earlier apply calls on the same instance": first call, immediate repeat, repeats after unrelated
#     apply_location / apply calls on series of another span, the same through apply on a grid, a fresh instance.
# Oracle = the statement itself: every repeat is bit-identical to the first call (after re-seeding iff a random step is on),
# the caller's arrays keep their bytes (read-only on the first call), nothing raises on a repeat that did not raise first.
SWEEP_FAMILIES = {
    # name: (class, variable, year window available, weight)
    "cdft_tas": ("CDFt", "tas", True, 4), "cdft_pr_ssr": ("CDFt", "pr", True, 3),
    "qdm_tas": ("QuantileDeltaMapping", "tas", True, 4), "qdm_pr_censored": ("QuantileDeltaMapping", "pr", True, 1),
    "ls_tas": ("LinearScaling", "tas", False, 1), "dc_pr": ("DeltaChange", "pr", False, 1),
    "qm_tas": ("QuantileMapping", "tas", False, 1), "ecdfm_tas": ("ECDFM", "tas", False, 1),
    "sdm_pr": ("ScaledDistributionMapping", "pr", False, 1), "isimip_tas": ("ISIMIP", "tas", False, 1),
    "isimip_hurs": ("ISIMIP", "hurs", False, 1),
}


def sweep_factory(spec):
    """the debiaser of a sweep case, built from the JSON-able settings of the spec"""
    import scipy.stats

    import ibicus.debias as D

    cls_name, var, _, _ = SWEEP_FAMILIES[spec["family"]]
    kw = dict(spec["settings"])
    if cls_name == "ECDFM":
        kw["distribution"] = scipy.stats.norm
    with warnings.catch_warnings():
        warnings.simplefilter("ignore")
        return getattr(D, cls_name).from_variable(var, **kw)


def _normalised(v):
    return v + 1 if v % 2 == 0 else v


SWEEP_MAX_WINDOWS = {"qdm_pr_censored": 10, "isimip_tas": 20, "isimip_hurs": 20}  # (day windows x year steps) per call: wall-time budget


def sweep_spec(rng, family, tier):
    """one case: settings + the shape of the series + the call sequence (everything JSON-able; data from data_seed)"""
    cls_name, var, has_years, _ = SWEEP_FAMILIES[family]
    big = 30 if tier != "quick" else 24
    while True:
        st = {}
        # ---- window over days of the year
        rwm = rng.random() < (0.5 if has_years else 0.85)
        if cls_name == "ISIMIP" and not rwm and rng.random() < 0.5:
            rwm = True
        st["running_window_mode"] = rwm
        S = 366
        if rwm:
            while True:
                L = rng.choice([10, 30, 31, 60, 61, 90, 91, 120, 182, 365, 366, rng.randint(7, 200)])
                S = rng.choice([L, L, max(1, L // 2), 10, 30, 31, 46, rng.randint(7, 120)])
                if cls_name == "ISIMIP" and L < 15:
                    continue  # too few values per window for the parametric fits: not the subject here
                if S <= L and _normalised(S) <= _normalised(L):  # the debiaser compares the raw values, the helper the normalised ones
                    break
            st["running_window_length"], st["running_window_step_length"] = L, S
        # ---- window over the years of cm_future
        ys = yrm = 1
        if has_years:
            yrm = rng.random() < 0.85
            st["running_window_mode_over_years_of_cm_future"] = yrm
            if yrm:
                while True:
                    yl = rng.choice([1, 2, 3, 4, 5, 6, 8, 9, 10, 17, 18, rng.randint(1, 20)])
                    ys = rng.choice([1, 2, 2, 4, 4, 6, 10, yl, max(1, yl // 2), rng.randint(1, 12)])
                    if ys <= yl and _normalised(ys) <= _normalised(yl):
                        break
                st["running_window_over_years_of_cm_future_length"], st["running_window_over_years_of_cm_future_step_length"] = yl, ys
        # ---- the series: cm_future spans several steps of the year window (or 2..4 years when there is none)
        if has_years and yrm:
            ny = rng.randint(min(big, ys + 2), min(big, 3 * ys + 4))
        else:
            ny = rng.randint(2, 4)
        windows = (366 // _normalised(S) + 1 if rwm else 1) * (ny // _normalised(ys) + 1 if (has_years and yrm) else 1)
        if windows <= SWEEP_MAX_WINDOWS.get(family, 60):
            break
    m0 = rng.choice([1, 1, 1, 4, 7, 10])
    spec = {
        "family": family, "settings": st, "hist_days": rng.choice([730, 731, 1095]),
        "fut_start": [rng.randint(2000, 2080), m0, 1], "fut_days": 365 * ny + rng.choice([0, 1, 17, 200]),
        "alt_fut_start": [rng.randint(2000, 2080), rng.choice([1, 6]), 1], "alt_fut_days": 365 * rng.randint(2, max(3, ny // 2)) + rng.choice([0, 45]),
        "times_kind": rng.choice(["date", "date", "datetime64"]), "layout": rng.choice(LAYOUTS_1D),
        "dtype": rng.choice(["float64", "float64", "float32"]), "data_seed": rng.randint(0, 2**31 - 1), "np_seed": rng.randint(0, 2**31 - 2),
        "sequence": ["repeat"] + [rng.choice(["other_loc", "other_apply", "same_apply", "repeat"]) for _ in range(rng.randint(1, 3))],
        "verif_seed": C.seed(), "tier": tier,
    }
    return spec


def sweep_series(spec):
    """(arrays, dates) of the case and of the unrelated calls — a pure function of the spec"""
    _, var, _, _ = SWEEP_FAMILIES[spec["family"]]
    nprs = np.random.RandomState(spec["data_seed"])
    kind, dt = spec["times_kind"], np.dtype(spec["dtype"])
    dO = dates_from(datetime.date(1990, 1, 1), spec["hist_days"], kind)
    dH = dates_from(datetime.date(1990, 1, 1), spec["hist_days"] + 1, kind)
    out = []
    for start, days in ((spec["fut_start"], spec["fut_days"]), (spec["alt_fut_start"], spec["alt_fut_days"])):
        dF = dates_from(datetime.date(*start), days, kind)
        arrs = [gen_data(var, nprs, d_, sh).astype(dt) for d_, sh in ((dO, 0.0), (dH, 1.0), (dF, 3.0))]
        # a slow drift over the years of cm_future: which years form a window is visible in the output
        arrs[2] = (arrs[2] * (1 + np.linspace(0.0, 0.02 if var == "tas" else 0.5, days))).astype(dt)
        out.append((arrs, [dO, dH, dF]))
    return out


def helper_state(deb):
    """the fields of the attrs helper objects an instance carries (window objects): vars() snapshots hold the objects
    themselves, so a change INSIDE a helper is only visible here"""
    import attrs

    st = {}
    for k, v in vars(deb).items():
        if attrs.has(type(v)):
            st[k] = {a.name: repr(getattr(v, a.name, None)) for a in attrs.fields(type(v))}
    return st


def _same_out(a, b):
    return isinstance(a, np.ndarray) and isinstance(b, np.ndarray) and a.shape == b.shape and a.dtype == b.dtype and a.tobytes() == b.tobytes()


def _ndiff(a, b):
    if not (isinstance(a, np.ndarray) and isinstance(b, np.ndarray) and a.shape == b.shape):
        return -1
    return int((~((a == b) | (np.isnan(a) & np.isnan(b)))).sum())


def _grid(arrs, other):
    """(t, 1, 2) grids: both locations of obs / cm_hist / cm_future carry the SAME series"""
    _ = other
    return [np.stack([a, a], axis=1).reshape(a.size, 1, 2) for a in arrs]


def run_sweep_case(spec, res, problems, mismatches):
    """execute the call sequence of one sweep case on the real code; findings carry the whole spec (= the replay input)"""
    name = "sweep/" + spec["family"]
    (arrs, dts), (arrs_alt, dts_alt) = sweep_series(spec)
    seed = spec["np_seed"]
    case = {"kind": "window-sweep", "config": name, "spec": spec, "entry": "apply_location",
            "n": [int(a.size) for a in arrs], "years_cm_future": [int(str(dts[2][0])[:4]), int(str(dts[2][-1])[:4])]}
    try:
        deb = sweep_factory(spec)
    except Exception as ex:  # noqa: BLE001
        res.notes.append(f"{name}: construction with {spec['settings']} raised {type(ex).__name__} (case skipped)")
        return False
    guards = rng_guards(deb)
    deterministic = not guards
    reseed = None if deterministic else seed
    case["rng_guards"] = guards
    how = "without re-seeding (the configuration has no random step)" if deterministic else "under the same np.random.seed"
    trail = ["apply_location(series) [first call, read-only inputs]"]

    def bad(what, desc, **kw):
        problems.append((f"{name} {spec['settings']}: {desc}", {**case, "what": what, "call_sequence": list(trail), **kw}))

    s0, d0 = vars_snapshot(deb)
    h0 = helper_state(deb)
    inp = Inputs(arrs, dts, spec["layout"], "apply_location")
    inp.readonly(True)
    try:
        try:
            out1 = call(deb, inp, "apply_location", seed)
        except Exception as ex:  # noqa: BLE001
            if is_store_error(ex):
                bad("read-only input written", f"a store into a caller buffer was attempted ({type(ex).__name__}: {str(ex)[:80]})")
                return True
            if "read-only" not in str(ex):
                ch = inp.changed()
                if ch:
                    bad("input modified", f"caller arrays modified by apply_location (which then raised {type(ex).__name__}): {ch}", changed=ch)
                res.notes.append(f"{name}: {spec['settings']} raises {type(ex).__name__}: {str(ex)[:80]} (configuration skipped)")
                return False
            inp.readonly(False)  # a compiled routine refuses to read a read-only buffer: writable inputs + byte comparison
            deb = sweep_factory(spec)
            out1 = call(deb, inp, "apply_location", seed)
        ch = inp.changed()
        if ch:
            bad("input modified", f"caller arrays modified by apply_location: {ch}", changed=ch)
        s1, d1 = vars_snapshot(deb)
        why = same_vars(s0, s1) or same_vars(d0, d1)
        if why:
            bad("instance state changed", f"instance attributes changed by apply_location: {why}", detail=why)
        h1 = helper_state(deb)
        if h1 != h0:
            diff = {k: (h0.get(k), h1.get(k)) for k in set(h0) | set(h1) if h0.get(k) != h1.get(k)}
            mismatches.append({"op": "helper-state", "case": {"family": spec["family"], "settings": spec["settings"]},
                               "impl": f"apply_location changed fields of a helper object: {diff}",
                               "model": "Model.Instance.applyLocation leaves every derived attribute (Props.C12.applyLocation_state)"})

        def again(label):
            i2 = Inputs(arrs, dts, "C", "apply_location")
            trail.append(f"apply_location(series) [{label}]")
            try:
                o = call(deb, i2, "apply_location", reseed)
            except Exception as ex:  # noqa: BLE001
                if is_store_error(ex):
                    raise
                bad("not repeatable", f"the {label} raised {type(ex).__name__}: {str(ex)[:80]} although the first call returned", which=label)
                return
            if not _same_out(o, out1):
                bad("not repeatable", f"output of the {label} differs from the first call ({_ndiff(o, out1)} of {out1.size} values) {how}", which=label)
            ch2 = i2.changed()
            if ch2:
                bad("input modified", f"caller arrays modified by apply_location (writable inputs, {label}): {ch2}", changed=ch2)

        n_same_apply = 0
        for k, op in enumerate(spec["sequence"]):
            if op == "repeat":
                again("repeated call" if k == 0 else f"repeated call (step {k + 1} of the sequence)")
                continue
            try:
                if op == "other_loc":
                    trail.append("apply_location(another series of another span) [unrelated call]")
                    call(deb, Inputs(arrs_alt, dts_alt, "C", "apply_location"), "apply_location", seed + 1 + k)
                elif op == "other_apply":
                    trail.append("apply(grid 1x2 of another series of another span) [unrelated call]")
                    call(deb, Inputs(_grid(arrs_alt, None), dts_alt, "C", "apply"), "apply", seed + 1 + k)
                elif op == "same_apply":
                    # the same series at both locations of a grid, through apply on the used instance and on a fresh one
                    trail.append("apply(grid 1x2, the series at both locations) [used instance, then again, then a fresh instance]")
                    g = [call(d_, Inputs(_grid(arrs, None), dts, "C", "apply"), "apply", seed) for d_ in (deb, deb, sweep_factory(spec))]
                    n_same_apply += 1
                    if not _same_out(g[0], g[1]):
                        bad("not repeatable", f"apply on a grid repeated on the same instance differs ({_ndiff(g[0], g[1])} values) under the same np.random.seed", which="apply repeated")
                    if not _same_out(g[0], g[2]):
                        bad("depends on the instance's history", f"apply on a grid: the used instance and a fresh instance differ ({_ndiff(g[0], g[2])} values) under the same np.random.seed",
                            which="apply used vs fresh")
                    if deterministic and not _same_out(np.ascontiguousarray(g[2][:, 0, 0]), np.ascontiguousarray(g[2][:, 0, 1])):
                        bad("not repeatable", f"apply on a grid whose two locations carry the same series gives different results at the two locations "
                            f"({_ndiff(g[2][:, 0, 0], g[2][:, 0, 1])} values); the configuration has no random step", which="same arguments at two locations")
            except Exception as ex:  # noqa: BLE001
                if is_store_error(ex):
                    raise
                res.notes.append(f"{name}: {op} raised {type(ex).__name__}: {str(ex)[:60]}")
                continue
            again(f"call after {op} (step {k + 1} of the sequence)")
        # ---- a fresh instance with the same settings
        trail.append("apply_location(series) [fresh instance]")
        try:
            o4 = call(sweep_factory(spec), Inputs(arrs, dts, "C", "apply_location"), "apply_location", seed if not deterministic else seed + 11)
            if not _same_out(o4, out1):
                bad("not repeatable", f"output of a fresh instance differs from the first call of the used instance ({_ndiff(o4, out1)} of {out1.size} values) {how}", which="fresh instance")
        except Exception as ex:  # noqa: BLE001
            if is_store_error(ex):
                raise
            bad("not repeatable", f"a fresh instance raised {type(ex).__name__}: {str(ex)[:80]} on the arguments the used instance accepted", which="fresh instance")
        s2, d2 = vars_snapshot(deb)
        why = same_vars(s1, s2)
        if why:
            bad("settings changed", f"settings drift over the call sequence: {why}", detail=why)
    except Exception as ex:  # noqa: BLE001
        if is_store_error(ex):
            bad("read-only input written", f"a store into a caller buffer was attempted ({type(ex).__name__}: {str(ex)[:80]})")
            return True
        raise
    st = spec["settings"]
    res.count(("sweep", spec["family"], st.get("running_window_mode"), st.get("running_window_length", 1) % 2, st.get("running_window_step_length", 1) % 2,
               st.get("running_window_mode_over_years_of_cm_future"), st.get("running_window_over_years_of_cm_future_length", 1) % 2,
               st.get("running_window_over_years_of_cm_future_step_length", 1) % 2, spec["times_kind"], spec["layout"], spec["dtype"]), True,
              sample={"family": spec["family"], "settings": st, "fut_days": spec["fut_days"], "sequence": spec["sequence"], "grid_applies": n_same_apply})
    return True


def window_sweep_cases(rng, tier, res, problems, mismatches, boost):
    fams = [f for f, v in SWEEP_FAMILIES.items() for _ in range(v[3])]
    n = (22 if tier == "quick" else 120) * (3 if boost else 1)
    order = list(SWEEP_FAMILIES) + [rng.choice(fams) for _ in range(max(0, n - len(SWEEP_FAMILIES)))]
    done = even = 0
    for fam in order[:n]:
        spec = sweep_spec(rng, fam, tier)
        try:
            ran = run_sweep_case(spec, res, problems, mismatches)
        except Exception as ex:  # noqa: BLE001
            ran = False
            res.notes.append(f"sweep/{fam}: {spec['settings']} raised {type(ex).__name__}: {str(ex)[:100]}")
        done += int(bool(ran))
        st = spec["settings"]
        even += int(bool(ran) and any(isinstance(v, int) and not isinstance(v, bool) and v % 2 == 0 for v in st.values()))
    res.extra["window_sweep_cases"], res.extra["window_sweep_cases_with_an_even_setting"], res.extra["window_sweep_planned"] = done, even, len(order[:n])
    if done < (len(order[:n]) * 2) // 3:
        mismatches.append({"op": "coverage", "case": {}, "impl": f"only {done} of {len(order[:n])} window-sweep cases ran", "model": "every family runs on its generated series"})


# ------------------------------------------------------------------ settings sweep: non-default settings, incl. settings held in containers
# Quantifiers of C12 covered here (every configuration above is a `from_variable` default; the only settings varied are windows):
#   * "all debiasers and SETTINGS": the documented constructor keywords other than the window settings, drawn over their
#     admissible values — in particular the settings that live one level DOWN, in a mutable container or a helper object the
#     debiaser holds (fit keywords of the precipitation models: floc / fscale / shape fixed or free, None, given as python
#     floats, numpy scalars or 0-d arrays; `distribution_fit_kwargs`; censoring thresholds; amounts distribution; cdf
#     randomisation on/off; detrending / mapping type / delta type / shift kinds; cdf thresholds);
#   * "all SEQUENCES of earlier apply calls on the same instance": first call, repeat, repeat after an unrelated call, a fresh
#     instance built from the same settings, and the same through `apply` on a grid of two different locations.
# Oracle = the statement: "the result depends only on the debiaser's settings, the arguments and the generator state" — every
# repeat and the fresh instance are bit-identical to the first call (re-seeded iff a random step is on), inputs keep their bytes.
# A change of the (deep) settings by a call is reported as a broken tie (Props.C12.apply_settings_fixed), not as a violation.
SETTINGS_FAMILIES = {
    # name: (class, variable, weight)
    "qm_pr_model": ("QuantileMapping", "pr", 5), "ecdfm_pr_model": ("ECDFM", "pr", 4), "qdm_pr_model": ("QuantileDeltaMapping", "pr", 2),
    "sdm_pr_kwargs": ("ScaledDistributionMapping", "pr", 3), "qdm_pr_threshold": ("QuantileDeltaMapping", "pr", 1),
    "qm_tas": ("QuantileMapping", "tas", 2), "cdft": ("CDFt", "tas", 2), "ls_dc": ("LinearScaling", "tas", 1), "qdm_tas": ("QuantileDeltaMapping", "tas", 1),
}


def _typed(v, vtype):
    """a setting value in the python / numpy type the spec names (a config file or an xarray attribute gives numpy types)"""
    if v is None:
        return None
    if vtype == "np.float64":
        return np.float64(v)
    if vtype == "np.float32":
        return np.float32(v)
    if vtype == "0-d array":
        return np.array(float(v))
    if vtype == "int" and float(v) == int(v):
        return int(v)
    return float(v)


def _fit_kwds(entry):
    """a NEW dict at every call (None stays None): [[key, value, vtype], ...] -> {key: typed value}"""
    if entry is None:
        return None
    return {k: _typed(v, t) for k, v, t in entry}


def gen_fit_kwds(rng, dist):
    """fit keywords of scipy's rv_continuous.fit for a two-parameter amounts distribution (shape, loc, scale); never all fixed"""
    shape_kw = rng.choice(["f0", {"gamma": "fa", "weibull_min": "fc"}[dist]])
    scale = rng.choice([2e-5, 4e-5, 7.5e-5, 1e-4])
    shape = rng.choice([0.6, 0.8, 1.0, 1.5])
    wb = dist == "weibull_min"  # scipy's weibull_min.fit override compares fscale with numbers and hashes the values: no None, no 0-d array
    vt = lambda: rng.choice(["float", "float", "np.float64", "np.float32"] + ([] if wb else ["0-d array"]))  # noqa: E731
    loc = ["floc", 0, rng.choice(["int", "int", "float", "np.float64"])]
    opts = [
        None, [loc], [loc, ["fscale", None, "float"]],
        [loc, ["fscale", scale, vt()]], [["fscale", scale, vt()], loc], [["fscale", scale, vt()]],
        [loc, ["fscale", scale, vt()]], [[shape_kw, shape, vt()], loc], [[shape_kw, shape, vt()], ["fscale", scale, vt()]],
    ]
    if wb:
        opts = [o for o in opts if o is None or all(e[1] is not None for e in o)]
    return rng.choice(opts)


def settings_spec(rng, family, tier):
    cls_name, var, _ = SETTINGS_FAMILIES[family]
    st = {}
    if family in ("qm_pr_model", "ecdfm_pr_model", "qdm_pr_model"):
        mt = rng.choice(["hurdle"] * 5 + ["ignore_zeros", "ignore_zeros", "censored"] if family != "qdm_pr_model" else ["hurdle", "hurdle", "ignore_zeros"])
        dist = "gamma" if mt == "censored" else rng.choice(["gamma", "gamma", "weibull_min"])
        st = {"model_type": mt, "amounts_distribution": dist, "fit_kwds": gen_fit_kwds(rng, dist) if mt != "censored" else None,
              "hurdle_model_randomization": rng.random() < 0.6, "censoring_threshold": rng.choice([0.05, 0.1, 0.5, 1.0]) / 86400,
              # how the model object reaches the debiaser: the documented classmethod, or built by the user and passed as `distribution`
              "via": "for_precipitation" if (family != "qdm_pr_model" and (mt == "censored" or rng.random() < 0.6)) else "distribution"}
        if mt == "ignore_zeros" and dist == "weibull_min":
            st["via"] = "distribution"  # for_precipitation gives the ignore-zeros model its default fit keywords (fscale=None)
        if family == "qm_pr_model":
            st["detrending"] = rng.choice(["no_detrending", "no_detrending", "multiplicative"])
    elif family == "sdm_pr_kwargs":
        st = {"fit_kwds": [e for e in (gen_fit_kwds(rng, "gamma") or [["floc", 0, "int"]])], "pr_lower_threshold": rng.choice([0.05, 0.1, 0.2]) / 86400}
    elif family == "qdm_pr_threshold":
        st = {"censoring_threshold": rng.choice([0.02, 0.05, 0.1, 0.3]) / 86400}
    elif family == "qm_tas":
        st = {"detrending": rng.choice(["additive", "multiplicative", "no_detrending"]), "mapping_type": rng.choice(["parametric", "nonparametric"]),
              "cdf_threshold": rng.choice([1e-10, 1e-6, 1e-3]), "distribution": rng.choice(["norm", "norm", "laplace"])}
    elif family == "cdft":
        var = rng.choice(["tas", "pr"])
        st = {"variable": var, "delta_shift": rng.choice(["additive", "multiplicative", "no_shift"]), "SSR": (var == "pr" and rng.random() < 0.7),
              "ecdf_method": rng.choice(["kernel_density", "linear_interpolation", "step_function"]),
              "iecdf_method": rng.choice(["inverted_cdf", "linear", "closest_observation"]),
              "running_window_mode_over_years_of_cm_future": False}
    elif family == "ls_dc":
        var = rng.choice(["tas", "pr"])
        st = {"class": rng.choice(["LinearScaling", "DeltaChange"]), "variable": var, "delta_type": rng.choice(["additive", "multiplicative"])}
    elif family == "qdm_tas":
        st = {"trend_preservation": rng.choice(["absolute", "relative"]), "distribution": rng.choice(["norm", "laplace"]),
              "cdf_threshold": rng.choice([None, 1e-4, 1e-3]), "running_window_mode_over_years_of_cm_future": False}
    slow = st.get("model_type") == "censored" or family == "qdm_pr_threshold"  # Nelder-Mead fits: short series, one window
    window = (not slow) and rng.random() < 0.3  # several windows per call: later fits of the same call
    st["running_window_mode"] = window
    if window:
        st["running_window_length"], st["running_window_step_length"] = rng.choice([[121, 121], [183, 183], [183, 183]])
    return {"family": family, "settings": st, "days": [rng.choice([400, 500, 600]) if not slow else 300, rng.choice([401, 550]) if not slow else 301,
                                                       rng.choice([450, 640]) if not slow else 330],
            "layout": rng.choice(LAYOUTS_1D), "dtype": rng.choice(["float64", "float64", "float32"]), "times_kind": rng.choice(["date", "datetime64"]),
            "data_seed": rng.randint(0, 2**31 - 1), "np_seed": rng.randint(0, 2**31 - 2), "verif_seed": C.seed(), "tier": tier}


def settings_factory(spec):
    """a NEW debiaser from the JSON-able settings of the spec; every container handed to the library is a new object"""
    import scipy.stats

    import ibicus.debias as D
    from ibicus.utils import gen_PrecipitationHurdleModel, gen_PrecipitationIgnoreZeroValuesModel

    fam = spec["family"]
    cls_name, var, _ = SETTINGS_FAMILIES[fam]
    st = dict(spec["settings"])
    kw = {k: st[k] for k in ("running_window_mode", "running_window_length", "running_window_step_length",
                             "running_window_mode_over_years_of_cm_future") if k in st}
    with warnings.catch_warnings():
        warnings.simplefilter("ignore")
        if fam in ("qm_pr_model", "ecdfm_pr_model", "qdm_pr_model"):
            cls = getattr(D, cls_name)
            dist = getattr(scipy.stats, st["amounts_distribution"])
            if "detrending" in st:
                kw["detrending"] = st["detrending"]
            if st["via"] == "for_precipitation":
                pkw = dict(model_type=st["model_type"], amounts_distribution=dist, censoring_threshold=st["censoring_threshold"],
                           hurdle_model_randomization=st["hurdle_model_randomization"])
                if st["model_type"] == "hurdle":
                    pkw["hurdle_model_kwds_for_distribution_fit"] = _fit_kwds(st["fit_kwds"])
                return cls.for_precipitation(**pkw, **kw)
            if st["model_type"] == "hurdle":
                model = gen_PrecipitationHurdleModel(distribution=dist, fit_kwds=_fit_kwds(st["fit_kwds"]), cdf_randomization=st["hurdle_model_randomization"])
            else:
                model = gen_PrecipitationIgnoreZeroValuesModel(distribution=dist, fit_kwds=_fit_kwds(st["fit_kwds"]))
            return cls.from_variable("pr", distribution=model, **kw)
        if fam == "sdm_pr_kwargs":
            return D.ScaledDistributionMapping.from_variable("pr", distribution_fit_kwargs=_fit_kwds(st["fit_kwds"]), pr_lower_threshold=st["pr_lower_threshold"], **kw)
        if fam == "qdm_pr_threshold":
            return D.QuantileDeltaMapping.for_precipitation(censoring_threshold=st["censoring_threshold"], running_window_mode_over_years_of_cm_future=False, **kw)
        if fam == "qm_tas":
            return D.QuantileMapping.from_variable("tas", detrending=st["detrending"], mapping_type=st["mapping_type"], cdf_threshold=st["cdf_threshold"],
                                                   distribution=getattr(scipy.stats, st["distribution"]), **kw)
        if fam == "cdft":
            return D.CDFt.from_variable(st["variable"], delta_shift=st["delta_shift"], SSR=st["SSR"], ecdf_method=st["ecdf_method"], iecdf_method=st["iecdf_method"], **kw)
        if fam == "ls_dc":
            return getattr(D, st["class"]).from_variable(st["variable"], delta_type=st["delta_type"], **kw)
        if fam == "qdm_tas":
            return D.QuantileDeltaMapping.from_variable("tas", trend_preservation=st["trend_preservation"], distribution=getattr(scipy.stats, st["distribution"]),
                                                        cdf_threshold=st["cdf_threshold"], **kw)
    raise ValueError(fam)


def deep_state(x, depth=0):
    """structural snapshot of everything an instance holds, THROUGH containers and ibicus helper objects (a vars() snapshot
    holds the container itself: a key popped from a dict setting is invisible to `is` / `==` on the same object)"""
    import attrs

    if depth > 6:
        return "..."
    if isinstance(x, dict):
        return ("dict", tuple((repr(k), deep_state(v, depth + 1)) for k, v in x.items()))
    if isinstance(x, (list, tuple)):
        return (type(x).__name__, tuple(deep_state(v, depth + 1) for v in x))
    if isinstance(x, (set, frozenset)):
        return (type(x).__name__, tuple(sorted(repr(v) for v in x)))
    if isinstance(x, np.ndarray):
        return ("ndarray", str(x.dtype), x.shape, x.tobytes() if x.dtype != object else len(x))
    if isinstance(x, (bool, int, float, str, bytes, type(None), np.generic)):
        return (type(x).__name__, repr(x))
    mod = type(x).__module__ or ""
    if mod.startswith("ibicus"):
        if attrs.has(type(x)):
            names = [a.name for a in attrs.fields(type(x))]
        else:
            names = []
        names += [k for k in getattr(x, "__dict__", {}) if k not in names]
        return (type(x).__name__, tuple((n, deep_state(getattr(x, n, None), depth + 1)) for n in names))
    return ("object", type(x).__name__)  # scipy distributions etc.: identity of the kind only


def deep_diff(a, b, path="self"):
    """first difference of two deep_state snapshots as text (None = equal)"""
    if a == b:
        return None
    if isinstance(a, tuple) and isinstance(b, tuple) and len(a) == 2 and len(b) == 2 and a[0] == b[0] and isinstance(a[1], tuple) and isinstance(b[1], tuple):
        ka = [e[0] if isinstance(e, tuple) and len(e) == 2 else None for e in a[1]]
        kb = [e[0] if isinstance(e, tuple) and len(e) == 2 else None for e in b[1]]
        if ka != kb:
            return f"{path}: keys/fields {ka} -> {kb}"
        for ea, eb in zip(a[1], b[1]):
            if ea != eb:
                return deep_diff(ea[1], eb[1], f"{path}.{ea[0]}") if isinstance(ea, tuple) and len(ea) == 2 else f"{path}: {ea!r} -> {eb!r}"
    return f"{path}: {str(a)[:80]} -> {str(b)[:80]}"


def settings_series(spec):
    """three independent sets of (obs, cm_hist, cm_future) 1-d series + dates: a pure function of the spec"""
    fam = spec["family"]
    var = spec["settings"].get("variable", SETTINGS_FAMILIES[fam][1])
    nprs = np.random.RandomState(spec["data_seed"])
    kind, dt = spec["times_kind"], np.dtype(spec["dtype"])
    nO, nH, nF = spec["days"]
    dts = [dates_from(datetime.date(1990, 1, 1), nO, kind), dates_from(datetime.date(1990, 1, 1), nH, kind), dates_from(datetime.date(2050, 1, 1), nF, kind)]
    sets = []
    for j in range(3):
        sets.append([gen_data(var, nprs, d_, sh + 0.5 * j).astype(dt) for d_, sh in zip(dts, (0.0, 1.0, 3.0))])
    return sets, dts


def run_settings_case(spec, res, problems, mismatches):
    name = "settings/" + spec["family"]
    sets, dts = settings_series(spec)
    arrs, arrs_b, arrs_c = sets
    seed = spec["np_seed"]
    case = {"kind": "settings-sweep", "config": name, "spec": spec, "entry": "apply_location", "n": [int(a.size) for a in arrs]}
    try:
        deb = settings_factory(spec)
    except Exception as ex:  # noqa: BLE001
        res.notes.append(f"{name}: construction with {spec['settings']} raised {type(ex).__name__}: {str(ex)[:60]} (case skipped)")
        return False
    guards = rng_guards(deb)
    deterministic = not guards
    reseed = None if deterministic else seed
    case["rng_guards"] = guards
    how = "without re-seeding (the configuration has no random step)" if deterministic else "under the same np.random.seed"
    trail = ["apply_location(series A) [first call, read-only inputs]"]
    state_note = {}

    def bad(what, desc, **kw):
        problems.append((f"{name} {spec['settings']}: {desc}" + (f" [deep settings changed by the first call: {state_note['first']}]" if state_note.get("first") else ""),
                         {**case, "what": what, "call_sequence": list(trail), "deep_settings_change": dict(state_note), **kw}))

    def cmp(o, ref, label, what="not repeatable"):
        if not _same_out(o, ref):
            bad(what, f"output of the {label} differs from the first call ({_ndiff(o, ref)} of {ref.size} values) {how}", which=label)

    ds0 = deep_state(deb)
    inp = Inputs(arrs, dts, spec["layout"], "apply_location")
    inp.readonly(True)
    try:
        try:
            out1 = call(deb, inp, "apply_location", seed)
        except Exception as ex:  # noqa: BLE001
            if is_store_error(ex):
                bad("read-only input written", f"a store into a caller buffer was attempted ({type(ex).__name__}: {str(ex)[:80]})")
                return True
            if "read-only" not in str(ex):
                ch = inp.changed()
                if ch:
                    bad("input modified", f"caller arrays modified by apply_location (which then raised {type(ex).__name__}): {ch}", changed=ch)
                res.notes.append(f"{name}: {spec['settings']} raises {type(ex).__name__}: {str(ex)[:80]} (settings case skipped)")
                return False
            inp.readonly(False)
            deb = settings_factory(spec)
            out1 = call(deb, inp, "apply_location", seed)
        ch = inp.changed()
        if ch:
            bad("input modified", f"caller arrays modified by apply_location: {ch}", changed=ch)
        why = deep_diff(ds0, deep_state(deb))
        if why:
            state_note["first"] = why
            mismatches.append({"op": "deep-settings", "case": {"family": spec["family"], "settings": spec["settings"]},
                               "impl": f"apply_location changed the instance below the attribute level: {why}",
                               "model": "Props.C12.apply_settings_fixed / applyLocation_state: a call leaves the settings"})

        def again(label):
            i2 = Inputs(arrs, dts, "C", "apply_location")
            trail.append(f"apply_location(series A) [{label}]")
            try:
                o = call(deb, i2, "apply_location", reseed)
            except Exception as ex:  # noqa: BLE001
                if is_store_error(ex):
                    raise
                bad("not repeatable", f"the {label} raised {type(ex).__name__}: {str(ex)[:80]} although the first call returned", which=label)
                return
            cmp(o, out1, label)
            ch2 = i2.changed()
            if ch2:
                bad("input modified", f"caller arrays modified by apply_location (writable inputs, {label}): {ch2}", changed=ch2)

        again("repeated call")
        trail.append("apply_location(series B) [unrelated call]")
        try:
            call(deb, Inputs(arrs_b, dts, "C", "apply_location"), "apply_location", seed + 1)
        except Exception as ex:  # noqa: BLE001
            if is_store_error(ex):
                raise
            res.notes.append(f"{name}: unrelated call raised {type(ex).__name__}")
        again("call after an unrelated call")
        trail.append("apply_location(series A) [fresh instance with the same settings]")
        try:
            o4 = call(settings_factory(spec), Inputs(arrs, dts, "C", "apply_location"), "apply_location", seed if not deterministic else seed + 11)
            cmp(o4, out1, "fresh instance with the same settings", what="depends on the instance's history")
        except Exception as ex:  # noqa: BLE001
            if is_store_error(ex):
                raise
            bad("depends on the instance's history", f"a fresh instance raised {type(ex).__name__}: {str(ex)[:80]} on the arguments the used instance accepted", which="fresh instance")
        # ---- apply on a grid of two DIFFERENT locations (A, C): a fresh instance twice, then the used instance
        trail.append("apply(grid 1x2 = series A, series C) [fresh instance, the same instance again, then the used instance]")
        grid = [np.stack([a, c], axis=1).reshape(a.size, 1, 2) for a, c in zip(arrs, arrs_c)]
        try:
            fresh = settings_factory(spec)
            g = [call(d_, Inputs(grid, dts, "C", "apply"), "apply", seed) for d_ in (fresh, fresh, deb)]
            if not _same_out(g[0], g[1]):
                bad("not repeatable", f"apply on a grid repeated on the same instance differs ({_ndiff(g[0], g[1])} of {g[0].size} values) under the same np.random.seed", which="apply repeated")
            if not _same_out(g[0], g[2]):
                bad("depends on the instance's history", f"apply on a grid: a fresh instance and the used instance (same settings) differ ({_ndiff(g[0], g[2])} of {g[0].size} values) "
                    f"under the same np.random.seed", which="apply used vs fresh")
            why = deep_diff(ds0, deep_state(fresh))
            if why and not state_note.get("first"):
                state_note["apply"] = why
                mismatches.append({"op": "deep-settings", "case": {"family": spec["family"], "settings": spec["settings"]},
                                   "impl": f"apply changed the instance below the attribute level: {why}", "model": "Props.C12.apply_settings_fixed"})
        except Exception as ex:  # noqa: BLE001
            if is_store_error(ex):
                raise
            res.notes.append(f"{name}: apply on a grid raised {type(ex).__name__}: {str(ex)[:60]}")
    except Exception as ex:  # noqa: BLE001
        if is_store_error(ex):
            bad("read-only input written", f"a store into a caller buffer was attempted ({type(ex).__name__}: {str(ex)[:80]})")
            return True
        raise
    st = spec["settings"]
    fk = st.get("fit_kwds")
    res.count(("settings", spec["family"], st.get("model_type"), st.get("via"), None if fk is None else tuple(sorted((k, v is None) for k, v, _ in fk)),
               st.get("running_window_mode"), deterministic, spec["dtype"]), True,
              sample={"family": spec["family"], "settings": st, "days": spec["days"], "rng_guards": guards})
    return True


def settings_sweep_cases(rng, tier, res, problems, mismatches, boost):
    fams = [f for f, v in SETTINGS_FAMILIES.items() for _ in range(v[2])]
    n = (26 if tier == "quick" else 150) * (3 if boost else 1)
    order = list(SETTINGS_FAMILIES) + [rng.choice(fams) for _ in range(max(0, n - len(SETTINGS_FAMILIES)))]
    done = fixed = 0
    for fam in order[:n]:
        spec = settings_spec(rng, fam, tier)
        try:
            ran = run_settings_case(spec, res, problems, mismatches)
        except Exception as ex:  # noqa: BLE001
            ran = False
            res.notes.append(f"settings/{fam}: {spec['settings']} raised {type(ex).__name__}: {str(ex)[:100]}")
        done += int(bool(ran))
        fk = spec["settings"].get("fit_kwds")
        fixed += int(bool(ran) and bool(fk) and any(v is not None and k != "floc" for k, v, _ in fk))
    res.extra["settings_sweep_cases"], res.extra["settings_sweep_cases_with_a_fixed_fit_parameter"], res.extra["settings_sweep_planned"] = done, fixed, len(order[:n])
    if done < len(order[:n]) // 2:
        mismatches.append({"op": "coverage", "case": {}, "impl": f"only {done} of {len(order[:n])} settings-sweep cases ran", "model": "every family runs on its generated series"})


# ------------------------------------------------------------------ the check
MASKED_ALWAYS =("ls_tas", "dc_pr", "ls_pr_window", "isimip_prsnratio_impute")
NAN_OK = ("ls_", "dc_", "isimip_prsnratio")


def plan(rng, tier, cfgs, boost):
    """which (configuration, entry, layout, dtype, times) combinations this run exercises"""
    jobs = []
    names = list(cfgs)
    for k, name in enumerate(names):
        var = cfgs[name][0]
        needs_dates = name.endswith("_dates")
        reps = 2 if tier == "quick" else 8
        if boost:
            reps += 1
        for r in range(reps):
            for entry in ("apply", "apply_location"):
                layout = rng.choice(LAYOUTS_3D if entry == "apply" else LAYOUTS_1D)
                dtype = rng.choice([np.float64, np.float64, np.float32])
                times = rng.choice(["date", "date", "datetime64", "none"])
                if needs_dates and times == "none":
                    times = "date"
                if entry == "apply" and var == "tas" and rng.random() < 0.25:
                    times = "conv"  # integer input: converted by the input check
                if entry == "apply" and ((r == 0 and name in MASKED_ALWAYS) or rng.random() < 0.12):
                    times = "masked"  # float masked arrays (filled with NaN by the input check); time arrays given
                jobs.append((name, entry, layout, dtype, times, r % 2 == 1))
    return jobs


def run(tier, res, force_search=False):
    rng = random.Random(C.seed() * 15485863 + 12)
    res.rule = ("cases = (configuration of a debiaser, entry point apply|apply_location, memory layout, dtype, kind of time arrays); each case runs the "
                "full protocol (read-only inputs + byte comparison, provenance probes, repeat, unrelated call, repeat, fresh instance, vars snapshots); "
                "distinct = distinct (configuration, entry, layout, dtype, times); instance-model cases are counted by (kind, flags)")
    res.trusted = C.BASE_TRUSTED + [
        "TRUSTED numpy aliasing classification (Model.Purity.NpOp.aliases): name passing and basic slicing (x[a:b], x[:, i, j], x[::2]) alias their operand; "
        "fancy indexing x[int_array], boolean indexing x[mask], np.sort, np.where, arithmetic/ufuncs without out=, .copy(), astype/filled/np.array, "
        "np.zeros_like/np.empty_like/np.empty and every numpy/scipy/statsmodels routine called without out=/overwrite_* return fresh arrays and do not write into their operands; "
        "validated on every run by np.shares_memory at the entry of each modelled function and by read-only inputs",
        "the store model itself: each modelled function as a straight-line program (Model.Purity.body); settings-dependent branches are separate configurations, "
        "data-dependent branches are merged (union of the stores, aliasing variant of the bindings)",
        "the write-site extractor translator/extract_writesites.py (syntactic: subscript/augmented/attribute assignment, in-place methods and functions, out=/overwrite keywords)",
        "instance model: the numerical run is a function of (settings, active derived attributes, arguments, random draws) — validated by repeated/interleaved calls under np.random.seed; "
        "apply_location reads the derived attributes as they are (Model.Instance.applyLocation) — validated by observing which window objects the real apply_location uses after attribute assignment",
        "guard table Model.Purity.rngSitesJ (which setting switches which np.random call site on) — validated per run: every function seen calling np.random.* must be a listed site whose guard is on and whose draw is reachable in the model configuration",
    ]
    res.assumptions = [
        "RUNTIME-ONLY clauses (decided by the oracle on the real code, no theorem can exhibit a failure): (1) numpy view/copy behaviour incl. "
        "MaskedArray.filled returning the data buffer when nothing is masked, dtype conversion and read-only flags — the model carries them as the trusted "
        "classification NpOp.aliases and the Entry.apply conv flag; (2) bit-identity of the numerical run for equal (view, arguments, draws) — the model's `run` is a "
        "parameter; (3) the process pool (apply(parallel=True, nr_processes=1) re-seeded repeat, pickling, worker initialisers) — not modelled, tier A only lists "
        "pool constructions with initialisers as global state; (4) the actual state of numpy's global generator (np.random.get_state) — the model has a draw counter "
        "advanced only at the guarded draw statements (Props.C12.generator_moves_only_under_guard); that the listed sites are the only draws is tier A (rngSites) and "
        "the per-run comparison of who calls np.random.* (tier B)",
        "PARTIAL: proof over an alias model; numpy's actual view/copy behaviour and the absence of hidden writes inside numpy/scipy routines are assumptions validated by probes, not proved",
        "the alias model covers the serial path; parallel=True is exercised only for seed-determinism (one worker, re-seeded repeat) — grids through the pool are C05; metrics/evaluate are out of scope",
        "the randomised configurations are compared after re-seeding numpy's global generator (np.random.seed)",
        "cross-process clause: the seeded calls are repeated in child interpreters that differ only in PYTHONHASHSEED (runtime-only: no theorem — the model has no notion of an interpreter process)",
        "hook IBICUS_VERIF=1: _verif_mark_unassigned fills freshly allocated result buffers (whitelisted write site, modelled as a store into an own buffer)",
    ]

    lean_ok = C.lean_phase(res, PROP, GEN, TARGETS, extra_modules=["IbicusModel.Model.Instance"])
    boost = force_search or not lean_ok
    problems, mismatches, trace_jobs = [], [], []

    cfgs = configurations()
    jobs = plan(rng, tier, cfgs, boost)
    with probes_installed() as missing:
        for m in missing:
            mismatches.append({"op": "probe-install", "case": {}, "impl": f"modelled function {m} does not exist in the source", "model": "Model.Purity.Fn"})
        for (name, entry, layout, dtype, times, ties) in jobs:
            var, factory, randomised = cfgs[name]
            try:
                protocol(name, var, factory, randomised, entry, layout, dtype, times, tier, rng, res, problems, mismatches, trace_jobs, ties=ties)
            except Exception as ex:  # noqa: BLE001
                REC.active = False
                if is_store_error(ex):
                    problems.append((f"{name}: a store into a caller buffer was attempted ({str(ex)[:80]})",
                                     {"config": name, "entry": entry, "layout": layout, "what": "read-only input written"}))
                else:
                    res.notes.append(f"{name}/{entry}/{layout}: protocol raised {type(ex).__name__}: {str(ex)[:100]}")

    # ---- window settings (even / odd / normalised) x multi-window series x call sequences; its own stream: the streams above do not shift
    import time as _time

    t_sweep = _time.time()
    try:
        window_sweep_cases(random.Random(C.seed() * 15485863 + 1205), tier, res, problems, mismatches, boost)
    except Exception as ex:  # noqa: BLE001
        res.notes.append(f"window sweep raised {type(ex).__name__}: {str(ex)[:100]}")
    res.extra["window_sweep_wall_s"] = round(_time.time() - t_sweep, 1)

    # ---- non-default settings (incl. settings held in containers / helper objects) x call sequences; its own stream
    t_sweep = _time.time()
    try:
        settings_sweep_cases(random.Random(C.seed() * 15485863 + 1207), tier, res, problems, mismatches, boost)
    except Exception as ex:  # noqa: BLE001
        res.notes.append(f"settings sweep raised {type(ex).__name__}: {str(ex)[:100]}")
    res.extra["settings_sweep_wall_s"] = round(_time.time() - t_sweep, 1)

    # ---- a run in which (nearly) nothing was exercised must not pass
    skipped = sum(1 for n_ in res.notes if "configuration skipped" in n_)
    res.extra["protocols_planned"], res.extra["protocols_skipped"] = len(jobs), skipped
    if res.extra.get("parallel_one_worker_failed", 0) > res.extra.get("parallel_one_worker_cases", 0):
        mismatches.append({"op": "coverage", "case": {}, "impl": f"apply(parallel=True, nr_processes=1) raised in {res.extra['parallel_one_worker_failed']} cases",
                           "model": "the one-worker pool runs every configuration"})
    if skipped > max(3, len(jobs) // 10):
        mismatches.append({"op": "coverage", "case": {}, "impl": f"{skipped} of {len(jobs)} protocol runs raised and were skipped: {res.notes[0][:160]}",
                           "model": "every configuration of the table runs on its generated data"})

    # ---- provenance table: model vs np.shares_memory
    try:
        lines, owners = [], []
        for j, (case, toks, items, drawn, guards) in enumerate(trace_jobs):
            for t in toks:
                lines.append("trace " + t)
                owners.append(j)
        nt = len(lines)
        for j, (case, toks, items, drawn, guards) in enumerate(trace_jobs):
            for t in toks:
                lines.append("draws " + t)
                owners.append(j)
        lines.append("rngsites")
        out_all = C.run_driver("DrvPurity", lines)
        out = out_all[:nt]
        # ---- who draws: the functions seen calling np.random.* against the model's draw statements and guards
        site_tbl = {}
        for row in out_all[-1].split(";"):
            src_fn, callee, guard, model_fn = row.split("|")
            site_tbl[(src_fn, callee)] = (guard, model_fn)
        model_draws = [set() for _ in trace_jobs]
        for j, line in zip(owners[nt:], out_all[nt:-1]):
            if line not in ("-", "bad-op"):
                model_draws[j].update(line.split(","))
        n_draw_sites = 0
        for (case, toks, items, drawn, guards), md in zip(trace_jobs, model_draws):
            for site in sorted(drawn):
                n_draw_sites += 1
                if site not in site_tbl:
                    mismatches.append({"op": "draw-site", "case": case, "impl": f"{site[0]} calls {site[1]}", "model": "not a listed draw site (Model.Purity.rngSitesJ)"})
                    continue
                guard, model_fn = site_tbl[site]
                if guard not in guards:
                    mismatches.append({"op": "draw-site", "case": case, "impl": f"{site[0]} drew although the guard {guard} is off (guards on: {guards})", "model": "Model.Purity.rngSitesJ"})
                elif f"{model_fn}:{guard}" not in md:
                    mismatches.append({"op": "draw-site", "case": case, "impl": f"{site[0]} drew", "model": f"no reachable `draw {guard}` in {model_fn} for {' '.join(toks)}"})
        res.extra["draw_sites_compared"] = n_draw_sites
        trace_jobs = [t[:3] for t in trace_jobs]
        model_items = [set() for _ in trace_jobs]
        for j, line in zip(owners[:nt], out):
            parts = line.split(" ")
            if len(parts) != 3 or parts[0] != "1" or parts[1] != "1":
                mismatches.append({"op": "trace", "case": trace_jobs[j][0], "impl": "", "model": f"model configuration not safe / no trace: {line[:120]}"})
                continue
            if parts[2] != "-":
                model_items[j].update(parts[2].split(","))
        not_exercised = 0
        for (case, toks, items), mi in zip(trace_jobs, model_items):
            res.cov["traces_validated_against_impl"] += 1
            extra = sorted(items - mi)
            if extra:
                mismatches.append({"op": "provenance", "case": case, "impl": extra[:6], "model": "not in the model's provenance table: " + " ".join(toks)})
            not_exercised += len(mi - items)
        res.extra["provenance_items_compared"] = int(sum(len(i) for _, _, i in trace_jobs))
        res.extra["model_items_not_exercised"] = int(not_exercised)
        n_inst = 64 if tier == "quick" else 600
        if boost:
            n_inst *= 3
        instance_cases(rng, n_inst, res, mismatches)
        cross_process_cases(rng, tier, res, problems, mismatches, boost)
        if not qdm_sticky_probe(res):
            mismatches.append({"op": "qdm-sticky", "case": {}, "impl": str(res.extra["qdm_cdf_threshold_after_assignment"]), "model": "Props.C12.qdm_cdf_threshold_sticky"})
    except Exception as ex:  # noqa: BLE001
        mismatches.append({"op": "driver", "case": {}, "impl": "", "model": f"{type(ex).__name__}: {str(ex)[:300]}"})
    if mismatches:
        res.tie_broken.append(f"correspondence DrvPurity/probes: {len(mismatches)} mismatches, first: {mismatches[0]}")

    # ---- when a tie is broken: the failing-input search = the same oracle with a larger budget
    if (res.tie_broken and not problems and not boost):
        rng2 = random.Random(C.seed() * 15485863 + 99)
        with probes_installed():
            for (name, entry, layout, dtype, times, ties) in plan(rng2, tier, cfgs, True):
                var, factory, randomised = cfgs[name]
                try:
                    protocol(name, var, factory, randomised, entry, layout, dtype, times, tier, rng2, res, problems, [], [], ties=ties)
                except Exception as ex:  # noqa: BLE001
                    REC.active = False
                    if is_store_error(ex):
                        problems.append((f"{name}: a store into a caller buffer was attempted ({str(ex)[:80]})",
                                         {"config": name, "entry": entry, "layout": layout, "what": "read-only input written"}))

    # ---- verdict
    seen, per_what = set(), {}
    for desc, case in problems:
        key = (case.get("config"), case.get("what"))
        if key in seen:
            continue
        seen.add(key)
        per_what[case.get("what")] = per_what.get(case.get("what"), 0) + 1
        if per_what[case.get("what")] > 3:  # the same kind of violation in many configurations: three replays are enough
            continue
        res.violations.append((desc, {"property": PROP, "failing_input": case, "problem": desc,
                                      "signature": {"config": case.get("config"), "what": case.get("what")}}))
    if res.tie_broken and not problems:
        res.violations.append(("proof obligation / correspondence no longer checks: " + "; ".join(res.tie_broken)[:600],
                               {"property": PROP, "failing_input": None, "broken": res.tie_broken, "mismatches": mismatches[:5]}))
    res.extra["level_note"] = ("proof over an explicit store model (alias + instance); PARTIAL: numpy's view/copy behaviour and the purity of library routines "
                               "are a trusted classification validated by the tier-B probes of this run")
    return res


def replay(data):
    """re-run the failing configuration of a replay file against the real code"""
    fi = data.get("failing_input")
    if not fi or "config" not in fi:
        print("replay: no failing input recorded (a proof obligation / correspondence broke): re-run ./check C12")
        return 2
    import os

    if fi.get("what") == "depends on the interpreter process":
        import json
        import subprocess

        job = [[fi["config"], fi["entry"], fi.get("tier", "quick")]]
        digs = {"this process": digest_job(*job[0])}
        for hs in ("1", "2", "31337"):
            p = subprocess.run([sys.executable, "-c", "from harness import c12; c12.child_main()"], cwd=C.VERIF, env=dict(os.environ, PYTHONHASHSEED=hs),
                               input=json.dumps(job), capture_output=True, text=True)
            line = [ln for ln in p.stdout.split("\n") if ln.startswith("DIGESTS ")]
            digs[f"PYTHONHASHSEED={hs}"] = list(json.loads(line[0][8:]).values())[0] if line else "no output"
        bad = len(set(digs.values())) > 1
        print("REPRODUCED:" if bad else "replay:", digs)
        print("replay:", "violation reproduced" if bad else "not reproduced")
        return 1 if bad else 0
    if fi.get("kind") == "window-sweep":
        # the spec holds the settings, the shape of the series, the seeds and the call sequence
        res = C.Result(PROP, fi["spec"].get("tier", "quick"))
        problems, mism = [], []
        run_sweep_case(fi["spec"], res, problems, mism)
        for desc, case in problems[:5]:
            print("REPRODUCED:", desc[:300])
            print("  call sequence:", case.get("call_sequence"))
        print("replay:", "violation reproduced" if problems else "not reproduced")
        return 1 if problems else 0
    if fi.get("kind") == "settings-sweep":
        # the spec holds the settings (containers as [[key, value, type], ...]), the shape of the series and the seeds
        res = C.Result(PROP, fi["spec"].get("tier", "quick"))
        problems, mism = [], []
        run_settings_case(fi["spec"], res, problems, mism)
        for desc, case in problems[:5]:
            print("REPRODUCED:", desc[:400])
            print("  call sequence:", case.get("call_sequence"))
        for m in mism[:2]:
            print("  broken tie:", m["impl"][:200])
        print("replay:", "violation reproduced" if problems else "not reproduced")
        return 1 if problems else 0
    os.environ["VERIF_SEED"] = str(fi.get("verif_seed", 0))
    cfgs = configurations()
    name = fi["config"]
    var, factory, randomised = cfgs[name]
    res = C.Result(PROP, fi.get("tier", "quick"))
    problems = []
    rng = random.Random(C.seed() * 15485863 + 12)
    with probes_installed():
        for entry in ([fi["entry"]] if "entry" in fi else ["apply", "apply_location"]):
            for layout in ([fi["layout"]] if "layout" in fi else ["C"]):
                dt = np.float32 if fi.get("dtype") == "float32" else np.float64
                for _ in range(3):
                    protocol(name, var, factory, randomised, entry, layout, dt, fi.get("times", "date"), fi.get("tier", "quick"), rng, res, problems, [], [],
                             ties=bool(fi.get("ties", False)))
    for desc, case in problems[:5]:
        print("REPRODUCED:", desc[:200])
    print("replay:", "violation reproduced" if problems else "not reproduced")
    return 1 if problems else 0
