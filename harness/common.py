"""
Shared machinery of the checks: Lean build / axiom audit / forbidden-token scan, the line-protocol
driver, evidence and replay writing, known findings, exact float -> rational conversion.
"""
import fcntl
import json
import os
import re
import subprocess
import sys
import time
from fractions import Fraction

VERIF = os.path.dirname(os.path.dirname(os.path.abspath(__file__)))
LEAN = os.path.join(VERIF, "lean")
REPO = os.environ.get("IBICUS_REPO", "/repo")
EVID = os.path.join(VERIF, "evidence")
REPLAYS = os.path.join(VERIF, "replays")
LOCK = os.path.join(LEAN, ".build.lock")
ALLOWED_AXIOMS = {"propext", "Classical.choice", "Quot.sound"}
FORBIDDEN = re.compile(r"\b(sorry|admit|native_decide|bv_decide|implemented_by|unsafe)\b|^\s*axiom\s|maxHeartbeats\s+0")

import logging  # noqa: E402

logging.getLogger("ibicus").setLevel(logging.CRITICAL)  # the library logs every failsafe / fallback event
os.environ["IBICUS_VERIF"] = "1"  # hooks on for every run of the real code
os.environ.setdefault("OMP_NUM_THREADS", "1")
if os.path.realpath(REPO) != "/repo":
    sys.path.insert(0, REPO)  # mutation trials on a scratch worktree: import ibicus from there
sys.path.insert(0, os.path.join(VERIF, "translator"))
sys.path.insert(0, VERIF)


def seed():
    try:
        return int(os.environ.get("VERIF_SEED", "0"))
    except ValueError:
        return 0


# ---------------------------------------------------------------------------- Lean side
def _run(cmd, cwd=LEAN, timeout=3000, inp=None):
    p = subprocess.run(cmd, cwd=cwd, input=inp, capture_output=True, text=True, timeout=timeout)
    return p.returncode, p.stdout + p.stderr


def lake_build(targets, have_lock=False):
    """Build the given module targets (serialised with a file lock). returns (ok, log)."""
    os.makedirs(LEAN, exist_ok=True)
    if have_lock:
        rc, out = _run(["lake", "build"] + list(targets))
        return rc == 0, out
    with open(LOCK, "w") as lk:
        fcntl.flock(lk, fcntl.LOCK_EX)
        rc, out = _run(["lake", "build"] + list(targets))
    return rc == 0, out


def failing_decls(log):
    """map `error: File.lean:line:col` of a lake log to the enclosing theorem / def names"""
    out = []
    for m in re.finditer(r"error: (\S+\.lean):(\d+):(\d+)", log):
        path, line = os.path.join(LEAN, m.group(1)), int(m.group(2))
        name = None
        try:
            lines = open(path).read().split("\n")
            for k in range(min(line, len(lines)) - 1, -1, -1):
                mm = re.match(r"\s*(?:@\[[^\]]*\]\s*)?(?:private\s+|protected\s+)?(theorem|lemma|def|example|instance|abbrev)\s+(\S+)?", lines[k])
                if mm:
                    name = f"{mm.group(1)} {mm.group(2) or ''}".strip()
                    break
        except OSError:
            pass
        item = f"{m.group(1)}:{line} ({name})"
        if item not in out:
            out.append(item)
    return out


def audit_axioms(prop):
    """Elaborate Audit/<prop>.lean (a list of `#print axioms`) and parse the result.
    returns (theorems: {name: [axioms]}, bad: [..], raw)"""
    path = os.path.join("IbicusModel", "Audit", f"{prop}.lean")
    with open(LOCK, "w") as lk:
        fcntl.flock(lk, fcntl.LOCK_SH)
        rc, out = _run(["lake", "env", "lean", path])
    thms, bad = {}, []
    for m in re.finditer(r"'([^']+)' depends on axioms: \[([^\]]*)\]", out.replace("\n", " ")):
        ax = [a.strip() for a in m.group(2).split(",") if a.strip()]
        thms[m.group(1)] = ax
        extra = [a for a in ax if a not in ALLOWED_AXIOMS]
        if extra:
            bad.append(f"{m.group(1)}: {extra}")
    for m in re.finditer(r"'([^']+)' does not depend on any axioms", out):
        thms[m.group(1)] = []
    if rc != 0:
        bad.append("audit file failed to elaborate: " + out[-400:])
    return thms, bad, out


def audit_expected(prop):
    """names listed in the audit file (every one must be reported by Lean)"""
    path = os.path.join(LEAN, "IbicusModel", "Audit", f"{prop}.lean")
    return re.findall(r"^#print axioms (\S+)", open(path).read(), re.M)


def scan_forbidden(files):
    hits = []
    for f in files:
        try:
            txt = open(f).read()
        except OSError:
            continue
        txt = re.sub(r"/-.*?-/", lambda m: "\n" * m.group(0).count("\n"), txt, flags=re.S)
        for k, line in enumerate(txt.split("\n"), 1):
            code = line.split("--")[0]
            if FORBIDDEN.search(code):
                hits.append(f"{os.path.relpath(f, VERIF)}:{k}: {line.strip()[:80]}")
    return hits


def lean_sources(modules):
    """transitive local imports of the given module names -> file paths"""
    seen, todo = {}, list(modules)
    while todo:
        m = todo.pop()
        if m in seen:
            continue
        p = os.path.join(LEAN, *m.split(".")) + ".lean"
        if not os.path.exists(p):
            continue
        seen[m] = p
        for imp in re.findall(r"^import (IbicusModel\.\S+)", open(p).read(), re.M):
            todo.append(imp)
    return list(seen.values())


def run_driver(name, lines, timeout=3000):
    """pipe operation lines through drivers/<name>.lean; returns the output lines"""
    inp = "\n".join(lines) + "\n"
    if name not in _DRIVER_BUILT:  # the driver is interpreted; the modules it imports must be compiled
        imps = re.findall(r"^import (IbicusModel\.\S+)", open(os.path.join(LEAN, "drivers", name + ".lean")).read(), re.M)
        okb, logb = lake_build(imps)
        if not okb:
            raise DriverError(f"driver {name}: imports do not build: {logb[-400:]}")
        _DRIVER_BUILT.add(name)
    with open(LOCK, "w") as lk:
        fcntl.flock(lk, fcntl.LOCK_SH)
        rc, out = _run(["lake", "env", "lean", "--run", os.path.join("drivers", name + ".lean")], inp=inp, timeout=timeout)
    res = out.split("\n")
    if res and res[-1] == "":
        res.pop()
    if rc != 0 or len(res) != len(lines):
        raise DriverError(f"driver {name} rc={rc} lines in={len(lines)} out={len(res)}: {out[-600:]}")
    return res


class DriverError(Exception):
    pass


_DRIVER_BUILT = set()


# ---------------------------------------------------------------------------- encoding
def rat(x):
    """exact rational text of a python int / float / Fraction"""
    fr = Fraction(x)
    return str(fr.numerator) if fr.denominator == 1 else f"{fr.numerator}/{fr.denominator}"


def ilist(xs):
    xs = [int(x) for x in xs]
    return ",".join(map(str, xs)) if xs else "-"


def rlist(xs):
    xs = list(xs)
    return ",".join(rat(x) for x in xs) if xs else "-"


def parse_rat(s):
    return Fraction(s)


def parse_list(s, f=int):
    return [] if s == "-" else [None if t == "none" else f(t) for t in s.split(",")]


# ---------------------------------------------------------------------------- results
class Result:
    """what a check run found; turned into evidence + exit status by finish()"""

    def __init__(self, prop, tier):
        self.prop, self.tier = prop, tier
        self.t0 = time.time()
        self.obligations = 0
        self.discharged = 0
        self.theorems = {}
        self.tie_broken = []  # names of theorems / correspondences that no longer check
        self.violations = []  # (description, replay dict)
        self.known = []
        self.cov = {"evaluations": 0, "distinct_nontrivial": 0, "samples": [], "traces_validated_against_impl": 0}
        self.distinct = set()
        self.notes = []
        self.assumptions = []
        self.trusted = []
        self.rule = ""
        self.extra = {}

    def count(self, key, nontrivial=True, sample=None):
        self.cov["evaluations"] += 1
        if nontrivial:
            self.distinct.add(key)
        if sample is not None and len(self.cov["samples"]) < 6:
            self.cov["samples"].append(sample)


def load_known():
    p = os.path.join(VERIF, "known_findings.json")
    if not os.path.exists(p):
        return []
    return json.load(open(p)).get("findings", [])


def match_known(prop, replay):
    """a violation is 'known' iff an entry with status 'known' for this property has a signature whose
    every key/value occurs in the replay's 'signature' dict"""
    sig = replay.get("signature", {})
    for f in load_known():
        if f.get("property") != prop or f.get("status") != "known":
            continue
        want = f.get("signature", {})
        if want and all(sig.get(k) == v for k, v in want.items()):
            return f
    return None


def write_replay(prop, name, data):
    os.makedirs(REPLAYS, exist_ok=True)
    path = os.path.join(REPLAYS, f"{prop}_{name}.json")
    with open(path, "w") as f:
        json.dump(data, f, indent=1, default=str)
    return path


def finish(res, checker_cmd):
    """print KNOWN-FINDING / VIOLATION lines, write evidence, return exit code"""
    status = 0
    printed = set()
    nviol = 0
    for desc, replay in res.violations:
        kf = match_known(res.prop, replay)
        if kf is not None:
            line = f"KNOWN-FINDING: property={res.prop} {kf.get('id', '')} {kf.get('what', desc)}"
            if line not in printed:
                print(line)
                printed.add(line)
            res.known.append(kf.get("id", desc))
            continue
        nviol += 1
        replay.setdefault("seed", seed())
        replay.setdefault("tier", res.tier)
        replay.setdefault("replay_how", f"VERIF_SEED={seed()} ./check {res.prop} --tier {res.tier} regenerates this case deterministically; "
                          f"./check {res.prop} --replay <this file> re-runs that and reports whether the same failing input fails again")
        path = write_replay(res.prop, f"violation_{nviol}", replay)
        suffix = "" if replay.get("failing_input") is not None else " no-failing-input-found"
        print(f"VIOLATION property={res.prop} replay={os.path.relpath(path, VERIF)}{suffix}")
        print("  " + desc[:300])
        status = 1
    cov = dict(res.cov)
    cov["distinct_nontrivial"] = len(res.distinct)
    cov["rule"] = res.rule
    cov["obligations"] = res.obligations
    cov["discharged"] = res.discharged
    cov["checker_cmd"] = checker_cmd
    cov["trusted_base"] = res.trusted
    cov["theorems"] = res.theorems
    cov["tie_broken"] = res.tie_broken
    cov["known_findings_reported"] = res.known
    cov["notes"] = res.notes
    cov.update(res.extra)
    if not cov["samples"]:
        cov["samples"] = ["(no case generated: the build failed before the correspondence ran)"]
    ev = {
        "property_id": res.prop,
        "tier": res.tier,
        "seed": seed(),
        "level": "proof",
        "coverage": cov,
        "assumptions": res.assumptions,
        "wall_s": round(time.time() - res.t0, 2),
        "violations": nviol,
    }
    os.makedirs(EVID, exist_ok=True)
    with open(os.path.join(EVID, f"{res.prop}.json"), "w") as f:
        json.dump(ev, f, indent=1, default=str)
    print(f"{res.prop} tier={res.tier} seed={seed()} obligations={res.obligations} discharged={res.discharged} "
          f"cases={cov['evaluations']} distinct={cov['distinct_nontrivial']} violations={nviol} "
          f"known={len(res.known)} wall={ev['wall_s']}s")
    return status


BASE_TRUSTED = [
    "Lean 4.33 kernel; axioms allowed: propext, Classical.choice, Quot.sound (audited with #print axioms on every run)",
    "no sorry/admit/native_decide/bv_decide/own axioms (source scan on every run)",
    "tier-A translator /verif/translator/py2lean.py and its stated Python/numpy semantics (//, % as floor division for positive divisors, round = half-even, np.isclose defaults)",
    "tier-B correspondence harness (exact comparison for integers/indices/booleans/exception classes; |impl-model| <= 1e-9*(1+scale) for floats); float rounding is not modelled",
    "numpy/scipy/attrs/multiprocessing are modelled, not verified",
]


def needed_gen_groups(modules):
    """names of the tier-A groups (`IbicusModel.Gen.<Name>`) imported, directly or transitively, by the given lake modules"""
    import re

    seen, todo, groups = set(), list(modules), set()
    while todo:
        m = todo.pop()
        if m in seen or not m.startswith("IbicusModel"):
            continue
        seen.add(m)
        if m.startswith("IbicusModel.Gen."):
            groups.add(m.split(".")[2])
            continue
        path = os.path.join(LEAN, *m.split(".")) + ".lean"
        if not os.path.exists(path):
            continue
        todo.extend(re.findall(r"^import (IbicusModel\.\S+)", open(path).read(), re.M))
    return groups


def lean_phase(res, prop, gen_groups, targets, extra_modules=()):
    """regenerate Gen/, build the property's modules, audit axioms, scan sources.
    Fills res.obligations/discharged/theorems/tie_broken. returns True iff every obligation checks."""
    import gen as gen_mod

    ok = True
    # regeneration and build under ONE exclusive lock: a concurrent run must not rewrite Gen/ between the two
    with open(LOCK, "w") as lk:
        fcntl.flock(lk, fcntl.LOCK_EX)
        # every tier-A group the property's modules import, directly or transitively, is regenerated from the current
        # tree — not only the property's own groups: a theorem that rests on another property's `Gen = Model` equality
        # is re-checked against what the code says now as well (and a fresh checkout without Gen/ files builds)
        gen_groups = sorted(set(gen_groups or ()) | needed_gen_groups(list(targets) + [f"IbicusModel.Audit.{prop}"]))
        if gen_groups:
            errs = gen_mod.regenerate(gen_groups)
            for g, e in errs.items():
                for x in e:
                    res.tie_broken.append(f"translator {g}: {x}")
                    ok = False
        built, log = lake_build(targets, have_lock=True)
    if not built:
        ok = False
        decls = failing_decls(log) or ["lake build failed: " + log[-300:]]
        for d in decls:
            res.tie_broken.append("proof obligation no longer checks: " + d)
    expected = audit_expected(prop)
    res.obligations = len(expected)
    if built:
        thms, bad, raw = audit_axioms(prop)
        res.theorems = thms
        res.discharged = sum(1 for n in expected if n in thms and all(a in ALLOWED_AXIOMS for a in thms[n]))
        for b in bad:
            res.tie_broken.append("axiom audit: " + b)
            ok = False
        missing = [n for n in expected if n not in thms]
        if missing:
            res.tie_broken.append(f"audit did not report {missing}")
            ok = False
    hits = scan_forbidden(lean_sources(list(targets) + [f"IbicusModel.Audit.{prop}"] + list(extra_modules)))
    for h in hits:
        res.tie_broken.append("forbidden token: " + h)
        ok = False
    return ok


def generic_replay(mod, data):
    """re-run the check with the recorded seed / tier and report whether the recorded failing input fails again"""
    os.environ["VERIF_SEED"] = str(data.get("seed", 0))
    res = Result(mod.PROP, data.get("tier", "quick"))
    mod.run(res.tier, res)
    want = data.get("failing_input")
    for desc, rp in res.violations:
        if rp.get("failing_input") == want or (want is None and rp.get("failing_input") is None):
            print(f"REPRODUCED property={mod.PROP}: {desc[:300]}")
            return 1
    print(f"not reproduced: property={mod.PROP} (the recorded input no longer fails; {len(res.violations)} other violations)")
    return 0
