"""C04 — unit-change equivariance for unbounded variables (K vs degC vs degF).

Decided by the theorems of lean/IbicusModel/Props/C04.lean (per-window transfer functions of the eight debiasers with
tas-like settings and their lifts to every window mode).  The model is tied to /repo on every run by
  * tier A: GEN=["Debiasers", "Config"] (LinearScaling / DeltaChange kernels and ISIMIP's has_* properties regenerated from
    the source, `Gen = Model` proved; Props/C04Gen.lean: the model's has_* are the generated ones, all false for -+inf),
  * tier B: harness/debiasers_corr.correspondence (seven debiasers) and harness/isimip_corr.correspondence (ISIMIP,
    unbounded configurations) — real per-window code vs the Lean drivers on the same dyadic inputs,
and the property itself is tested on the real code (the failing-input search): apply_location on (obs, H, F) and on
(a*obs+b, a*H+b, a*F+b) for K / degC / degF style maps, every debiaser, window modes on and off; part of the cases go
through the real `apply` on small grids with integer / float32 / float64 (and mixed) inputs — the result must be
floating point and equivariant ("for all series" includes whole-Kelvin integer model output); a second batch drives `apply` in
every other call form a user legitimately can (failsafe on / off, serial / parallel with 1..4 processes, progress bar, every accepted
time encoding or none, every memory layout, data originally in K or degC, other debiasers constructed before) — see CALL FORMS; a third
batch runs apply_location on atypical series (gaps: NaN / inf in different numbers per series; series that hardly vary, so that spread /
magnitude differs by orders of magnitude between the units; units with huge / tiny numbers) — see ATYPICAL SERIES.
"""
import datetime
from fractions import Fraction
import random
import warnings

import numpy as np

from harness import common as C
from harness import debiasers_corr as DCORR
from harness import isimip_corr as ICORR
from harness import probes

PROP = "C04"
TARGETS = ["IbicusModel.Props.C04", "IbicusModel.Props.C04Gen"]
GEN = ["Debiasers", "Config"]
TARGETS += ["IbicusModel.Props.Capstone"]  # capstone: C04 stated on the composition of the regenerated pieces (loop spec ∘ per-window program ∘ grid map); the audit imports it
GEN += ["Loops", "GridLoops", "DebWin", "Debiasers", "IsimipStep6"]  # the groups the capstone composes (lean_phase regenerates every transitively imported group anyway)

# the unit maps of the brief: a in {1, 9/5, 5/9, 2.5} x b in {0, -273.15, 32, 1e3} (identity excluded)
MAPS = [(a, b) for a in (1.0, 9 / 5, 5 / 9, 2.5) for b in (0.0, -273.15, 32.0, 1e3) if not (a == 1.0 and b == 0.0)]
RESCALING_MAPS = [m for m in MAPS if m[0] != 1.0]
SCALES = [9 / 5, 5 / 9, 2.5, 1000.0, 1 / 86400]  # pure rescalings for the multiplicative forms
REL_TOL = 1e-8
TIES = {"auto_bins": 0}

UNBOUNDED_ISIMIP = ["tas_detr", "tas_nodetr", "tas_ks", "tas_nosigtest", "tas_npqm", "tas_hazen", "tas_ela"]


# ------------------------------------------------------------------ configurations of the oracle
def _configs():
    """name -> (factory(kw) -> debiaser, kind) ; kind in {"rw", "dc", "isimip"}; all tas settings"""
    import scipy.stats

    from ibicus.debias import (CDFt, DeltaChange, ECDFM, ISIMIP, LinearScaling, QuantileDeltaMapping, QuantileMapping,
                               ScaledDistributionMapping)

    def mk(cls, **fixed):
        return lambda **kw: cls.from_variable("tas", **fixed, **kw)

    yrs_on = dict(running_window_mode_over_years_of_cm_future=True, running_window_over_years_of_cm_future_length=3,
                  running_window_over_years_of_cm_future_step_length=1)
    yrs_off = dict(running_window_mode_over_years_of_cm_future=False)
    return {
        "LinearScaling": (mk(LinearScaling), "rw"),
        "DeltaChange": (mk(DeltaChange), "dc"),
        "QuantileMapping": (mk(QuantileMapping), "rw"),
        "QuantileMapping-nonparametric": (mk(QuantileMapping, mapping_type="nonparametric"), "rw"),
        "QuantileMapping-no_detrending": (mk(QuantileMapping, detrending="no_detrending"), "rw"),
        "ECDFM-norm": (mk(ECDFM, distribution=scipy.stats.norm), "rw"),
        "QuantileDeltaMapping-years": (mk(QuantileDeltaMapping, **yrs_on), "rw"),
        "QuantileDeltaMapping-default": (mk(QuantileDeltaMapping), "rw"),
        "QuantileDeltaMapping-noyears": (mk(QuantileDeltaMapping, **yrs_off), "rw"),
        "ScaledDistributionMapping": (mk(ScaledDistributionMapping), "rw"),
        "CDFt-years": (mk(CDFt, **yrs_on), "rw"),
        "CDFt-default": (mk(CDFt), "rw"),
        "CDFt-noyears": (mk(CDFt, **yrs_off), "rw"),
        "CDFt-hazen": (mk(CDFt, iecdf_method="hazen", ecdf_method="linear_interpolation", **yrs_off), "rw"),
        "ISIMIP": (mk(ISIMIP), "isimip"),
        "ISIMIP-nonparametric_qm": (mk(ISIMIP, nonparametric_qm=True), "isimip"),
        # non-default ecdf_method: histogram cdf with numpy's `auto` bins (scale-equivariant bin-width estimators);
        # these configurations are run with rescaling maps (a != 1): a bin rule in data units survives a pure shift
        "CDFt-kernel_density": (mk(CDFt, ecdf_method="kernel_density", **yrs_off), "rw"),
        "CDFt-kernel_density-years": (mk(CDFt, ecdf_method="kernel_density", **yrs_on), "rw"),
        "QuantileDeltaMapping-kernel_density": (mk(QuantileDeltaMapping, ecdf_method="kernel_density", **yrs_off), "rw"),
        "ISIMIP-kernel_density": (mk(ISIMIP, ecdf_method="kernel_density"), "isimip"),
        "ISIMIP-kernel_density-nonparametric_qm": (mk(ISIMIP, ecdf_method="kernel_density", nonparametric_qm=True), "isimip"),
    }


def _mult_configs():
    from ibicus.debias import DeltaChange, LinearScaling

    return {
        "LinearScaling-multiplicative": (lambda **kw: LinearScaling(delta_type="multiplicative", **kw), "rw"),
        "DeltaChange-multiplicative": (lambda **kw: DeltaChange(delta_type="multiplicative", **kw), "dc"),
    }


# ------------------------------------------------------------------ data
def gen_data(seed, multi_year, base, cal="any"):
    """three dated tas-like series from one numpy seed. base = "K" | "C" (unit of the original data) | "pos" (positive,
    for the multiplicative forms). multi_year: the future period spans several years (every 4th day) so that year
    windows of CDFt / QDM are several.  cal: "leap" = obs and cm_future contain a 31 December of a leap year (366 days
    of year present), "noleap" = they lie entirely in non-leap years (365 days of year), "any" = random start"""
    nprs = np.random.RandomState(seed)
    y0 = 1960 + int(nprs.randint(0, 100))
    sO = datetime.date(y0 - 25, 1 + int(nprs.randint(0, 12)), 1 + int(nprs.randint(0, 28)))
    sF = datetime.date(y0, 1 + int(nprs.randint(0, 12)), 1 + int(nprs.randint(0, 28)))
    nO, nF = 700 + int(nprs.randint(0, 300)), 600 + int(nprs.randint(0, 400))
    if cal in ("leap", "noleap"):
        y0 = 1964 + 4 * int(nprs.randint(0, 23)) + (1 if cal == "noleap" else 0)  # leap year / the year after one (2100 not reached)
        sO = datetime.date(y0 - 24, 1, 1) + datetime.timedelta(days=int(nprs.randint(0, 100)))
        sF = datetime.date(y0, 1, 1) + datetime.timedelta(days=int(nprs.randint(0, 100)))
    dO = probes.dates_from(sO, nO)
    dH = probes.dates_from(datetime.date(y0 - 26, 1, 1), 730 + int(nprs.randint(0, 300)))
    if multi_year:
        dF = probes.dates_from(datetime.date(y0, 1 + int(nprs.randint(0, 12)), 1), 366 * 7)[:: 4]
    else:
        dF = probes.dates_from(sF, nF)
    off = {"K": 273.15, "C": 0.0, "pos": 273.15}[base]
    o = probes.tas_like(nprs, dO, off + 9.0, 3.0)
    h = probes.tas_like(nprs, dH, off + 11.5, 4.5)
    f = probes.tas_like(nprs, dF, off + 14.0, 4.0) + 0.3 * np.arange(dF.size) / 365.25 * (4 if multi_year else 1)
    return o, h, f, dO, dH, dF


# (running_window_step_length, calendar kind): default and non-default step lengths, in particular those with
# (#days of year present) % step == 1 in a leap (366: 5, 73) / non-leap (365: 7, 13, 91) span; None = drawn per case.
# 13 entries (prime) so that every entry meets every configuration / mode as the case counter advances
STEP_CAL = [(1, "any"), (5, "leap"), (7, "noleap"), (13, "noleap"), (31, "any"), (73, "leap"), (91, "noleap"), (None, "any"),
            (5, "noleap"), (7, "leap"), (61, "any"), (15, "leap"), (73, "noleap")]


def window_plan(wk):
    S, cal = STEP_CAL[wk % len(STEP_CAL)]
    if S is None:
        S = 2 + (wk * 37) % 120
    # the window is at least a month long: every window then holds values of all three series (an empty window sample is the
    # `undef` domain of the window functions — NaN for a reason other than a step nobody wrote)
    L = max(S, 31) + [0, 30, 60][(wk // len(STEP_CAL)) % 3]
    return S, L, cal


def window_kwargs(mode, rng_state):
    if mode == "nowindow":
        return dict(running_window_mode=False)
    S, L, _cal = window_plan(rng_state)
    return dict(running_window_mode=True, running_window_length=L, running_window_step_length=S)


# ------------------------------------------------------------------ construction sequences (state shared between instances)
CLASS_VARS = {  # variables each debiaser class has (experimental) default settings for
    "LinearScaling": ["pr", "tasmin", "tasmax", "hurs", "psl", "rlds", "rsds", "sfcwind"],
    "DeltaChange": ["pr", "tasmin", "tasmax", "hurs", "psl", "rlds", "rsds", "sfcwind"],
    "QuantileMapping": ["pr", "hurs", "psl", "rlds", "sfcwind", "tasmin", "tasmax"],
    "ScaledDistributionMapping": ["pr", "tasmin", "tasmax"],
    "CDFt": ["pr", "tasmin", "tasmax", "hurs", "psl", "rlds", "rsds", "sfcwind", "tasrange", "tasskew"],
    "ECDFM": ["pr", "hurs", "psl", "rlds", "sfcwind", "tasmin", "tasmax"],
    "QuantileDeltaMapping": ["pr", "hurs", "psl", "rlds", "sfcwind", "tasmin", "tasmax"],
    "ISIMIP": ["hurs", "pr", "prsnratio", "psl", "rsds", "rlds", "sfcwind", "tasrange", "tasskew"],
}


def make_prelude(name, k):
    """debiasers constructed (and thrown away) in this process before the one under test: two of the same class for other
    variables and one of another class, rotating with the case counter — `from_variable` must not leave anything behind"""
    cls = name.split("-")[0]
    vs = CLASS_VARS[cls]
    other = list(CLASS_VARS)[(k // 3) % len(CLASS_VARS)]
    pre = [[cls, vs[k % len(vs)]], [cls, vs[(k // 2 + 3) % len(vs)]], [other, CLASS_VARS[other][(k // 5) % len(CLASS_VARS[other])]]]
    return pre if k % 4 != 3 else []  # a quarter of the cases without any (the debiaser under test built first)


def run_prelude(prelude):
    import ibicus.debias as D

    for cls, var in prelude or []:
        with warnings.catch_warnings():
            warnings.simplefilter("ignore")
            try:
                getattr(D, cls).from_variable(var)
            except Exception:  # noqa: BLE001  (a variable a class cannot be built for is not this check's business)
                pass


def canon_vars(obj):
    """a comparable snapshot of a debiaser's configuration"""
    import attrs

    def c(v):
        if isinstance(v, (int, float, str, bool, type(None))):
            return repr(v)
        if isinstance(v, (list, tuple)):
            return [c(x) for x in v]
        if isinstance(v, dict):
            return {str(k2): c(x) for k2, x in v.items()}
        if attrs.has(type(v)):
            return {a.name: c(getattr(v, a.name, None)) for a in attrs.fields(type(v))}
        return type(v).__module__ + "." + type(v).__qualname__

    return {k2: c(v) for k2, v in sorted(vars(obj).items())}


def fresh_process_config(name, kw):
    """configuration of the same debiaser built FIRST in a fresh interpreter (diagnosis of a hit only)"""
    import json
    import subprocess
    import sys

    code = ("import json,sys,warnings; warnings.simplefilter('ignore'); sys.path.insert(0, %r); from harness import c04; "
            "f,_=({**c04._configs(), **c04._mult_configs()})[%r]; print('CFG'+json.dumps(c04.canon_vars(f(**%r))))" % (C.VERIF, name, kw))
    try:
        out = subprocess.run([sys.executable, "-c", code], capture_output=True, text=True, timeout=120).stdout
        return json.loads([ln for ln in out.split("\n") if ln.startswith("CFG")][-1][3:])
    except Exception:  # noqa: BLE001
        return None


def config_leak(name, factory, kw):
    """which attributes of the debiaser built now (after everything this process constructed) differ from a fresh process"""
    fresh = fresh_process_config(name, kw)
    if fresh is None:
        return None
    with warnings.catch_warnings():
        warnings.simplefilter("ignore")
        now = canon_vars(factory(**kw))
    return {k2: {"fresh_process": fresh.get(k2), "this_process": now.get(k2)} for k2 in sorted(set(fresh) | set(now)) if fresh.get(k2) != now.get(k2)}


class AutoBinTieSpy:
    """Discontinuity guard for ecdf_method="kernel_density": numpy's `bins="auto"` takes ceil(range / width) with a
    scale-equivariant width, i.e. the bin count is ceil(v) with v unit-free in exact arithmetic.  When v is an exact
    integer (Sturges: log2(n) + 1 at n = 2^k; the sqrt cap 2*sqrt(n) at a perfect square n) the float quotient lands on
    either side of it depending on the unit — a float-rounding discontinuity, not a property of the exact map.
    The spy flags such calls (only calls with bins="auto"; a fixed or data-unit bin rule is never excused)."""

    def __enter__(self):
        self.tie = False
        self.auto_calls = 0
        self._orig = np.histogram

        def wrapped(x, bins=10, *a, **k):
            if isinstance(bins, str) and bins == "auto":
                self.auto_calls += 1
                xs = np.asarray(x, dtype=float).ravel()
                xs = xs[np.isfinite(xs)]
                if xs.size:
                    v = self._count(xs)
                    if v is None or abs(v - round(v)) <= 1e-9 * max(1.0, abs(v)):
                        self.tie = True
            return self._orig(x, bins, *a, **k)

        np.histogram = wrapped
        return self

    @staticmethod
    def _count(xs):
        lo, hi = float(xs.min()), float(xs.max())
        if hi == lo:
            return 0.5  # numpy expands the range; one bin, no rounding question
        try:
            import numpy.lib._histograms_impl as hi_mod

            width = hi_mod._hist_bin_auto(xs, (lo, hi))
            return (hi - lo) / width if width else 0.5
        except Exception:  # noqa: BLE001  (private numpy API unavailable: fall back to the sizes at which the estimators are integers)
            n = xs.size
            return None if (n & (n - 1) == 0 or int(round(n ** 0.5)) ** 2 == n) else 0.5

    def __exit__(self, *exc):
        np.histogram = self._orig
        return False


def run_pair(factory, kw, data, a, b):
    """(g(f(x)), f(g(x))) on the real code; a debiaser instance per run (no shared state)"""
    o, h, f, dO, dH, dF = data
    with warnings.catch_warnings(), np.errstate(all="ignore"):
        warnings.simplefilter("ignore")
        base = factory(**kw).apply_location(o.copy(), h.copy(), f.copy(), dO, dH, dF)
        moved = factory(**kw).apply_location(a * o + b, a * h + b, a * f + b, dO, dH, dF)
    return a * np.asarray(base, dtype=float) + b, np.asarray(moved, dtype=float)


def deviation(want, got, data, a, b):
    """returns (n_bad, max relative deviation, first bad index, scale)"""
    o, h, f = data[:3]
    scale = max(1.0, float(np.max(np.abs(a * np.concatenate([o, h, f]) + b))))
    if want.shape != got.shape:
        return want.size, float("inf"), 0, scale
    both_nan = np.isnan(want) & np.isnan(got)
    same_inf = np.isinf(want) & np.isinf(got) & (np.sign(want) == np.sign(got))
    with np.errstate(all="ignore"):
        dev = np.abs(want - got) / scale
    dev[both_nan | same_inf] = 0.0
    dev[~np.isfinite(dev)] = np.inf
    bad = np.where(dev > REL_TOL)[0]
    return int(bad.size), float(np.max(dev)) if dev.size else 0.0, int(bad[0]) if bad.size else -1, scale


def oracle_case(name, kind, factory, mode, seed, a, b, base, multi_year, wk, prelude=None):
    cal = window_plan(wk)[2] if mode == "window" else "any"
    data = gen_data(seed, multi_year, base, cal)
    kw = window_kwargs(mode, wk)
    run_prelude(prelude)
    with AutoBinTieSpy() as spy:
        want, got = run_pair(factory, kw, data, a, b)
    nbad, mx, first, scale = deviation(want, got, data, a, b)
    if nbad and spy.tie:
        # the float evaluation of numpy's auto bin count sat on an integer in some window: either side is legitimate
        TIES["auto_bins"] += 1
        nbad, mx = 0, 0.0
    # a time step that no window wrote: NaN under the verification hook (IBICUS_VERIF=1 NaN-fills fresh result buffers); without the
    # hook it is 0.0 (ISIMIP: zeros_like) or uninitialised memory in EVERY unit, and 0.0 != a*0.0+b — a failing input of C04
    un = np.where(np.isnan(want) | np.isnan(got))[0]
    unassigned = int(un.size)
    if unassigned and not nbad:
        nbad, mx, first = unassigned, float("inf"), int(un[0])
    return nbad, mx, first, scale, unassigned, (want, got), kw


# ------------------------------------------------------------------ the same property through the real `apply` (grids, dtypes)
INT_MAPS = [(1, -273), (2, -500), (1, 1000), (3, -800)]  # keep an integer-typed series integer-typed
DTYPE_COMBOS = [  # (obs, cm_hist, cm_future)
    ("f8", "f8", "i4"), ("i8", "i4", "i8"), ("f8", "f4", "i4"), ("i4", "f8", "i2"), ("f8", "f8", "i8"),
    ("f8", "f8", "f8"), ("f4", "f4", "f4"), ("f4", "f8", "f8"), ("f8", "f4", "f8"),
]
GRID_SHAPES = [(1, 1), (1, 2), (2, 1)]
# Integer-valued (tied) or single-precision data: only the transfer functions that are continuous in the data are compared
# (for the rank / interpolation based ones a tie sits on a float-rounding discontinuity of np.interp / np.quantile, and
# single precision flips step-function decisions) — measured on /repo: <= 5e-13 (64 bit), <= 1.5e-4 absolute (float32)
CONTINUOUS = ["LinearScaling", "DeltaChange", "QuantileMapping", "ECDFM-norm", "ScaledDistributionMapping"]
GRID_ALL = CONTINUOUS + ["QuantileDeltaMapping-noyears", "CDFt-noyears", "CDFt-years", "ISIMIP"]
F32_REL_TOL = 2e-5


def _unit(x, a, b):
    """a*x+b in the array's own dtype (integer maps keep integer arrays integer)"""
    if np.issubdtype(x.dtype, np.integer):
        return (int(a) * x + int(b)).astype(x.dtype)
    return x.dtype.type(a) * x + x.dtype.type(b)


def grid_case(name, factory, case):
    """g(apply(obs,H,F)) vs apply(g obs, g H, g F) on a small grid with the given dtypes; returns (problem | None, max dev)"""
    nprs = np.random.RandomState(case["np_seed"])
    gx, gy = case["grid"]
    n = case["n"]
    start = datetime.date(1990 + case["np_seed"] % 30, 1 + case["np_seed"] % 12, 1)
    dO, dH, dF = probes.dates_from(start, n), probes.dates_from(start, n), probes.dates_from(start + datetime.timedelta(days=7300), n)

    def series(dates, mean, sd):
        return np.stack([np.stack([probes.tas_like(nprs, dates, mean + 0.7 * i - 0.4 * j, sd) for j in range(gy)], axis=1) for i in range(gx)], axis=1)

    # `call` (absent in the cases of the first batch = the default call form): HOW the public `apply` is driven — see CALL FORMS below
    call = case.get("call") or {}
    shift = float(call.get("base_shift", 0.0))  # 0 = the data are in K, -273.15 = the original data are in degC
    o, h, f = series(dO, 272.0 + shift, 4.0), series(dH, 274.5 + shift, 5.0), series(dF, 276.0 + shift, 5.0)
    arrs = [np.rint(x).astype(dt) if dt[0] == "i" else x.astype(dt) for x, dt in zip((o, h, f), case["dtypes"])]
    a, b = case["a"], case["b"]
    kw = dict(running_window_mode=False) if case["mode"] == "nowindow" else dict(running_window_mode=True, running_window_length=61, running_window_step_length=31)
    tkw = dict(time_obs=dO, time_cm_hist=dH, time_cm_future=dF, progressbar=False)
    layouts = call.get("layouts") or ["C", "C", "C"]
    if call:
        from harness import gridprobes as GP

        tk = call.get("time_kinds")
        if tk == "none":  # no time arrays given: the library infers a daily axis itself (and says so in a warning)
            tkw = {}
        elif tk:
            tkw = {key: probes.present(d, kind) for key, d, kind in zip(("time_obs", "time_cm_hist", "time_cm_future"), (dO, dH, dF), tk)}
        tkw.update(progressbar=bool(call.get("progressbar", False)), parallel=bool(call.get("parallel", False)), failsafe=bool(call.get("failsafe", False)))
        if call.get("nr_processes") is not None:
            tkw["nr_processes"] = int(call["nr_processes"])
        run_prelude(call.get("constructed_before"))

        def lay(xs):
            return [GP.relayout(x, kind) for x, kind in zip(xs, layouts)]
    else:
        def lay(xs):
            return [x.copy() for x in xs]
    import contextlib
    import os

    with warnings.catch_warnings(), np.errstate(all="ignore"), open(os.devnull, "w") as devnull, contextlib.redirect_stderr(devnull):  # tqdm -> stderr
        warnings.simplefilter("ignore")
        base = factory(**kw).apply(*lay(arrs), **tkw)
        moved = factory(**kw).apply(*lay([_unit(x, a, b) for x in arrs]), **tkw)
    base, moved = np.asarray(base), np.asarray(moved)
    dtype_problem = ""
    for nm, out in (("apply(obs, H, F)", base), ("apply(g obs, g H, g F)", moved)):
        if not np.issubdtype(out.dtype, np.floating):
            dtype_problem = (f"{nm} returned dtype {out.dtype}: the debiased values are not floating point (integer input was not converted, "
                             f"results are truncated, and truncation does not commute with the unit change); ")
            break
    want, got = a * base.astype(float) + b, moved.astype(float)
    scale = max(1.0, max(float(np.max(np.abs(x.astype(float)))) for x in arrs), max(float(np.max(np.abs(a * x.astype(float) + b))) for x in arrs))
    tol = (F32_REL_TOL if any(dt == "f4" for dt in case["dtypes"]) else REL_TOL) * scale
    if want.shape != got.shape:
        return f"shapes differ {want.shape} / {got.shape}", float("inf"), None
    dev = np.abs(want - got)
    dev[np.isnan(want) & np.isnan(got)] = 0.0
    dev[~np.isfinite(dev)] = np.inf
    bad = np.argwhere(dev > tol)
    mx = float(dev.max()) if dev.size else 0.0
    if dtype_problem and not bad.size:
        return dtype_problem + f"max deviation {mx:.3g}", mx, {"result_dtype": str(base.dtype)}
    if bad.size:
        i = tuple(int(v) for v in bad[0])
        return (dtype_problem + f"g(apply(x)) != apply(g(x)) at {len(bad)} of {dev.size} values, max deviation {mx:.3g} (tolerance {tol:.3g}); first {i}: "
                f"g(f(x))={want[i]!r} f(g(x))={got[i]!r}"), mx, {"index": list(i), "g_of_f": float(want[i]), "f_of_g": float(got[i])}
    return None, mx, None


def grid_oracle(rng, n_cases, res, hits, worst):
    cfgs = _configs()
    for k in range(n_cases):
        dts = DTYPE_COMBOS[k % len(DTYPE_COMBOS)]
        integer = any(dt[0] == "i" for dt in dts)
        restricted = integer or any(dt == "f4" for dt in dts)
        pool = CONTINUOUS if restricted else GRID_ALL
        name = pool[(k // len(DTYPE_COMBOS) + k) % len(pool)]
        a, b = INT_MAPS[(k // 3) % len(INT_MAPS)] if integer else MAPS[(k * 5) % len(MAPS)]
        case = {"config": name, "mode": ["nowindow", "window"][(k // 2) % 2], "a": a, "b": b, "dtypes": list(dts), "grid": list(GRID_SHAPES[k % 3]),
                "n": 400 + 40 * (k % 7), "np_seed": rng.randint(0, 2**31 - 2), "via": "apply"}
        factory, _kind = cfgs[name]
        try:
            problem, mx, detail = grid_case(name, factory, case)
        except Exception as ex:  # noqa: BLE001
            problem, mx, detail = f"the run raised {type(ex).__name__}: {str(ex)[:200]}", float("inf"), None
        key = "apply:" + name + ":" + "/".join(dts)
        worst[key] = max(worst.get(key, 0.0), mx if np.isfinite(mx) else 1e300)
        res.count(("apply", name, case["mode"], a, b, tuple(dts), tuple(case["grid"])), True, sample={**case, "max_abs_dev": mx})
        if problem:
            hits.append((f"{name} via apply [{case['mode']}, grid {case['grid']}, dtypes obs/cm_hist/cm_future = {'/'.join(dts)}] a={a} b={b}: {problem}",
                         case, detail))


# ------------------------------------------------------------------ CALL FORMS of the public `apply`
# Quantifier covered: "for all series ... all debiasers with their tas settings, running windows on or off" is a statement about what
# the PUBLIC entry point returns.  None of the ways a user may legitimately drive `apply` is a guard of the property, so it has to hold
# for each of them: failsafe on / off (documented to matter only at a location that raises — none does here), serial / parallel (any
# number of processes), progress bar on / off, every accepted encoding of the time axes (or none: the library infers one), every
# memory layout numpy hands out for the three arrays, data originally in K or in degC, and whatever was constructed before.  The first
# batch (grid_oracle) only ever used the default call form; these cases rotate the others (a few of each per run).
CALL_TIME_KINDS = ["date", "M8D", "datetime", "none", "M8ns", "plain", "datetime_tz", "M8h", "M8s"]
CALL_MAPS = {  # base_shift -> unit maps (zero / the "reasonable" Kelvin range on one side of the map only, and on both)
    0.0: [(1.0, -273.15), (9 / 5, -459.67), (2.5, 0.0), (5 / 9, 1e3), (1.0, 32.0), (9 / 5, 1e3)],
    -273.15: [(1.0, 273.15), (9 / 5, 32.0), (5 / 9, 255.3722222222222), (2.5, 0.0)],
}


def call_plan(k, name):
    from harness import gridprobes as GP

    parallel = k % 3 == 2
    tk0, tk1 = CALL_TIME_KINDS[k % 9], CALL_TIME_KINDS[(k // 2) % 9]
    return {
        "failsafe": (k + k // 9) % 2 == 0,  # decorrelated from the grid / configuration rotation
        "parallel": parallel,
        "nr_processes": [2, None, 3, 1][(k // 3) % 4] if parallel else None,  # None = the library default (4)
        "progressbar": k % 4 == 1,
        "layouts": [GP.LAYOUTS[(k + 1) % 5], GP.LAYOUTS[(k // 2 + 2) % 5], GP.LAYOUTS[(k // 3 + 3) % 5]],
        # obs / cm_future in one encoding, cm_hist possibly in another (the three axes are independent arguments)
        "time_kinds": "none" if tk0 == "none" else [tk0, "date" if tk1 == "none" else tk1, tk0],
        "base_shift": -273.15 if k % 5 == 3 else 0.0,
        "constructed_before": make_prelude(name, k),
    }


def call_form_oracle(rng, n_cases, res, hits, worst):
    cfgs = _configs()
    for k in range(n_cases):
        # mostly double precision (all configurations); every fourth case an integer / single-precision combination (continuous ones)
        dts = DTYPE_COMBOS[5] if k % 4 else DTYPE_COMBOS[(k // 4) % len(DTYPE_COMBOS)]
        integer = any(dt[0] == "i" for dt in dts)
        restricted = integer or any(dt == "f4" for dt in dts)
        pool = CONTINUOUS if restricted else GRID_ALL
        name = pool[(k * 2 + k // len(pool)) % len(pool)]
        call = call_plan(k, name)
        if restricted:
            call["base_shift"] = 0.0
        maps = INT_MAPS if integer else CALL_MAPS[call["base_shift"]]
        a, b = maps[(k // 2) % len(maps)]
        case = {"config": name, "mode": ["window", "nowindow"][(k // 2) % 2], "a": a, "b": b, "dtypes": list(dts), "grid": list([(2, 1), (1, 2), (2, 2), (1, 1)][k % 4]),
                "n": 400 + 40 * (k % 7), "np_seed": rng.randint(0, 2**31 - 2), "via": "apply", "call": call}
        factory, _kind = cfgs[name]
        try:
            problem, mx, detail = grid_case(name, factory, case)
        except Exception as ex:  # noqa: BLE001  (an exception of the code under test is a failing input, not a crash of the check)
            problem, mx, detail = f"the run raised {type(ex).__name__}: {str(ex)[:200]}", float("inf"), None
        key = "apply-call:" + name
        worst[key] = max(worst.get(key, 0.0), mx if np.isfinite(mx) else 1e300)
        form = call_text(call)
        res.count(("apply-call", name, case["mode"], a, b, call["failsafe"], call["parallel"], call["nr_processes"], call["progressbar"],
                   tuple(call["layouts"]), str(call["time_kinds"]), call["base_shift"]), True, sample={**case, "max_abs_dev": mx})
        for feat in (f"failsafe={call['failsafe']}", f"parallel={call['parallel']}", "time=" + (call["time_kinds"] if call["time_kinds"] == "none" else call["time_kinds"][0]),
                     "layout=" + call["layouts"][2], f"base_shift={call['base_shift']}"):
            CALL_COVERAGE[feat] = CALL_COVERAGE.get(feat, 0) + 1
        if problem:
            hits.append((f"{name} via apply({form}) [{case['mode']}, grid {case['grid']}, dtypes obs/cm_hist/cm_future = {'/'.join(dts)}, data in "
                         f"{'K' if call['base_shift'] == 0 else 'degC'}] a={a:g} b={b:g}: {problem}", case, detail))


CALL_COVERAGE = {}


# ---- MASKED INPUT (session 4, after seeded change C04-19): the unit change applied by *masked arithmetic* -------------------------------------
# A user who holds numpy masked arrays changes the unit with `x * a + b`; numpy leaves the raw buffer under masked cells untouched (it still
# holds the file's fill value).  `apply` documents that masked cells become NaN, so the outputs in the two units must still be related by the
# same map (NaN where NaN).  Own PRNG stream; the statement demanded is exactly C04's, on inputs whose masked cells are missing values.
MASKED_CONFIGS = ("LinearScaling", "DeltaChange", "QuantileMapping", "ECDFM")


def masked_oracle(rng, n_cases, res, hits, worst):
    from ibicus import debias as D
    for k in range(n_cases):
        name = MASKED_CONFIGS[k % len(MASKED_CONFIGS)]
        a, b = [(1.0, -273.15), (1.8, -459.67), (1.0, 273.15)][(k // len(MASKED_CONFIGS)) % 3]
        np_seed = rng.randint(0, 2**31 - 2)
        which = k % 3                      # the input that carries masked cells
        nprs = np.random.RandomState(np_seed)
        n, grid = 200 + 20 * (k % 5), (2, 1)
        base = [285.0, 287.0, 289.0]
        arrs = [np.ma.masked_array(base[i] + (3.0 + i) * nprs.standard_normal((n,) + grid)) for i in range(3)]
        cells = sorted(int(v) for v in nprs.choice(n, size=3, replace=False))
        arrs[which].data[cells, 0, 0] = -9999.0      # fill value under the mask, cell (0, 0) only: cell (1, 0) has no gap
        arrs[which][cells, 0, 0] = np.ma.masked
        conv = [x * a + b for x in arrs]              # masked arithmetic: raw buffer of masked cells is not converted
        case = {"config": name, "mode": "nowindow", "a": a, "b": b, "via": "apply-masked", "np_seed": np_seed, "n": n, "grid": list(grid),
                "masked_input": ["obs", "cm_hist", "cm_future"][which], "masked_time_steps": cells, "fill_value_under_mask": -9999.0}
        try:
            with warnings.catch_warnings():
                warnings.simplefilter("ignore")
                with np.errstate(all="ignore"):
                    outs = []
                    for args in (arrs, conv):   # a rejection of the missing values is equivariant when it happens in both units alike
                        try:
                            outs.append(np.asarray(getattr(D, name).from_variable("tas").apply(*args, progressbar=False), dtype=float))
                        except Exception as ex:  # noqa: BLE001
                            outs.append(type(ex).__name__)
            if isinstance(outs[0], str) or isinstance(outs[1], str):
                mx = 0.0
                problem = None if outs[0] == outs[1] else (f"the run in the original unit gave {outs[0] if isinstance(outs[0], str) else 'an array'}, "
                                                            f"in the new unit {outs[1] if isinstance(outs[1], str) else 'an array'}")
                raise StopIteration
            out1, out2 = outs
            want = out1 * a + b
            nanmis = int((np.isnan(want) != np.isnan(out2)).sum())
            both = np.isfinite(want) & np.isfinite(out2)
            mx = float(np.max(np.abs(want[both] - out2[both]))) if both.any() else 0.0
            tol = REL_TOL * max(1.0, float(np.max(np.abs(want[both]))) if both.any() else 1.0)
            problem = None
            if nanmis:
                problem = f"{nanmis} output entries are NaN in one unit and finite in the other"
            elif mx > tol:
                problem = f"output in the new unit deviates from a*out+b by {mx:.6g} (tolerance {tol:.3g})"
        except StopIteration:
            pass
        except Exception as ex:  # noqa: BLE001
            problem, mx = f"the run raised {type(ex).__name__}: {str(ex)[:200]}", float("inf")
        key = "apply-masked:" + name
        worst[key] = max(worst.get(key, 0.0), mx if np.isfinite(mx) else 1e300)
        res.count(("apply-masked", name, a, b, which), True, sample={**case, "max_abs_dev": mx})
        if problem:
            hits.append((f"{name} via apply on masked arrays ({case['masked_input']} has masked time steps {cells} at cell (0,0), unit changed by masked "
                         f"arithmetic) a={a:g} b={b:g}: {problem}", case, None))
    return n_cases



def call_text(call):
    return (f"failsafe={call.get('failsafe', False)}, parallel={call.get('parallel', False)}, nr_processes={call.get('nr_processes')}, "
            f"progressbar={call.get('progressbar', False)}, time axes {call.get('time_kinds')}, layouts {call.get('layouts')}")


# ------------------------------------------------------------------ ATYPICAL SERIES ("for all series")
# Quantifier covered: "for all series".  Every batch above draws complete, well-spread tas-like series (noise of 3-5 K around a seasonal
# cycle, values of a few hundred).  The statement has no such guard, and the library accepts (with at most a warning) series that
#   * "missing":   contain gaps — NaN (or +-inf) in obs, cm_hist and / or cm_future, in different numbers per series.  g(NaN) = NaN, so the
#                  statement reads: the two outputs are NaN at the same steps and related by g at the others; where the code raises in BOTH
#                  units there is no output to compare (counted, `undefined_in_both_units`), where it raises in ONE unit only the output
#                  exists in one unit and not in the other — a failing input;
#   * "narrow":    hardly vary — a spread of 1e-5 .. 0.3 K around some level (an ice-covered ocean cell, a smoothed climatology), in one, two
#                  or all three series, so that (spread / magnitude) differs by orders of magnitude between the two units; half of the cases
#                  pair the level with the unit map that brings it next to zero (271.35 K = -1.8 degC, 255.4 K = 0.05 degF) or away from it;
#   * "magnitude": are given in a unit in which the numbers are huge or tiny (Pa vs hPa, K vs mK, per-second vs per-day quantities of an
#                  unbounded variable): the whole data set is multiplied by a power of ten before the unit map is applied.
# The guards of DESIGN.md §4 stay in force: no series is exactly constant (fitted scales non-zero) and no window sample is empty.  Exact
# arithmetic vs floats: the unit map rounds each value to eps * |g(x)|; relative to a spread sigma that is a perturbation eps * scale / sigma
# of every standardised value, carried to the output with the output's own spread — the tolerance has this conditioning term beside the
# usual 1e-8 * scale (measured on /repo: the term is >= 300 x the deviation actually seen at sigma = 1e-5).
ATYP_SUBSETS = [("F",), ("H", "F"), ("H",), ("O",), ("O", "H", "F"), ("O", "F")]
ATYP_WINDOWS = [(61, 31), (91, 15), (45, 45), (31, 31)]
# (level in K, map that brings it next to zero) ; the reverse direction (data in degC next to zero -> K) via base "C"
ATYP_NEAR_ZERO = [(271.35, (1.0, -273.15)), (255.4, (9 / 5, -459.67)), (273.16, (1.0, -273.15)), (256.1, (9 / 5, -459.67)), (274.9, (1.0, -273.15))]
ATYP_LEVELS_K = [271.35, 283.0, 300.0, 255.4, 273.16]
ATYP_GAP_TOKENS = ["nan", "nan", "nan", "+inf", "nan", "-inf", "nan"]
ATYP_FACTORS = [100.0, 1e-3, 1e5, 1e-5, 1e3, 0.01]
# multiplicative forms (pure rescalings): (factor, a) — flux-like numbers (kg m-2 s-1 is ~3e-5 for 2.5 mm/day) and per-day <-> per-second style maps
ATYP_FLUX = [(1e-7, 1 / 86400), (1e-11, 1000.0), (1e-6, 1 / 86400), (1e-7, 1000.0), (1e-11, 2.5)]


def atyp_data(case):
    """the three dated series of an atypical-series case (a function of the case record alone: replayable)"""
    s = int(case["np_seed"])
    nprs = np.random.RandomState(s)
    n = int(case["n"])
    y0 = 1961 + s % 90
    dO = probes.dates_from(datetime.date(y0 - 25, 1 + s % 12, 1 + s % 28), n)
    dH = probes.dates_from(datetime.date(y0 - 26, 1 + (s // 12) % 12, 1), n + 37)
    dF = probes.dates_from(datetime.date(y0, 1 + (s // 7) % 12, 1 + (s // 3) % 28), n - 23)
    off = 0.0 if case["base"] == "C" else 273.15
    d = {"O": probes.tas_like(nprs, dO, off + 9.0, 3.0), "H": probes.tas_like(nprs, dH, off + 11.5, 4.5),
         "F": probes.tas_like(nprs, dF, off + 14.0, 4.0)}
    if case["kind"] == "narrow":
        for i, key in enumerate(case["subset"]):
            x = d[key]
            # the same shape (seasonal cycle + noise, tie-free), squeezed to the spread sigma around the level (+ a different offset per series)
            d[key] = (case["level"] + 0.37 * i * case["sigma"]) + case["sigma"] * (x - x.mean()) / x.std()
    elif case["kind"] == "magnitude":
        d = {key: case["factor"] * x for key, x in d.items()}
    elif case["kind"] == "missing":
        for key, count, token, layout in case["gaps"]:
            x = d[key]
            count = min(int(count), x.size - 40)
            if layout == "block":
                st = int(nprs.randint(0, x.size - count + 1))
                idx = np.arange(st, st + count)
            else:
                idx = nprs.choice(x.size, count, replace=False)
            x[idx] = {"nan": np.nan, "+inf": np.inf, "-inf": -np.inf}[token]
    return d["O"], d["H"], d["F"], dO, dH, dF


def atyp_judge(factory, kw, data, a, b):
    """f(g(x)) vs g(f(x)) with NaN / inf compared as values and exceptions compared as outcomes.
    returns (problem | None, max deviation / tolerance, detail, outcome tag)"""
    o, h, f, dO, dH, dF = data
    outs, raised = [], []
    with warnings.catch_warnings(), np.errstate(all="ignore"):
        warnings.simplefilter("ignore")
        for args in ((o.copy(), h.copy(), f.copy()), (a * o + b, a * h + b, a * f + b)):
            try:
                outs.append(np.asarray(factory(**kw).apply_location(*args, dO, dH, dF), dtype=float))
                raised.append(None)
            except Exception as ex:  # noqa: BLE001  (an outcome of the code under test, compared below)
                outs.append(None)
                raised.append(f"{type(ex).__name__}: {str(ex)[:160]}")
    if raised[0] and raised[1]:
        return None, 0.0, {"raised_in_both_units": raised}, "undefined_in_both_units"
    if raised[0] or raised[1]:
        which = "the original unit" if raised[0] else "the other unit"
        return (f"apply_location raises in {which} only ({raised[0] or raised[1]}) and returns a series in the other: the output exists in one unit and "
                f"not in the other"), float("inf"), {"raised": raised}, "raised_in_one_unit"
    with np.errstate(all="ignore"):
        want, got = a * outs[0] + b, outs[1]
    if want.shape != got.shape:
        return f"shapes differ {want.shape} / {got.shape}", float("inf"), None, "shape"
    fin = [x[np.isfinite(x)] for x in (a * o + b, a * h + b, a * f + b, o, h, f)]
    if any(x.size < 2 for x in fin):
        return None, 0.0, None, "no_finite_data"
    outfin = np.concatenate([want[np.isfinite(want)], got[np.isfinite(got)]])
    # no floor at 1: in a unit with tiny numbers (a flux per second) the tolerance has to be relative to the data as well; the roundings made
    # in the original unit arrive multiplied by a
    scale = max(max(float(np.max(np.abs(x))) for x in fin[:3]), abs(a) * max(float(np.max(np.abs(x))) for x in fin[3:]),
                float(np.max(np.abs(outfin))) if outfin.size else 0.0) or 1.0
    sigma_min = min(float(np.std(x)) for x in fin)
    out_spread = float(np.ptp(outfin)) if outfin.size else 0.0
    in_scale = max(float(np.max(np.abs(x))) for x in fin)
    tol = REL_TOL * scale + (1e3 * np.finfo(float).eps * in_scale / sigma_min * out_spread if sigma_min > 0 else 0.0)
    same = (np.isnan(want) & np.isnan(got)) | (np.isinf(want) & np.isinf(got) & (np.sign(want) == np.sign(got)))
    with np.errstate(all="ignore"):
        dev = np.abs(want - got)
    dev[same] = 0.0
    dev[~np.isfinite(dev)] = np.inf
    bad = np.where(dev > tol)[0]
    mx = float(dev.max()) / tol if dev.size else 0.0
    tag = "nan_in_both_units" if np.isnan(want).any() and not bad.size else "compared"
    if bad.size:
        i = int(bad[0])
        detail = {"index": i, "g_of_f": float(want[i]), "f_of_g": float(got[i]), "n_bad": int(bad.size), "tolerance": tol,
                  "nan_steps": [int(np.isnan(want).sum()), int(np.isnan(got).sum())]}
        return (f"f(g(x)) != g(f(x)) at {bad.size} of {want.size} steps (NaN / inf compared as values; NaN steps {detail['nan_steps'][0]} / {detail['nan_steps'][1]}), "
                f"max deviation {float(dev.max()):.3g} (tolerance {tol:.3g}); first index {i}: g(f(x))={want[i]!r} f(g(x))={got[i]!r}"), mx, detail, "bad"
    return None, mx, None, tag


def atyp_float_near_tie(data, a, b):
    """two distinct values of the pooled sample (all three series) are equal or within 8 ulps of each other in one of the two units"""
    pooled = np.concatenate([x[np.isfinite(x)] for x in data[:3]])
    for v in (pooled, a * pooled + b):
        u = np.unique(v)
        if u.size < np.unique(pooled).size or (u.size > 1 and np.min(np.diff(u) / np.spacing(np.maximum(np.abs(u[1:]), np.abs(u[:-1])))) <= 8):
            return True
    return False


def atyp_window(case):
    if case["mode"] == "nowindow":
        return dict(running_window_mode=False)
    L, S = ATYP_WINDOWS[case["wk"] % len(ATYP_WINDOWS)]
    return dict(running_window_mode=True, running_window_length=L, running_window_step_length=S)


def atyp_text(case):
    if case["kind"] == "narrow":
        return f"series {'/'.join(case['subset'])} with spread {case['sigma']:.3g} around {case['level']:.6g} (data in {'degC' if case['base'] == 'C' else 'K'})"
    if case["kind"] == "magnitude":
        return f"all data multiplied by {case['factor']:g} (a unit with huge / tiny numbers)"
    return "gaps " + ", ".join(f"{c} x {t} in {k} ({lay})" for k, c, t, lay in case["gaps"])


def atypical_oracle(rng, mult, quick, res, hits, worst):
    """own PRNG stream (the case streams of the batches above do not shift); returns the number of runs"""
    cfgs = {**_configs(), **_mult_configs()}
    r0 = rng.randrange(1 << 16)
    outcomes, worst = {}, {}  # (these cases record deviation / tolerance, reported apart from the relative deviations of the other batches)
    k = 0
    for name, (factory, kind) in cfgs.items():
        slow = kind == "isimip"
        multiplicative = name.endswith("-multiplicative")
        plan = [("narrow", (2 if slow else 8)), ("missing", (2 if slow else 4)), ("magnitude", (0 if slow and quick else 3 if multiplicative else 1))]
        for what, count in plan:
            for j in range(count * mult * (1 if quick else 5)):
                q = k + r0  # rotation position (differs from seed to seed)
                case = {"config": name, "mode": ["nowindow", "window"][(j + q // 3) % 2], "kind": what, "base": "K", "wk": q, "n": 390 + 17 * (q % 9),
                        "np_seed": rng.randint(0, 2**31 - 2), "via": "atypical"}
                a, b = MAPS[(q * 7) % len(MAPS)] if j % 2 else (1.0, -273.15)
                if what == "narrow":
                    case["subset"] = list(ATYP_SUBSETS[(j + r0) % len(ATYP_SUBSETS)])
                    fine = (j // len(ATYP_SUBSETS)) % 2 == 0
                    lo, hi = (1e-5, 5e-4) if fine else (5e-4, 0.3)
                    case["sigma"] = float(lo * (hi / lo) ** rng.random())
                    if j % 2 == 0:  # the unit map moves the level next to zero (or, data in degC, away from it)
                        level, (a, b) = ATYP_NEAR_ZERO[(q // 2) % len(ATYP_NEAR_ZERO)]
                        if (q // 5) % 3 == 2:  # reverse direction: the data sit next to zero, the other unit is K / degF
                            case["base"] = "C"
                            level, (a, b) = [(0.01, (1.0, 273.15)), (-1.8, (1.0, 273.15)), (0.03, (9 / 5, 491.67))][(q // 15) % 3]  # degC -> K, K, degR
                        case["level"] = level
                    else:
                        case["level"] = ATYP_LEVELS_K[q % len(ATYP_LEVELS_K)]
                elif what == "magnitude":
                    case["factor"] = ATYP_FACTORS[q % len(ATYP_FACTORS)]
                    a, b = [(0.01, 0.0), (1e3, 0.0), (1.0, -273.15 * case["factor"]), (9 / 5, 32.0 * case["factor"]), (1e-3, 0.0)][(q // 2) % 5]
                else:
                    sub = ATYP_SUBSETS[(j + r0) % len(ATYP_SUBSETS)]
                    case["gaps"] = [[key, [1, 3, 20, 120, 7, 55][rng.randrange(6)], ATYP_GAP_TOKENS[(q + i) % len(ATYP_GAP_TOKENS)],
                                     ["scattered", "block"][rng.randrange(2)]] for i, key in enumerate(sub)]
                if "kernel_density" in name and a == 1.0:  # (see _configs: these configurations are run with rescaling maps)
                    a, b = 9 / 5, (b * 9 / 5 if case["kind"] == "magnitude" else -459.67)
                    if what == "narrow" and j % 2 == 0 and case["base"] == "K":
                        case["level"] = [255.4, 256.1][q % 2]
                    elif what == "narrow" and j % 2 == 0:
                        a, b = 9 / 5, 491.67
                if multiplicative:  # equivariant under pure rescaling only; positive data
                    a, b = SCALES[q % len(SCALES)], 0.0
                    case["base"] = "K"
                    if what == "narrow":
                        case["level"] = ATYP_LEVELS_K[q % len(ATYP_LEVELS_K)]
                    if what == "magnitude":
                        case["factor"], a = ATYP_FLUX[(j + r0) % len(ATYP_FLUX)]
                case["a"], case["b"] = float(a), float(b)
                try:
                    with AutoBinTieSpy() as spy:
                        problem, mx, detail, tag = atyp_judge(factory, atyp_window(case), atyp_data(case), a, b)
                    if problem and spy.tie and tag == "bad":
                        TIES["auto_bins"] += 1
                        problem, mx, tag = None, 0.0, "auto_bin_tie"
                    if problem and tag == "bad" and what != "missing" and atyp_float_near_tie(atyp_data(case), a, b):
                        # tie-free guard: the FLOAT unit map merged two distinct values (or left them a few ulps apart): ranks / interpolation
                        # fractions then differ between the units by rounding alone — a discontinuity of the float evaluation, not of the exact map
                        TIES["float_map_near_ties"] = TIES.get("float_map_near_ties", 0) + 1
                        problem, mx, tag = None, 0.0, "float_near_tie"
                except Exception as ex:  # noqa: BLE001  (nothing of the check itself may crash on an input it generated)
                    problem, mx, detail, tag = f"the comparison raised {type(ex).__name__}: {str(ex)[:200]}", float("inf"), None, "error"
                outcomes[what + ":" + tag] = outcomes.get(what + ":" + tag, 0) + 1
                key = "atypical-" + what + ":" + name
                worst[key] = max(worst.get(key, 0.0), mx if np.isfinite(mx) else 1e300)
                res.count(("atypical", name, case["mode"], what, tuple(case.get("subset", ())), tuple(g[0] + g[2] for g in case.get("gaps", ())), a, b), True,
                          sample={**case, "max_dev_over_tolerance": mx})
                if problem:
                    hits.append((f"{name} [{case['mode']}, {atyp_window(case)}] a={a:g} b={b:g}, {atyp_text(case)}: {problem}", case, detail))
                k += 1
    res.extra["oracle_atypical_series_outcomes"] = dict(sorted(outcomes.items()))
    res.extra["oracle_atypical_series_worst_deviation_over_tolerance"] = {n: float(f"{v:.3g}") for n, v in worst.items()}
    return k


# ------------------------------------------------------------------ tier B for the round-4 theorems
def hist_tie(rng, n, res):
    """(1) `ibicus.utils.ecdf(x, y, "kernel_density")` is the model's histogram cdf (`Model.Stats.ecdfHist1`, driver op
    `ecdfhist`) of the bins `np.histogram(x, bins="auto")` — the `histE bins` of Props.C04.cdft_affine_hist / qdm_abs_affine_hist;
    (2) the oracle law `BinsAffine` on numpy: the edges of the transformed sample are the transformed edges, the counts are
    unchanged (except at the float-rounding discontinuity of the bin count, see AutoBinTieSpy)."""
    from ibicus.utils import ecdf

    lines, exp, mism, ties = [], [], [], 0
    for k in range(n):
        nprs = np.random.RandomState(rng.randint(0, 2**31 - 2))
        m = int(nprs.randint(12, 260))
        # continuous data (a float is an exact rational: sent exactly): a value exactly on an interior bin edge would be a discontinuity
        x = 280 + 6 * nprs.standard_normal(m) + 4 * np.sin(np.arange(m) / 9.0)
        if np.ptp(x) == 0:
            continue
        y = np.concatenate([x[: min(8, m)], nprs.uniform(x.min() - 3, x.max() + 3, 6)])
        with warnings.catch_warnings():
            warnings.simplefilter("ignore")
            real = np.asarray(ecdf(x, y, method="kernel_density"), dtype=float)
            counts, edges = np.histogram(x, bins="auto")
        lines.append(f"ecdfhist {C.rlist(edges)} {C.ilist(counts)} {C.rlist(y)}")
        exp.append((real, {"n": m, "bins": int(counts.size), "np_seed_case": k}))
        res.count(("hist", m // 16, int(counts.size)), True)
        # the oracle law on numpy itself
        a, b = RESCALING_MAPS[k % len(RESCALING_MAPS)]
        with AutoBinTieSpy() as spy:
            c2, e2 = np.histogram(a * x + b, bins="auto")
        if c2.size != counts.size or not np.array_equal(c2, counts) or np.max(np.abs(e2 - (a * edges + b))) > 1e-9 * max(1.0, np.max(np.abs(e2))):
            if spy.tie:
                ties += 1
            else:
                mism.append({"op": "BinsAffine law of np.histogram(bins='auto')", "n": m, "a": a, "b": b, "bins": [int(counts.size), int(c2.size)]})
    if lines:
        try:
            out = C.run_driver("DrvStats", lines)
        except Exception as ex:  # noqa: BLE001
            return [{"op": "driver DrvStats", "why": f"{type(ex).__name__}: {str(ex)[:300]}"}], ties
        for (real, case), got in zip(exp, out):
            res.cov["traces_validated_against_impl"] += 1
            try:
                model = np.array([float(Fraction(t)) for t in got.split(",")]) if got != "-" else np.array([])
            except Exception:  # noqa: BLE001
                mism.append({"op": "ecdf kernel_density", "case": case, "model": got[:200]})
                continue
            if model.shape != real.shape or np.max(np.abs(model - real)) > 1e-9:
                mism.append({"op": "ecdf(kernel_density) vs ecdfHist1 of np.histogram(x, 'auto')", "case": case,
                             "impl": real[:5].tolist(), "model": model[:5].tolist()})
    return mism, ties


def _tok(v):
    import re

    if isinstance(v, (np.floating, np.integer)):
        v = v.item()
    if isinstance(v, (int, float)) and not isinstance(v, bool):
        t = repr(float(v))  # attrs converters turn 0 into 0.0: numbers are compared by value
    elif isinstance(v, (bool, str, type(None))):
        t = repr(v)
    elif isinstance(v, dict):
        t = "dict_" + "_".join(f"{k2}.{_tok(x)}" for k2, x in sorted(v.items()))
    elif isinstance(v, type):
        t = "class_" + v.__name__
    else:
        t = "obj_" + type(v).__name__
    return re.sub(r"[^A-Za-z0-9_.+\-']", "_", t) or "_"


def _settings_tables():
    """pristine copies (taken when this module is imported, before anything is constructed) of the settings tables the
    classes hand to `_from_variable`: class name -> (general settings, {variable name: settings})"""
    import copy

    import ibicus.debias._cdft as mc
    import ibicus.debias._isimip_options as mi
    import ibicus.debias._quantile_mapping as mq

    from ibicus.variables import str_to_variable_class

    short = {}
    for key, obj in str_to_variable_class.items():
        short.setdefault(id(obj), key)  # the first key of a Variable object (`from_variable` takes the key)

    def tab(*ds):
        return {short[id(k2)]: copy.deepcopy(v) for d in ds for k2, v in d.items() if id(k2) in short}

    return {
        "ISIMIP": (copy.deepcopy(mi.isimip3_general_settings), tab(mi.isimip3_variable_settings)),
        "QuantileMapping": ({}, tab(mq.experimental_default_settings, mq.default_settings)),
        "CDFt": ({}, tab(mc.experimental_default_settings, mc.default_settings)),
    }


try:
    PRISTINE_TABLES = _settings_tables()
except Exception:  # noqa: BLE001  (reported by construct_tie)
    PRISTINE_TABLES = None


def construct_tie(rng, n, res):
    """`Model.FromVariable.session fromVariableStep` (driver DrvFromVariable) vs the real `cls.from_variable` after a sequence
    of other `from_variable` calls in this process: every constructor argument the model derives from the (pristine) tables
    is the attribute the real instance has"""
    import ibicus.debias as D

    if PRISTINE_TABLES is None:
        return [{"op": "construct", "why": "the settings tables could not be read"}]

    def enc(d):
        return ";".join(f"{k2}={_tok(v)}" for k2, v in d.items()) or "-"

    lines, exp, mism = [], [], []
    for k in range(n):
        cls = list(PRISTINE_TABLES)[k % len(PRISTINE_TABLES)]
        general, table = PRISTINE_TABLES[cls]
        vs = sorted(table)
        before = [vs[rng.randrange(len(vs))] for _ in range(rng.randint(0, 3))]
        var = "tas" if k % 2 == 0 else vs[rng.randrange(len(vs))]
        kw = [{}, {"running_window_mode": False}, {"running_window_length": 61, "running_window_step_length": 5}][k % 3]
        with warnings.catch_warnings():
            warnings.simplefilter("ignore")
            try:
                for bv in before:
                    getattr(D, cls).from_variable(bv)
                deb = getattr(D, cls).from_variable(var, **kw)
            except Exception as ex:  # noqa: BLE001
                mism.append({"op": "construct", "cls": cls, "before": before, "var": var, "why": f"raised {type(ex).__name__}: {str(ex)[:200]}"})
                continue
        ttab = "|".join(f"{v}:{enc(d) if d else ''}" for v, d in table.items()) or "-"
        lines.append(f"session code {enc(general)} {ttab} {','.join(before) or '-'} {var} {enc(kw)}")
        exp.append((deb, {"cls": cls, "before": before, "var": var, "kwargs": kw}))
        res.count(("construct", cls, var, tuple(before)), True)
    try:
        out = C.run_driver("DrvFromVariable", lines) if lines else []
    except Exception as ex:  # noqa: BLE001
        return mism + [{"op": "driver DrvFromVariable", "why": f"{type(ex).__name__}: {str(ex)[:300]}"}]
    for (deb, case), got in zip(exp, out):
        res.cov["traces_validated_against_impl"] += 1
        if not got.startswith("ok "):
            mism.append({"op": "construct", "case": case, "model": got[:100]})
            continue
        model = dict(kv.split("=", 1) for kv in got[3:].split(";"))
        model.pop("variable", None)
        bad = {k2: {"model": v, "impl": _tok(getattr(deb, k2, "<missing>"))} for k2, v in model.items() if _tok(getattr(deb, k2, "<missing>")) != v}
        if bad:
            mism.append({"op": f"{case['cls']}.from_variable({case['var']!r}) after constructing {case['before']}", "case": case, "differs": bad})
    return mism


def linregress_assumption(rng, n):
    """the recorded assumption about step 3's oracle: scipy.stats.linregress' p-value does not see the unit, the slope scales"""
    import scipy.stats

    bad = []
    for k in range(n):
        nprs = np.random.RandomState(rng.randint(0, 2**31 - 2))
        m = int(nprs.randint(3, 40))
        yrs = np.arange(1980, 1980 + m)
        ym = 283 + 0.05 * nprs.uniform(-1, 3) * (yrs - 1980) + nprs.standard_normal(m)
        a, b = MAPS[k % len(MAPS)]
        r1, r2 = scipy.stats.linregress(yrs, ym), scipy.stats.linregress(yrs, a * ym + b)
        if abs(r1.pvalue - r2.pvalue) > 1e-7 * max(r1.pvalue, 1e-300) + 1e-12 or abs(a * r1.slope - r2.slope) > 1e-9 * (1 + abs(r2.slope)):
            bad.append({"m": m, "a": a, "b": b, "p": [r1.pvalue, r2.pvalue], "slope": [r1.slope, r2.slope]})
    return bad


# ------------------------------------------------------------------ the check
def run(tier, res, force_search=False):
    rng = random.Random(C.seed() * 15485863 + 4)
    res.rule = ("oracle cases = (debiaser configuration, window mode, unit map (a, b), base unit, numpy seed of the three dated series); "
                "distinct = distinct (configuration, window mode, a, b, base unit); apply cases = (configuration, window mode, a, b, dtypes, grid) and, "
                "for the call-form batch, (failsafe, parallel, nr_processes, progressbar, layouts, time encodings, base unit) in addition; "
                "correspondence cases counted by their own rule "
                "(configuration, stream, length classes) / (ISIMIP configuration, sizes, step-6 branch)")
    res.trusted = C.BASE_TRUSTED + [
        "distribution family: LocScaleLaws proved for the rational test double (Lemmas.Family.ratSigmoid_laws), ASSUMED for scipy.stats.norm "
        "(fit = (mean, std) is affine-equivariant, cdf/ppf are location-scale)",
        "ISIMIP oracle decisions (linregress p-value < 0.05, Kolmogorov-Smirnov acceptance) are the same in both units: they are functions of "
        "unit-free statistics; the slope itself is modelled exactly and proved to scale by a",
        "np.argsort is modelled as the stable sort (invariant under increasing maps); for tie-free data any argsort is",
        "calendar arithmetic (day of year / month / year) is done by Python; index sets depend on dates only (Lemmas.Lift)",
        "ecdf_method='kernel_density': the bins np.histogram(x, bins='auto') are an oracle with the law BinsAffine (edges carry the unit, counts "
        "unchanged, on non-constant samples) — checked on numpy on every run; Props.C04.cdft_affine_hist / qdm_abs_affine_hist are stated under it. "
        "ISIMIP with kernel_density is not modelled (Model/Isimip.lean carries the step / linear ecdf only): decided by the oracle on the real code only",
        "grid map: Model/Grid.lean (tied to Debiaser.apply by the C05 check) — Props.C04.apply_grid_affine; construction sequences: "
        "Model/FromVariable.lean tied by driver DrvFromVariable (real from_variable after other constructions) and tier A (Gen.Config.fromVariableShape)",
        "RUNTIME-ONLY clauses (oracle on the real code, no theorem): (i) input dtype conversion and the floating dtype of the result (numpy dtype "
        "machinery; the model's values are rationals — the conversion step itself is C14's theorem); (ii) the value an unassigned step holds (0.0 of "
        "zeros_like / uninitialised memory; the model has `none`, that no step is unassigned is Props.C07); (iii) float rounding at discontinuities "
        "(numpy's auto bin count at an exact integer, np.interp / np.quantile knots on tied integer data, float32 step decisions) — the theorems are "
        "about exact arithmetic, the oracle accepts/avoids these cases and counts them; (iv) missing values: NaN / inf propagation (the model's "
        "values are rationals): outputs are compared with NaN / inf as values, a run that raises in both units has no output to compare, one that "
        "raises in one unit only is a failing input; on hardly varying series the float unit map may merge two distinct values or leave them "
        "<= 8 ulps apart — such a case is accepted and counted (oracle_float_map_near_ties_accepted)",
    ]
    res.assumptions = [
        "tas-like settings: no finite bound / threshold / censoring; QuantileMapping detrending additive or none; CDFt delta_shift additive or "
        "no_shift with SSR off; QDM absolute without censoring; ECDFM with a location-scale family; ISIMIP additive trend transfer, "
        "scale_by_annual_cycle off",
        "window samples non-empty and fitted scales non-zero (the guarded window functions report `undef` otherwise, identically in both units)",
        "exact arithmetic: the float oracle compares within 1e-8 * max|transformed input|",
    ]

    lean_ok = C.lean_phase(res, PROP, GEN, TARGETS)

    # ---- tier B: the model the theorems are about is the code
    quick = tier == "quick"
    mismatches = []
    n_deb = 24 if quick else 500
    n_isi = 35 if quick else 800
    try:
        mm = DCORR.correspondence(rng, n_deb, tier, res, families=["LS", "DC", "QM", "ECDFM", "QDM", "SDMabs", "CDFt"])
        if mm:
            mismatches += mm
            res.tie_broken.append(f"correspondence DrvDebiasers: {len(mm)} mismatches, first: {str(mm[0])[:900]}")
    except Exception as ex:  # noqa: BLE001
        res.tie_broken.append(f"correspondence DrvDebiasers failed to run: {type(ex).__name__}: {str(ex)[:300]}")
    try:
        mi = ICORR.correspondence(rng, n_isi, tier, res, configs=UNBOUNDED_ISIMIP)
        if mi:
            mismatches += mi
            res.tie_broken.append(f"correspondence DrvIsimip: {len(mi)} mismatches, first: {str(mi[0])[:900]}")
    except Exception as ex:  # noqa: BLE001
        res.tie_broken.append(f"correspondence DrvIsimip failed to run: {type(ex).__name__}: {str(ex)[:300]}")
    # round-4 ties: histogram ecdf (kernel_density) and its bin law; construction sequences; the linregress assumption
    try:
        mh, hties = hist_tie(rng, 12 if quick else 150, res)
        res.extra["ties_accepted"] = res.extra.get("ties_accepted", 0) + hties
        if mh:
            mismatches += mh
            res.tie_broken.append(f"correspondence ecdf(kernel_density) / BinsAffine: {len(mh)} mismatches, first: {str(mh[0])[:700]}")
    except Exception as ex:  # noqa: BLE001
        res.tie_broken.append(f"histogram-ecdf tie failed to run: {type(ex).__name__}: {str(ex)[:300]}")
    try:
        mc = construct_tie(rng, 18 if quick else 150, res)
        if mc:
            mismatches += mc
            res.tie_broken.append(f"correspondence DrvFromVariable (from_variable after other constructions): {len(mc)} mismatches, first: {str(mc[0])[:700]}")
    except Exception as ex:  # noqa: BLE001
        res.tie_broken.append(f"construction tie failed to run: {type(ex).__name__}: {str(ex)[:300]}")
    ml = linregress_assumption(rng, 20 if quick else 300)
    if ml:
        res.tie_broken.append(f"assumption 'linregress p-value is unit-free, slope scales' fails on scipy: {str(ml[0])[:300]}")
    res.extra["correspondence_mismatches"] = len(mismatches)

    # ---- the property's oracle on the real code
    cfgs = _configs()
    names = list(cfgs)
    reps = 2 if quick else 24
    if force_search or not lean_ok or mismatches:
        reps *= 3
    hits, worst, n_unassigned, n_leak_diag = [], {}, 0, 0
    TIES["auto_bins"] = 0
    k = 0
    for rep in range(reps):
        for name in names:
            factory, kind = cfgs[name]
            for mode in ("window", "nowindow"):
                # every configuration sees the K -> degC map (zero inside the data range) and one other map per repetition
                maps = [(1.0, -273.15), MAPS[(k * 7 + rep) % len(MAPS)]]
                if "kernel_density" in name:
                    maps = [(9 / 5, -459.67), RESCALING_MAPS[(k + rep) % len(RESCALING_MAPS)]]
                for (a, b) in maps:
                    base = "K" if (k + rep) % 3 else "C"
                    if (a, b) in ((1.0, -273.15), (9 / 5, -459.67)):
                        base = "K"
                    multi_year = "years" in name or "default" in name or (kind == "isimip" and k % 2 == 0)
                    seed = rng.randint(0, 2**31 - 2)
                    prelude = make_prelude(name, k)
                    S_, L_, cal_ = window_plan(k)
                    case = {"config": name, "mode": mode, "a": a, "b": b, "base": base, "multi_year": multi_year, "np_seed": seed, "wk": k,
                            "constructed_before": prelude, "calendar": cal_ if mode == "window" and not multi_year else "any"}
                    try:
                        nbad, mx, first, scale, unassigned, (want, got), kw = oracle_case(name, kind, factory, mode, seed, a, b, base, multi_year, k, prelude)
                    except Exception as ex:  # noqa: BLE001
                        hits.append((f"{name} [{mode}] a={a} b={b}: the run raised {type(ex).__name__}: {str(ex)[:200]}", case, None))
                        k += 1
                        continue
                    n_unassigned += unassigned
                    worst[name] = max(worst.get(name, 0.0), mx if np.isfinite(mx) else 1e300)
                    res.count((name, mode, a, b, base), True, sample={**case, "window": kw, "max_rel_dev": mx})
                    if nbad:
                        detail = {"index": first, "g_of_f": float(want[first]), "f_of_g": float(got[first]), "n_bad": nbad, "unassigned_steps": unassigned}
                        what = (f"{unassigned} time step(s) are never assigned by any window (NaN under the IBICUS_VERIF hook; 0.0 / uninitialised memory in "
                                f"every unit without it, and 0.0 != a*0.0+b), first index {first}" if unassigned and not np.isfinite(mx) and np.isnan(want[first]) or
                                unassigned and np.isnan(got[first]) else
                                f"f(g(x)) != g(f(x)) at {nbad} of {want.size} steps, max deviation {mx:.3g} x scale {scale:.4g}; first index {first}: "
                                f"g(f(x))={want[first]!r} f(g(x))={got[first]!r}")
                        leak = ""
                        if n_leak_diag < 3:  # is the debiaser built in this process configured like one built first in a fresh process?
                            n_leak_diag += 1
                            diff = config_leak(name, factory, kw)
                            detail["configuration_vs_fresh_process"] = diff
                            if diff:
                                leak = (f" — the debiaser built in this process (after constructing {prelude} and the earlier cases) is configured "
                                        f"differently from one built first in a fresh process: {str(diff)[:300]}")
                        hits.append((f"{name} [{mode}, {kw}, calendar {case['calendar']}] a={a:g} b={b:g} ({base}): {what}{leak}", case, detail))
                    k += 1
    # multiplicative LinearScaling / DeltaChange: pure rescaling, positive data
    for rep in range(reps * 2):
        for name, (factory, kind) in _mult_configs().items():
            for mode in ("window", "nowindow"):
                a = SCALES[(k + rep) % len(SCALES)]
                seed = rng.randint(0, 2**31 - 2)
                case = {"config": name, "mode": mode, "a": a, "b": 0.0, "base": "pos", "multi_year": False, "np_seed": seed, "wk": k}
                try:
                    nbad, mx, first, scale, unassigned, (want, got), kw = oracle_case(name, kind, factory, mode, seed, a, 0.0, "pos", False, k)
                except Exception as ex:  # noqa: BLE001
                    hits.append((f"{name} [{mode}] a={a}: the run raised {type(ex).__name__}: {str(ex)[:200]}", case, None))
                    k += 1
                    continue
                worst[name] = max(worst.get(name, 0.0), mx if np.isfinite(mx) else 1e300)
                res.count((name, mode, a, 0.0, "pos"), True, sample={**case, "window": kw, "max_rel_dev": mx})
                if nbad:
                    hits.append((f"{name} [{mode}] a={a:g} b=0: f(a*x) != a*f(x) at {nbad} of {want.size} steps, max deviation {mx:.3g} x scale",
                                 case, {"index": first, "g_of_f": float(want[first]), "f_of_g": float(got[first]), "n_bad": nbad}))
                k += 1
    # the same statement through the real `apply` (3-d arrays, small grids), integer / single / double precision inputs
    n_grid = (27 if quick else 270) * (3 if (force_search or not lean_ok or mismatches) else 1)
    grid_oracle(rng, n_grid, res, hits, worst)
    res.extra["oracle_apply_grid_runs"] = n_grid
    # ... and through every other call form of `apply` (failsafe, parallel, time encodings, memory layouts, base unit, construction order)
    n_call = (36 if quick else 360) * (3 if (force_search or not lean_ok or mismatches) else 1)
    CALL_COVERAGE.clear()
    call_form_oracle(rng, n_call, res, hits, worst)
    res.extra["oracle_apply_call_form_runs"] = n_call
    res.extra["oracle_apply_call_form_coverage"] = dict(sorted(CALL_COVERAGE.items()))
    # ... and on atypical series: gaps (NaN / inf), hardly varying series, units with huge / tiny numbers (own PRNG stream) — see ATYPICAL SERIES
    TIES["float_map_near_ties"] = 0
    res.extra["oracle_atypical_series_runs"] = atypical_oracle(random.Random(C.seed() * 15485863 + 604), 3 if (force_search or not lean_ok or mismatches) else 1,
                                                               quick, res, hits, worst)
    res.extra["oracle_float_map_near_ties_accepted"] = TIES["float_map_near_ties"]
    res.extra["oracle_masked_input_runs"] = masked_oracle(random.Random(C.seed() * 15485863 + 704), (12 if quick else 72) * (3 if (force_search or not lean_ok or mismatches) else 1),
                                                         res, hits, worst)
    res.extra["oracle_runs"] = k
    res.extra["ties_accepted"] = res.extra.get("ties_accepted", 0) + TIES["auto_bins"] + TIES["float_map_near_ties"]
    res.extra["oracle_auto_bin_ties_accepted"] = TIES["auto_bins"]
    res.extra["oracle_worst_relative_deviation"] = {n: float(f"{v:.3g}") for n, v in worst.items()}
    res.extra["oracle_unassigned_steps"] = n_unassigned
    res.extra["oracle_tolerance"] = f"{REL_TOL} * max(1, max|a*x+b|)"

    # ---- verdict
    seen = set()
    for desc, case, detail in hits:
        call = case.get("call") or {}
        key = (case["config"], case["mode"], case.get("via", "apply_location"), tuple(case.get("dtypes", ())), call.get("failsafe"), call.get("parallel"))
        if key in seen:
            continue
        seen.add(key)
        res.violations.append((desc, {"property": PROP, "failing_input": case, "detail": detail,
                                      "signature": {"config": case["config"], "mode": case["mode"], "via": case.get("via", "apply_location")}}))
    if res.tie_broken and not hits:
        res.violations.append(("proof obligation / correspondence no longer checks: " + "; ".join(res.tie_broken)[:900],
                               {"property": PROP, "failing_input": None, "broken": res.tie_broken,
                                "mismatches": [{k2: (str(v)[:600]) for k2, v in m.items()} for m in mismatches[:5]]}))
    return res


def replay(data):
    """re-run the failing input of a replay file against the real code"""
    case = data.get("failing_input")
    if not case:
        print("replay: no failing input recorded (broken tie):", str(data.get("broken"))[:500])
        return 1
    cfgs = {**_configs(), **_mult_configs()}
    factory, kind = cfgs[case["config"]]
    if case.get("via") == "atypical":
        a, b = case["a"], case["b"]
        try:
            with AutoBinTieSpy() as spy:
                problem, mx, _detail, tag = atyp_judge(factory, atyp_window(case), atyp_data(case), a, b)
            if problem and tag == "bad" and (spy.tie or (case["kind"] != "missing" and atyp_float_near_tie(atyp_data(case), a, b))):
                problem = None  # a float-rounding discontinuity (accepted and counted by the check as well)
        except Exception as ex:  # noqa: BLE001
            problem, mx = f"the comparison raised {type(ex).__name__}: {str(ex)[:200]}", float("inf")
        print(f"replay {case['config']} [{case['mode']}, {atyp_window(case)}] a={a:g} b={b:g}, {atyp_text(case)}: max deviation / tolerance {mx:.3g}")
        if problem:
            print("  " + problem)
            print(f"VIOLATION property={PROP} (reproduced)")
            return 1
        print("not reproduced")
        return 0
    if case.get("via") == "apply":
        try:
            problem, mx, _ = grid_case(case["config"], factory, case)
        except Exception as ex:  # noqa: BLE001
            problem, mx = f"the run raised {type(ex).__name__}: {str(ex)[:200]}", float("inf")
        form = f"({call_text(case['call'])})" if case.get("call") else ""
        print(f"replay {case['config']} via apply{form} [{case['mode']}, grid {case['grid']}, dtypes {case['dtypes']}] a={case['a']} b={case['b']}: max deviation {mx:.3g}")
        if problem:
            print("  " + problem)
            print(f"VIOLATION property={PROP} (reproduced)")
            return 1
        print("not reproduced")
        return 0
    nbad, mx, first, scale, unassigned, (want, got), kw = oracle_case(case["config"], kind, factory, case["mode"], case["np_seed"], case["a"],
                                                                    case["b"], case["base"], case["multi_year"], case["wk"],
                                                                    case.get("constructed_before"))
    print(f"replay {case['config']} [{case['mode']}, {kw}] a={case['a']} b={case['b']} after constructing {case.get('constructed_before')}: "
          f"{nbad} of {want.size} steps differ or are unassigned ({unassigned} unassigned), max relative deviation {mx:.3g}")
    if nbad:
        print(f"  first index {first}: g(f(x)) = {want[first]!r}   f(g(x)) = {got[first]!r}")
        print(f"VIOLATION property={PROP} (reproduced)")
        return 1
    print("not reproduced")
    return 0
