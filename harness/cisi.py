"""ISI — validation of the shared layer-N model of ISIMIP's per-window pipeline (`Model/Isimip.lean`).

Not a registered property: `./check ISI --tier quick|thorough` builds the model + its sanity lemmas, audits their axioms
and runs the correspondence `harness/isimip_corr.py` (real `ISIMIP._apply_on_window`, `step3 … step7`, `step2`,
`step1`/`step8` against the driver `DrvIsimip`).  A mismatch is a broken tie (reported as a violation without failing
input: there is no property statement to search a counterexample for).
"""
import random

from harness import common as C
from harness import isimip_corr

PROP = "ISI"
TARGETS = ["IbicusModel.Lemmas.IsimipModel"]
GEN = []


def run(tier, res):
    rng = random.Random(C.seed() * 104729 + 11)
    res.rule = ("cases = (configuration, three dyadic series of lengths 3..80 with years, numpy seed) from one PRNG (VERIF_SEED); every case "
                "is compared as a whole window and stage by stage; distinct = distinct (configuration, sizes, step-6 branch)")
    res.trusted = C.BASE_TRUSTED + [
        "oracles recorded from the real run (np.random.uniform/random draws, linregress p<0.05, KS decision, cos/logit/expit tables)",
        "rational test-double family harness/isimip_family.py = Model.Isimip.ratSigmoid",
    ]
    res.assumptions = ["inputs finite; ecdf_method kernel_density not modelled; see Model/Isimip.lean header for the unmodelled: domain"]
    C.lean_phase(res, PROP, GEN, TARGETS)
    n = 150 if tier == "quick" else 1600
    mismatches = isimip_corr.correspondence(rng, n, tier, res)
    n_aux = 16 if tier == "quick" else 150
    if hasattr(isimip_corr, "correspondence_aux"):
        mismatches += isimip_corr.correspondence_aux(rng, n_aux, tier, res)
    if hasattr(isimip_corr, "correspondence_location"):
        mismatches += isimip_corr.correspondence_location(rng, 6 if tier == "quick" else 40, tier, res)
    res.extra["mismatches"] = len(mismatches)
    if mismatches:
        res.tie_broken.append(f"correspondence DrvIsimip: {len(mismatches)} mismatches, first: {str(mismatches[0])[:1500]}")
    if res.tie_broken:
        res.violations.append(("model of ISIMIP's window pipeline no longer corresponds / builds: " + "; ".join(res.tie_broken)[:600],
                               {"property": PROP, "failing_input": None, "broken": res.tie_broken,
                                "mismatches": [{k: (v if k != "line" else v[:2000]) for k, v in m.items()} for m in mismatches[:5]]}))
    return res
