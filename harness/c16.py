"""C16 — the empirical CDF / quantile toolkit obeys the laws of distribution functions.

Lean side: Props/C16.lean (theorems on Model/Stats.lean) + tier A for `threshold_cdf_vals`.
Tier B: the public helpers of ibicus.utils (real code, in-process) against drivers/DrvStats.lean for all
3 x 9 (ecdf, iecdf) method pairs.  Where the float code can legitimately sit on a discontinuity of the exact map
(`floor((n-1) q)` / a discrete virtual index at an integer, `np.interp` at a tied knot computed by `np.quantile`) the
driver also evaluates the two neighbours (point -/+ 2^-40) and the harness accepts the hull and counts the case.
Property oracle: every law of the property checked directly on the real functions.
"""
import random
import warnings
from fractions import Fraction

import numpy as np

from harness import common as C

PROP = "C16"
TARGETS = ["IbicusModel.Props.C16", "IbicusModel.Lemmas.GenStats"]
GEN = ["StatsKernels", "Stats"]

EM = ["step_function", "linear_interpolation", "kernel_density"]
IM = ["inverted_cdf", "averaged_inverted_cdf", "closest_observation", "interpolated_inverted_cdf", "hazen", "weibull",
      "linear", "median_unbiased", "normal_unbiased"]
# pairs for which Props.C16.qmap_equal_sizes is stated (exact arithmetic); the twelve others are refuted by
# Props.C16.equal_sizes_fails_for_other_pairs
EXACT_PAIRS = [("step_function", "inverted_cdf"), ("step_function", "closest_observation"),
               ("step_function", "interpolated_inverted_cdf"), ("linear_interpolation", "inverted_cdf"),
               ("linear_interpolation", "averaged_inverted_cdf"), ("linear_interpolation", "linear")]
FLOAT_FRAGILE_PAIRS = [("linear_interpolation", "inverted_cdf")]  # floor((n-1) * (r/(n-1))) sits on the integer r
DP = Fraction(1, 2 ** 40)


# ------------------------------------------------------------------ generators
def gen_sample(rng, n, kind, scale):
    if kind == "constant":
        v = [rng.randint(-40, 40) / 4.0] * n
    elif kind == "ties":
        pool = [rng.randint(-12, 12) / 4.0 for _ in range(max(1, n // 2))]
        v = [rng.choice(pool) for _ in range(n)]
    elif kind == "tiefree":
        v = [k / 64.0 for k in rng.sample(range(-4096, 4097), n)]
    elif kind == "decimal":  # data rounded to one decimal: ties at non-dyadic values (0.1, 0.3, 0.7 ...)
        pool = [rng.randint(-30, 60) / 10.0 for _ in range(max(1, (n + 1) // 2))]
        v = [rng.choice(pool) for _ in range(n)]
    elif kind == "positive":
        v = [rng.randint(0, 2048) / 64.0 for _ in range(n)]
    else:  # dyadic, ties possible but rare
        v = [rng.randint(-4096, 4096) / 64.0 for _ in range(n)]
    return np.array(v, dtype=float) * scale


def gen_case(rng, k):
    scale = rng.choice([1.0, 1.0, 1.0, 2.0 ** 40, 2.0 ** -40])
    # dtype of the source sample x, of the mapped values and of y2; the target sample y is always float64
    # (an integer target with float values is a separate matter: see the C16 report, it truncates on the unchanged tree)
    dtype = rng.choice(["float64"] * 6 + ["float32"] * 2 + ["int64"] * 2)
    if dtype == "int64":
        return gen_case_int(rng, k)
    kinds = ["ties", "ties", "tiefree", "tiefree", "dyadic", "positive", "constant", "decimal", "decimal"]
    nx = rng.choice([1, 2, 2, 3, 4, 5, 6, 7, 8, 9, 10, 11, 12])
    equal = rng.random() < 0.5
    ny = nx if equal else rng.randint(1, 12)
    kx = rng.choice(kinds)
    if equal and rng.random() < 0.7:
        kx = "tiefree"
    x = gen_sample(rng, nx, kx, scale)
    y = gen_sample(rng, ny, rng.choice(kinds), scale)
    y2 = gen_sample(rng, nx, rng.choice(["ties", "tiefree", "tiefree", "dyadic"]), scale)  # same length as x
    lo, hi = float(x.min()), float(x.max())
    span = max(hi - lo, scale)
    vals = [lo, hi, lo - span / 4, hi + span / 2, lo - scale / 64, hi + scale / 64, (lo + hi) / 2]
    vals += [float(v) for v in rng.sample(list(x), min(3, nx))]
    vals += [rng.randint(-4200, 4200) / 64.0 * scale for _ in range(3)]
    xs = np.sort(x)
    if nx >= 2:
        j = rng.randrange(nx - 1)
        vals.append(float(xs[j] + (xs[j + 1] - xs[j]) * rng.choice([0.25, 0.5, 0.75])))
    vals = np.array(vals, dtype=float)
    ps = {0.0, 1.0}
    for n in {nx, ny}:
        for kk in range(n + 1):
            if n > 1:
                ps.add(min(1.0, kk / (n - 1)))
            ps.add(kk / n)
    ps = rng.sample(sorted(ps), min(10, len(ps)))
    ps += [0.0, 1.0] + [rng.randint(0, 256) / 256.0 for _ in range(3)] + [rng.randint(0, 2 ** 30) / 2.0 ** 30]
    ps += [rng.randint(0, 1000) / 1000.0 for _ in range(6)] + [rng.random() for _ in range(6)]
    ps = np.array(sorted(set(ps)), dtype=float)
    if dtype == "float32":
        if x.min() == x.max() and scale > 1:
            # a constant float32 sample of magnitude >= 2^24: np.histogram cannot widen the range by +-0.5 in float32 and
            # raises ValueError inside ecdf(kernel_density) (a variant of the known finding F15) -> keep such samples float64
            dtype = "float64"
        else:
            x, y2, vals = x.astype(np.float32), y2.astype(np.float32), vals.astype(np.float32)
    return dict(k=k, scale=scale, kind_x=kx, x=x, y=y, y2=y2, vals=vals, ps=ps, dtype=dtype)


def gen_case_int(rng, k):
    """integer-valued source sample and values (e.g. cloud cover in oktas / percent), float64 target"""
    nx = rng.choice([1, 2, 3, 4, 5, 6, 7, 8, 9, 10, 11, 12])
    equal = rng.random() < 0.5
    ny = nx if equal else rng.randint(1, 12)
    if equal and rng.random() < 0.7:
        kx, x = "tiefree", np.array(rng.sample(range(-20, 60), nx), dtype=np.int64)
    else:
        kx, x = "ties", np.array([rng.randint(0, 8) for _ in range(nx)], dtype=np.int64)
    y = gen_sample(rng, ny, rng.choice(["ties", "tiefree", "dyadic", "positive"]), 1.0)
    y2 = np.array(rng.sample(range(-50, 50), nx), dtype=np.int64)
    lo, hi = int(x.min()), int(x.max())
    vals = np.array([lo, hi, lo - 3, hi + 2, lo - 1, hi + 1, (lo + hi) // 2] + [int(v) for v in rng.sample(list(x), min(3, nx))]
                    + [rng.randint(-25, 65) for _ in range(4)], dtype=np.int64)
    ps = {0.0, 1.0}
    for n in {nx, ny}:
        for kk in range(n + 1):
            if n > 1:
                ps.add(min(1.0, kk / (n - 1)))
            ps.add(kk / n)
    ps = rng.sample(sorted(ps), min(10, len(ps))) + [0.0, 1.0] + [rng.randint(0, 256) / 256.0 for _ in range(3)]
    ps = np.array(sorted(set(ps)), dtype=float)
    return dict(k=k, scale=1.0, kind_x=kx, x=x, y=y, y2=y2, vals=vals, ps=ps, dtype="int64")


# ------------------------------------------------------------------ related (source, target, evaluation vector) triples
# The property quantifies over ALL samples: "quantile mapping BETWEEN TWO SAMPLES is monotone, maps into the range of the
# target sample ... for all samples, all evaluation points, all ecdf x iecdf method combinations".  gen_case draws the source x and
# the target y independently, so pairs that are RELATED — the same values (a model mapped onto itself, obs == cm_hist in a
# validation run), the very same array object, a permutation / reversed view / sub-sample / superset of one another, a
# shifted, scaled, negated or nearly equal copy, both already sorted, the evaluation vector being the target itself — have
# probability zero there.  These are exactly the pairs where code can take a "shortcut" (identity, early return, cached
# sort) and the laws (range of the target, monotone, end points, extrapolation shift, equal-size reproduction) must hold for them
# just the same.  Every relation is scheduled (not drawn), the evaluation points go beyond BOTH samples' ranges.
RELATIONS = ["same_values", "same_object", "permuted", "reversed_view", "shifted", "scaled", "negated", "nearly_equal", "subsample", "superset",
             "sorted_both", "vals_is_target"]


def gen_related_case(rng, k, j):
    rel = RELATIONS[j % len(RELATIONS)]
    for _ in range(20):
        c = gen_case(rng, k)
        if c["x"].size >= 2:
            break
    if rel in ("same_object", "reversed_view", "vals_is_target") and c["dtype"] != "float64":
        # object identity / shared memory needs one dtype, and the target is float64 (see gen_case)
        for a in ("x", "y2", "vals"):
            c[a] = c[a].astype(np.float64)
        c["dtype"] = "float64"
    x, scale = c["x"], c["scale"]
    n = x.size
    xf = x.astype(np.float64)  # a copy; float32 / int64 values are exact in float64
    aliases = []
    if rel == "same_values":
        y = xf
    elif rel == "same_object":
        y = x
        aliases.append("y_is_x")
    elif rel == "permuted":
        perm = list(range(n))
        rng.shuffle(perm)
        y = xf[perm]
    elif rel == "reversed_view":
        y = x[::-1]
        aliases.append("y_is_reversed_view_of_x")
    elif rel == "shifted":
        y = xf + rng.choice([-12, -3, -1, 1, 5, 40]) / 4.0 * scale
    elif rel == "scaled":
        y = xf * rng.choice([0.5, 2.0, 4.0])
    elif rel == "negated":
        y = -xf
    elif rel == "nearly_equal":  # np.allclose(x, y) holds, np.array_equal does not
        y = xf * (1.0 + rng.choice([-3, -1, 1, 2]) * 2.0 ** -30)
    elif rel == "subsample":
        y = xf[sorted(rng.sample(range(n), rng.randint(1, max(1, n - 1))))]
    elif rel == "superset":
        y = np.concatenate([xf, gen_sample(rng, rng.randint(1, 4), "dyadic", scale)])
        perm = list(range(y.size))
        rng.shuffle(perm)
        y = y[perm]
    elif rel == "sorted_both":  # both samples arrive already ordered (ascending or descending)
        desc = rng.random() < 0.5
        c["x"] = x = (np.sort(x)[::-1].copy() if desc else np.sort(x))
        y = np.sort(c["y"])[::-1].copy() if rng.random() < 0.5 else np.sort(c["y"])
    else:  # vals_is_target: the evaluation vector is the target sample itself (same object)
        y = c["y"]
    c["y"] = y
    if rel == "vals_is_target":
        c["vals"] = y
        aliases.append("vals_is_y")
    else:
        ylo, yhi = float(y.min()), float(y.max())
        yspan = max(yhi - ylo, scale)
        extra = [ylo, yhi, ylo - yspan / 4, yhi + yspan / 2, ylo - scale / 64, yhi + scale / 64] + [float(v) for v in rng.sample(list(y), min(3, y.size))]
        extra = np.array(extra, dtype=float)
        if c["vals"].dtype.kind == "i":
            extra = np.rint(extra)
        c["vals"] = np.concatenate([c["vals"], extra.astype(c["vals"].dtype)])
    ps = set(c["ps"].tolist())
    for kk in range(y.size + 1):  # the knots of the (new) target size
        if y.size > 1:
            ps.add(min(1.0, kk / (y.size - 1)))
        ps.add(kk / y.size)
    c["ps"] = np.array(sorted(ps), dtype=float)
    c["relation"], c["aliases"] = rel, aliases
    return c


def hist_of(x):
    with warnings.catch_warnings():
        warnings.simplefilter("ignore")
        counts, edges = np.histogram(x, bins="auto")
    return edges, counts


def case_json(c):
    return {"x": c["x"].tolist(), "y": c["y"].tolist(), "y2": c["y2"].tolist(), "vals": c["vals"].tolist(), "ps": c["ps"].tolist(),
            "scale": c["scale"], "dtype": c.get("dtype", "float64"),
            **({"relation": c["relation"], "aliases": c["aliases"], "k": c["k"]} if "relation" in c else {})}


# ------------------------------------------------------------------ real code (quiet)
def quiet(f, *a, **kw):
    with warnings.catch_warnings(), np.errstate(all="ignore"):
        warnings.simplefilter("ignore")
        return np.asarray(f(*a, **kw), dtype=float)


def raw(f, *a, **kw):
    """the result as the function returns it (dtype preserved)"""
    with warnings.catch_warnings(), np.errstate(all="ignore"):
        warnings.simplefilter("ignore")
        return np.asarray(f(*a, **kw))


EXACT_BITWISE_PAIRS = [("step_function", "inverted_cdf"), ("step_function", "closest_observation"), ("linear_interpolation", "averaged_inverted_cdf")]
DISCRETE_IM = ["inverted_cdf", "closest_observation"]  # return sample values, never interpolate


# ------------------------------------------------------------------ correspondence (tier B)
class Corr:
    def __init__(self, res):
        self.lines, self.expect = [], []
        self.res = res
        self.mismatches = []
        self.ties = 0

    def add(self, line, kind, real, scale, info):
        """kind: 'triple' (driver gives lo,mid,hi per value), 'plain' (one value each), 'exact'"""
        self.lines.append(line)
        self.expect.append((kind, real, scale, info))

    def run(self):
        if not self.lines:
            return
        try:
            out = C.run_driver("DrvStats", self.lines)
        except Exception as ex:  # noqa: BLE001
            self.mismatches.append({"op": "driver", "impl": "", "model": f"{type(ex).__name__}: {str(ex)[:300]}"})
            return
        for (kind, real, scale, info), got, line in zip(self.expect, out, self.lines):
            self.res.cov["traces_validated_against_impl"] += 1
            if isinstance(real, Exception):
                self.mismatches.append({"op": info, "impl": f"{type(real).__name__}: {real}", "model": got[:200], "line": line[:300]})
                continue
            if got == "bad-op":
                self.mismatches.append({"op": info, "impl": "", "model": "bad-op", "line": line[:300]})
                continue
            if kind == "seq":  # outputs of a call / in-place update / call sequence, '|' separated
                parts = got.split("|")
                if len(parts) != len(real):
                    self.mismatches.append({"op": info, "impl": [r.tolist() for r in real], "model": got[:300], "line": line[:300], "why": "number of outputs"})
                    continue
                for j, (r, t) in enumerate(zip(real, parts)):
                    m = [float(Fraction(u)) for u in t.split(",")] if t != "-" else []
                    if len(m) != r.size or np.any(np.abs(np.asarray(m) - r.astype(float)) > 1e-9 * (1 + scale)):
                        self.mismatches.append({"op": info, "output": j, "impl": r.tolist(), "model": m, "line": line[:400]})
                        break
                continue
            try:
                m = [float(Fraction(t)) for t in got.split(",")] if got != "-" else []
            except ValueError:
                self.mismatches.append({"op": info, "impl": "", "model": got[:200], "line": line[:300]})
                continue
            real = np.atleast_1d(real)
            tol = 1e-9 * (1 + scale)
            step = 3 if kind == "triple" else 1
            if len(m) != step * real.size:
                self.mismatches.append({"op": info, "impl": real.tolist(), "model": got[:200], "line": line[:300], "why": "length"})
                continue
            for i, r in enumerate(real):
                if kind == "triple":
                    lo, mid, hi = m[3 * i:3 * i + 3]
                else:
                    lo = mid = hi = m[i]
                if kind == "exact":
                    good = (r == mid)
                else:
                    good = np.isfinite(r) and abs(r - mid) <= tol
                if good:
                    continue
                if kind == "triple" and np.isfinite(r) and min(lo, hi) - tol <= r <= max(lo, hi) + tol:
                    self.ties += 1
                    continue
                self.mismatches.append({"op": info, "index": i, "impl": float(r), "model": [lo, mid, hi], "line": line[:400]})
                break


def correspondence(c, corr):
    from ibicus.utils import _math_utils as M
    from ibicus.utils import _utils as U

    x, y, y2, vals, ps, scale = c["x"], c["y"], c["y2"], c["vals"], c["ps"], c["scale"]

    def R(a):  # float32 / int64 values are exactly representable in float64
        return C.rlist(np.asarray(a, dtype=np.float64))

    dv = C.rat(Fraction(scale) / 2 ** 40)
    dp = C.rat(DP)
    sy = float(np.abs(y).max()) + float(np.abs(vals).max())
    edges, counts = hist_of(x)
    tag = f"case {c['k']}"

    def real(f, *a, **kw):
        try:
            return quiet(f, *a, **kw)
        except Exception as ex:  # noqa: BLE001
            return ex

    # ecdf
    corr.add(f"ecdf3 step_function {R(x)} {R(vals)} 0", "triple", real(M.ecdf, x, vals, "step_function"), 1.0, f"{tag} ecdf step_function")
    corr.add(f"ecdf3 linear_interpolation {R(x)} {R(vals)} {dv}", "triple", real(M.ecdf, x, vals, "linear_interpolation"), 1.0,
             f"{tag} ecdf linear_interpolation")
    corr.add(f"ecdfhist {R(edges)} {C.ilist(counts)} {R(vals)}", "plain", real(M.ecdf, x, vals, "kernel_density"), 1.0, f"{tag} ecdf kernel_density")
    # iecdf
    for im in IM:
        corr.add(f"iecdf3 {im} {R(y)} {R(ps)} {dp}", "triple", real(M.iecdf, y, ps, im), float(np.abs(y).max()), f"{tag} iecdf {im}")
    # quantile maps, all 27 pairs, both variants
    for em in EM:
        for im in IM:
            r1 = real(M.quantile_map_non_parametically, x, y, vals, em, im)
            r2 = real(M.quantile_map_non_parametically_with_constant_extrapolation, x, y, vals.copy(), em, im)
            if em == "kernel_density":
                corr.add(f"qmaphist3 {im} {R(edges)} {C.ilist(counts)} {R(y)} {R(vals)} {dp}", "triple", r1, sy, f"{tag} qmap {em} {im}")
                corr.add(f"qmapxhist3 {im} {R(edges)} {C.ilist(counts)} {R(x)} {R(y)} {R(vals)} {dp}", "triple", r2, sy, f"{tag} qmapx {em} {im}")
            else:
                d = "0" if em == "step_function" else dv
                corr.add(f"qmap3 {em} {im} {R(x)} {R(y)} {R(vals)} {d} {dp}", "triple", r1, sy, f"{tag} qmap {em} {im}")
                corr.add(f"qmapx3 {em} {im} {R(x)} {R(y)} {R(vals)} {d} {dp}", "triple", r2, sy, f"{tag} qmapx {em} {im}")
    # quantile_map_x_on_y_non_parametically, both modes
    em, im = EM[c["k"] % 2], IM[c["k"] % 9]
    d = "0" if em == "step_function" else dv
    corr.add(f"qmap3 {em} {im} {R(x)} {R(y)} {R(x)} {d} {dp}", "triple",
             real(M.quantile_map_x_on_y_non_parametically, x, y, "normal", em, im), sy, f"{tag} qmap_x_on_y normal {em} {im}")
    # scipy.stats.rankdata returns float32 ranks for float32 input: the probabilities then carry single precision
    sy_isimip = sy * 1e3 if x.dtype == np.float32 else sy
    corr.add(f"qmapisimip {R(x)} {R(y)}", "plain", real(M.quantile_map_x_on_y_non_parametically, x, y, "isimipv3.0"), sy_isimip, f"{tag} qmap_x_on_y isimipv3.0")
    # sort_array_like_another_one (rank based: exact comparison only for a tie-free reference)
    if np.unique(y2).size == y2.size:
        corr.add(f"sortlike {R(x)} {R(y2)}", "exact", real(U.sort_array_like_another_one, x, y2), 0.0, f"{tag} sort_array_like_another_one")
    # interp_sorted_cdf_vals_on_given_length
    cdf_vals = np.sort(np.array([Fraction(int(float(v) * 64 / scale) % 65, 64) for v in x], dtype=float))
    m = 1 + c["k"] % 15
    corr.add(f"interplen {R(cdf_vals)} {m}", "plain", real(U.interp_sorted_cdf_vals_on_given_length, cdf_vals, m), 1.0, f"{tag} interp_sorted_cdf_vals_on_given_length")
    # threshold_cdf_vals
    t = [1e-10, 0.125, 1 / 64][c["k"] % 3]
    cv = np.array([0.0, 1.0, 0.5, t, 1 - t, t / 2, 1 - t / 2] + [float(p) for p in ps[:4]])
    corr.add(f"threshold {C.rat(t)} {R(cv)}", "exact", real(U.threshold_cdf_vals, cv, t), 0.0, f"{tag} threshold_cdf_vals")


def seq_correspondence(c, corr):
    """tie of the sequence model (Model.Stats.runSeq, Props.C16.seq_*): the same call / in-place update / call sequence on
    the real functions (same array objects, updated in place) and in the driver (a store of values).  Only operations
    without a float discontinuity are used: the step ecdf, IECDF at probabilities whose index is a half-integer, and
    sort_array_like_another_one with a tie-free reference."""
    from ibicus.utils import _math_utils as M
    from ibicus.utils import _utils as U

    x, y, y2, vals = c["x"].copy(), c["y"].copy(), c["y2"].copy(), c["vals"].copy()
    ny = y.size
    ps = np.array([0.0, 1.0] + ([(j + 0.5) / (ny - 1) for j in range(ny - 1)] if ny >= 2 else [0.5]))
    tiefree = np.unique(y2).size == y2.size

    def R(a):
        return C.rlist(np.asarray(a, dtype=np.float64))

    store0 = [x.copy(), y.copy(), vals.copy(), ps.copy(), y2.copy()]
    ops, outs = [], []

    def calls():
        ops.append("ecdf:step_function:0:2")
        outs.append(quiet(M.ecdf, x, vals, "step_function"))
        ops.append("iecdf:inverted_cdf:1:3")
        outs.append(quiet(M.iecdf, y, ps, "inverted_cdf"))
        if tiefree:
            ops.append("sortlike:0:4")
            outs.append(quiet(U.sort_array_like_another_one, x, y2))
        ops.append("sortlike:1:1")
        outs.append(quiet(U.sort_array_like_another_one, y, y))

    def upd(i, a):
        if a.dtype.kind == "i":
            a += 3
            a[0] -= 7
        else:
            a *= 2
            a -= a.dtype.type(2.5 * c["scale"])
            a[a.size // 2] = a[0] + a.dtype.type(0.75 * c["scale"])
        ops.append(f"upd:{i}:{R(a)}")

    calls()
    upd(0, x)
    calls()
    upd(1, y)
    upd(4, y2)
    tiefree = np.unique(y2).size == y2.size
    calls()
    scale = float(np.abs(np.concatenate([np.asarray(o, dtype=float) for o in outs])).max())
    corr.add(f"seq {'|'.join(R(a) for a in store0)} {'|'.join(ops)}", "seq", outs, scale, f"case {c['k']} call / in-place update / call sequence")


# ------------------------------------------------------------------ the property's oracle on the real functions
def oracle(c, problems, stats):
    from ibicus.utils import _math_utils as M
    from ibicus.utils import _utils as U

    x, y, y2, vals, ps, scale = c["x"], c["y"], c["y2"], c["vals"], c["ps"], c["scale"]
    nx, ny = x.size, y.size
    cj = case_json(c)
    eps = 1e-12

    def bad(desc, sig, **extra):
        problems.append((desc, {**cj, **extra}, sig))

    ev = np.sort(np.concatenate([vals, x]))
    xmin, xmax, ymin, ymax = x.min(), x.max(), y.min(), y.max()
    # ---- ecdf
    for em in EM:
        e = quiet(M.ecdf, x, ev, em)
        const = bool(xmin == xmax)
        sig = {"method": em, "constant_sample": const} if em == "kernel_density" else {"method": em}
        if not (np.all(e >= -eps) and np.all(e <= 1 + eps)):
            bad(f"ecdf({em}) outside [0,1]: {e.tolist()}", {**sig, "law": "range"}, function="ecdf", method=em)
        if np.any(np.diff(e) < -eps):
            bad(f"ecdf({em}) decreasing in the evaluation point", {**sig, "law": "monotone"}, function="ecdf", method=em)
        at_max = float(quiet(M.ecdf, x, np.array([xmax]), em)[0])
        if em == "linear_interpolation" and nx == 1:
            if at_max != 0.0:  # Props.C16.ecdf_size_one_linear
                bad(f"ecdf(linear_interpolation) of a size-1 sample is {at_max}, the model says 0", {**sig, "law": "size_one"}, function="ecdf", method=em)
        elif em == "kernel_density" and nx == 1:
            stats["hist_size_one_skipped"] += 1  # outside the property's quantifier (size >= 2); numpy's widened bin gives 0.5
        elif at_max != 1.0:
            bad(f"ecdf({em}) at the sample maximum is {at_max}, not 1 (n={nx}{', constant sample' if const else ''})", sig if em == "kernel_density" else {**sig, "law": "at_max"},
                function="ecdf", method=em, at=float(xmax), value=at_max)
        stats["ecdf_checks"] += 1
    # ---- iecdf
    for im in IM:
        q = quiet(M.iecdf, y, ps, im)
        # exact (no tolerance): numpy's _lerp is monotone and bounded by construction, IECDF / the discrete methods index the sample
        if np.any(np.diff(q) < 0):
            j = int(np.argmax(np.diff(q) < 0))
            bad(f"iecdf({im}) decreases in p: p = {ps[j]!r} -> {q[j]!r}, p = {ps[j + 1]!r} -> {q[j + 1]!r}", {"method": im, "law": "monotone"}, function="iecdf", method=im)
        if np.any(q < ymin) or np.any(q > ymax):
            j = int(np.argmax((q < ymin) | (q > ymax)))
            bad(f"iecdf({im}) leaves [min, max] = [{float(ymin)!r}, {float(ymax)!r}]: p = {ps[j]!r} -> {q[j]!r}", {"method": im, "law": "range"}, function="iecdf", method=im)
        q01 = quiet(M.iecdf, y, np.array([0.0, 1.0]), im)
        if q01[0] != ymin or q01[1] != ymax:
            bad(f"iecdf({im}) at p=0/1 is {q01.tolist()}, sample min/max {float(ymin)}/{float(ymax)}", {"method": im, "law": "endpoints"}, function="iecdf", method=im)
        stats["iecdf_checks"] += 1
    # ---- quantile maps
    sv = np.sort(vals)
    tolq = 1e-9 * (1 + float(np.abs(y).max()) + float(np.abs(vals).max()))
    for em in EM:
        for im in IM:
            q_raw = raw(M.quantile_map_non_parametically, x, y, sv, em, im)
            qx_raw = raw(M.quantile_map_non_parametically_with_constant_extrapolation, x, y, sv.copy(), em, im)
            dsig = {"method": em, "iecdf": im, "input_dtype": str(x.dtype)}
            if q_raw.dtype != y.dtype or qx_raw.dtype != y.dtype:
                bad(f"quantile map ({em},{im}) of {x.dtype} values onto a {y.dtype} target returns dtype {q_raw.dtype} / with extrapolation {qx_raw.dtype}: "
                    f"the result does not carry the target's precision", {**dsig, "law": "result_dtype"}, function="qmap/qmapx", pair=[em, im])
            q = q_raw.astype(float)
            if im in DISCRETE_IM and not np.all(np.isin(q, y)):
                bad(f"quantile_map_non_parametically({em},{im}) returns {q[~np.isin(q, y)][:3].tolist()}, not values of the target sample", {**dsig, "law": "qmap_values_of_target"},
                    function="qmap", pair=[em, im])
            if np.any(np.diff(q) < 0):
                bad(f"quantile_map_non_parametically({em},{im}) not monotone", {"method": em, "iecdf": im, "law": "qmap_monotone"}, function="qmap", pair=[em, im])
            if np.any(q < ymin) or np.any(q > ymax):  # exact
                bad(f"quantile_map_non_parametically({em},{im}) leaves [min y, max y] = [{float(ymin)!r}, {float(ymax)!r}]: {q[(q < ymin) | (q > ymax)][:3].tolist()}", {"method": em, "iecdf": im, "law": "qmap_range"}, function="qmap", pair=[em, im])
            qx = qx_raw.astype(float)
            above, below = sv > xmax, sv < xmin
            inside = ~above & ~below
            if np.any(qx[above] != sv[above] + (ymax - xmax)) or np.any(qx[below] != sv[below] + (ymin - xmin)):
                bad(f"constant extrapolation ({em},{im}): outside [min x, max x] the result is not value + (min y - min x) / (max y - max x)",
                    {"method": em, "iecdf": im, "law": "extrapolation_shift"}, function="qmapx", pair=[em, im])
            if np.any(qx[inside] != q[inside]):
                bad(f"constant extrapolation ({em},{im}) changes values inside the source range: {qx[inside][qx[inside] != q[inside]][:3].tolist()} vs {q[inside][qx[inside] != q[inside]][:3].tolist()}", {"method": em, "iecdf": im, "law": "extrapolation_inside"}, function="qmapx", pair=[em, im])
            if np.any(np.diff(qx) < -tolq):
                bad(f"constant extrapolation ({em},{im}) not monotone", {"method": em, "iecdf": im, "law": "extrapolation_monotone"}, function="qmapx", pair=[em, im])
            if nx >= 2 and ny >= 2 and not (em == "kernel_density" and xmin == xmax):
                atmax = float(quiet(M.quantile_map_non_parametically_with_constant_extrapolation, x, y, np.array([xmax]), em, im)[0])
                if abs(atmax - ymax) > tolq:  # continuity at the upper end
                    bad(f"constant extrapolation ({em},{im}) jumps at max x: value {atmax}, limit from above {float(ymax)}", {"method": em, "iecdf": im, "law": "extrapolation_continuity"},
                        function="qmapx", pair=[em, im])
            stats["qmap_checks"] += 1
    # ---- equal sizes, tie-free source: the target's values in the source's rank order
    if nx == ny and nx >= 2 and np.unique(x).size == nx:
        want = quiet(U.sort_array_like_another_one, y, x)
        for em, im in EXACT_PAIRS:
            out = quiet(M.quantile_map_x_on_y_non_parametically, x, y, "normal", em, im)
            outx = quiet(M.quantile_map_non_parametically_with_constant_extrapolation, x, y, x.copy(), em, im)
            stats["equal_size_checks"] += 1
            if (em, im) in EXACT_BITWISE_PAIRS:  # no interpolation arithmetic involved: exactly the target's values
                stats["equal_size_bitwise_checks"] += 1
                if not np.array_equal(out, want) or not np.array_equal(outx, want):
                    bad(f"mapping a tie-free {x.dtype} sample onto an equally sized target with ({em},{im}) does not reproduce the target's values exactly: "
                        f"max deviation {float(np.max(np.abs(out - want))):.3g} (plain), {float(np.max(np.abs(outx - want))):.3g} (with extrapolation)",
                        {"method": em, "iecdf": im, "law": "equal_sizes_exact", "input_dtype": str(x.dtype)}, function="quantile_map_x_on_y_non_parametically", pair=[em, im])
                continue
            if np.all(np.abs(out - want) <= tolq) and np.all(np.abs(outx - want) <= tolq):
                continue
            if (em, im) in FLOAT_FRAGILE_PAIRS:
                # accept the neighbouring order statistic (float floor at an integer) and count it
                ys = np.sort(y)
                rk = np.argsort(np.argsort(x))
                okn = all(abs(o - ys[r]) <= tolq or (r > 0 and abs(o - ys[r - 1]) <= tolq) for o, r in zip(out, rk))
                if okn:
                    stats["equal_size_float_neighbour"] += 1
                    continue
            bad(f"mapping a tie-free sample onto an equally sized target with ({em},{im}) does not reproduce the target in the source's rank order: {out.tolist()} (with extrapolation {outx.tolist()}) vs {want.tolist()}",
                {"method": em, "iecdf": im, "law": "equal_sizes"}, function="quantile_map_x_on_y_non_parametically", pair=[em, im])
    # ---- sort_array_like_another_one
    out = quiet(U.sort_array_like_another_one, x, y2)
    if not np.array_equal(np.sort(out), np.sort(x)):
        bad("sort_array_like_another_one: result is not a permutation of the first argument", {"law": "sortlike_perm"}, function="sort_array_like_another_one")
    lt = y2[:, None] < y2[None, :]
    if np.any(lt & (out[:, None] > out[None, :])):
        bad(f"sort_array_like_another_one: result {out.tolist()} is not ordered like the second argument {y2.tolist()}", {"law": "sortlike_order"}, function="sort_array_like_another_one")
    stats["sortlike_checks"] += 1
    # ---- ISIMIP rank interpolation
    z = quiet(M.quantile_map_x_on_y_non_parametically, x, y, "isimipv3.0")
    if np.any(z < ymin - tolq) or np.any(z > ymax + tolq):
        bad("isimipv3.0 quantile map leaves [min y, max y]", {"law": "isimip_range"}, function="isimip")
    o = np.argsort(x, kind="stable")
    if np.any(np.diff(z[o]) < -tolq):
        bad("isimipv3.0 quantile map not monotone", {"law": "isimip_monotone"}, function="isimip")
    # ---- the oracle laws the histogram theorems carry, on numpy's actual bins
    edges, counts = hist_of(x)
    if xmin < xmax:
        if not (edges.size == counts.size + 1 and np.all(np.diff(edges) > 0) and counts.sum() > 0 and edges[-1] == xmax and edges[0] == xmin):
            bad("np.histogram(bins='auto') bins violate the oracle laws of Props.C16.ecdfHist_* on a non-constant sample", {"law": "hist_oracle"}, function="np.histogram",
                edges=edges.tolist(), counts=counts.tolist())
    stats["hist_constant" if xmin == xmax else "hist_nonconstant"] += 1


def oracle_purity(c, problems, stats):
    """(1) no public helper modifies its arguments (byte comparison); (2) the result does not depend on whether the
    arguments share memory (same object, reversed view, overlapping windows of one buffer) — compared with the call on
    independent copies; (3) a sequence of calls on the same array objects gives what the calls give on fresh copies."""
    from ibicus.utils import _math_utils as M
    from ibicus.utils import _utils as U

    cj = case_json(c)
    x0, y0, y20, vals0, ps0 = c["x"], c["y"], c["y2"], c["vals"], c["ps"]
    k = c["k"]
    em, im = EM[k % 3], IM[k % 9]

    def bad(desc, sig, **extra):
        problems.append((desc, {**cj, **extra}, sig))

    def same(a, b):
        a, b = np.asarray(a), np.asarray(b)
        return a.shape == b.shape and a.dtype == b.dtype and (a.tobytes() == b.tobytes() or np.array_equal(a, b, equal_nan=True))

    def call(f, *args):
        with warnings.catch_warnings(), np.errstate(all="ignore"):
            warnings.simplefilter("ignore")
            return np.asarray(f(*args))

    cdf_vals = np.sort(np.clip(np.abs(np.asarray(x0, dtype=float)) / (1 + np.abs(np.asarray(x0, dtype=float)).max()), 0, 1))
    calls = [
        ("ecdf", M.ecdf, lambda: [x0.copy(), vals0.copy(), em]),
        ("iecdf", M.iecdf, lambda: [y0.copy(), ps0.copy(), im]),
        ("quantile_map_non_parametically", M.quantile_map_non_parametically, lambda: [x0.copy(), y0.copy(), vals0.copy(), em, im]),
        ("quantile_map_non_parametically_with_constant_extrapolation", M.quantile_map_non_parametically_with_constant_extrapolation,
         lambda: [x0.copy(), y0.copy(), vals0.copy(), em, im]),
        ("quantile_map_x_on_y_non_parametically", M.quantile_map_x_on_y_non_parametically, lambda: [x0.copy(), y0.copy(), "normal", em, im]),
        ("quantile_map_x_on_y_non_parametically[isimipv3.0]", M.quantile_map_x_on_y_non_parametically, lambda: [x0.copy(), y0.copy(), "isimipv3.0"]),
        ("sort_array_like_another_one", U.sort_array_like_another_one, lambda: [x0.copy(), y20.copy()]),
        ("interp_sorted_cdf_vals_on_given_length", U.interp_sorted_cdf_vals_on_given_length, lambda: [cdf_vals.copy(), 1 + k % 9]),
        ("threshold_cdf_vals", U.threshold_cdf_vals, lambda: [ps0.copy(), 0.125]),
    ]
    # (1) inputs unchanged
    for name, f, mk in calls:
        args = mk()
        before = [a.tobytes() if isinstance(a, np.ndarray) else None for a in args]
        call(f, *args)
        for i, (a, b) in enumerate(zip(args, before)):
            if b is not None and a.tobytes() != b:
                bad(f"{name} modifies its argument #{i + 1} in place", {"law": "inputs_unchanged", "function": name}, function=name, argument=i + 1)
        stats["inputs_unchanged_checks"] += 1

    # (2) aliased arguments: same object / reversed view / overlapping windows of one buffer
    n = x0.size
    buf = np.concatenate([x0, y20[:1]]) if n >= 1 else x0.copy()
    alias_cases = [
        ("the same array passed twice", lambda: (lambda a: (a, a))(x0.copy())),
        ("second argument is a reversed view of the first", lambda: (lambda a: (a, a[::-1]))(x0.copy())),
        ("overlapping windows of one buffer", lambda: (lambda b: (b[:n], b[1:n + 1]))(buf.copy())),
    ]
    two_arg = [
        ("sort_array_like_another_one", U.sort_array_like_another_one, ()),
        ("ecdf", M.ecdf, (em,)),
        ("quantile_map_x_on_y_non_parametically", M.quantile_map_x_on_y_non_parametically, ("normal", em, im)),
    ]
    for how, mk in alias_cases:
        for name, f, extra in two_arg:
            a, b = mk()
            want = call(f, a.copy(), b.copy(), *extra)
            got = call(f, a, b, *extra)
            stats["aliasing_checks"] += 1
            if not same(got, want):
                bad(f"{name}: with {how} the result {got.tolist()[:6]} differs from the result on independent copies {want.tolist()[:6]}",
                    {"law": "aliasing", "function": name}, function=name, aliasing=how)
    a = x0.copy()
    got = call(M.quantile_map_non_parametically_with_constant_extrapolation, a, y0, a, em, im)
    want = call(M.quantile_map_non_parametically_with_constant_extrapolation, x0.copy(), y0.copy(), x0.copy(), em, im)
    if not same(got, want):
        bad("quantile_map_non_parametically_with_constant_extrapolation(x, y, vals=x): result differs from the call on independent copies",
            {"law": "aliasing", "function": "qmapx"}, function="qmapx", aliasing="vals is x")

    # (3) call sequences on the same array objects
    xa, ya = x0.copy(), y20.copy()
    r1 = call(U.sort_array_like_another_one, xa, ya)
    r2 = call(U.sort_array_like_another_one, ya, xa)
    r3 = call(U.sort_array_like_another_one, xa, ya)
    w1 = call(U.sort_array_like_another_one, x0.copy(), y20.copy())
    w2 = call(U.sort_array_like_another_one, y20.copy(), x0.copy())
    stats["sequence_checks"] += 1
    if not (same(r1, w1) and same(r2, w2) and same(r3, w1)):
        bad(f"sort_array_like_another_one: the sequence f(x,y), f(y,x), f(x,y) on the same arrays gives {r2.tolist()[:6]} for the second call, "
            f"fresh copies give {w2.tolist()[:6]}", {"law": "call_sequence", "function": "sort_array_like_another_one"}, function="sort_array_like_another_one")
    xa, ya, va = x0.copy(), y0.copy(), vals0.copy()
    q1 = call(M.quantile_map_non_parametically_with_constant_extrapolation, xa, ya, va, em, im)
    q2 = call(M.quantile_map_non_parametically, xa, ya, va, em, im)
    q3 = call(M.quantile_map_non_parametically_with_constant_extrapolation, xa, ya, va, em, im)
    if not same(q1, q3) or not same(q2, call(M.quantile_map_non_parametically, x0.copy(), y0.copy(), vals0.copy(), em, im)):
        bad("quantile maps: repeating the calls on the same arrays changes the result", {"law": "call_sequence", "function": "qmap"}, function="qmap")


def oracle_subvectors(c, problems, stats):
    """every helper is element-wise in its evaluation vector (Props.C16.qmap_elementwise, qmapExtrap_eq_map, ecdf_elementwise,
    iecdf_elementwise): evaluated on a sub-vector — values below the source range only, above only, inside only, a single
    value, a permutation, repeats — it returns the corresponding entries of the call on the whole vector, bit for bit"""
    from ibicus.utils import _math_utils as M

    x, y, vals, ps = c["x"], c["y"], c["vals"], c["ps"]
    cj = case_json(c)
    k = c["k"]
    xmin, xmax = x.min(), x.max()
    idx_all = np.arange(vals.size)
    below, above = idx_all[vals < xmin], idx_all[vals > xmax]
    inside = idx_all[(vals >= xmin) & (vals <= xmax)]
    perm = np.random.RandomState(k).permutation(vals.size)
    subs = [("values below the source range only", below), ("values above the source range only", above), ("values inside the source range only", inside),
            ("below and inside, none above", np.concatenate([below, inside])), ("above and inside, none below", np.concatenate([inside, above])),
            ("a single value below", below[:1]), ("a single value above", above[:1]), ("a single value inside", inside[:1]),
            ("a permutation", perm), ("repeated values", np.concatenate([idx_all[:3], idx_all[:3], above[:1], below[:1]]))]
    pidx = np.arange(ps.size)
    psubs = [("a single probability", pidx[k % ps.size:k % ps.size + 1]), ("p = 0 alone", pidx[:1]), ("p = 1 alone", pidx[-1:]), ("reversed", pidx[::-1]), ("every other", pidx[::2])]
    pairs = [(EM[k % 3], IM[k % 9]), ("step_function", "inverted_cdf"), (EM[(k + 1) % 3], "linear")]

    def run1(f, *a):
        with warnings.catch_warnings(), np.errstate(all="ignore"):
            warnings.simplefilter("ignore")
            return np.asarray(f(*a))

    def cmp(name, full, sub, idx, how, args):
        stats["subvector_checks"] += 1
        if sub.shape != idx.shape or not np.array_equal(sub, full[idx], equal_nan=True):
            j = int(np.argmax(sub != full[idx])) if sub.shape == idx.shape else 0
            problems.append((f"{name}: evaluated on {how} it returns {sub.ravel()[j:j + 1].tolist()} for the value {args[j:j + 1].tolist()}; within the whole vector the same value gets "
                             f"{full[idx][j:j + 1].tolist()}", {**cj, "function": name, "subvector": how, "sub_values": args.tolist()}, {"law": "elementwise", "function": name.split("[")[0]}))

    for em, im in pairs:
        fq = run1(M.quantile_map_non_parametically, x, y, vals, em, im)
        fx = run1(M.quantile_map_non_parametically_with_constant_extrapolation, x, y, vals, em, im)
        for how, idx in subs:
            if idx.size == 0:
                continue
            v = vals[idx]
            cmp(f"quantile_map_non_parametically[{em},{im}]", fq, run1(M.quantile_map_non_parametically, x, y, v, em, im), idx, how, v)
            cmp(f"quantile_map_non_parametically_with_constant_extrapolation[{em},{im}]", fx,
                run1(M.quantile_map_non_parametically_with_constant_extrapolation, x, y, v, em, im), idx, how, v)
    for em in EM:
        fe = run1(M.ecdf, x, vals, em)
        for how, idx in subs:
            if idx.size:
                cmp(f"ecdf[{em}]", fe, run1(M.ecdf, x, vals[idx], em), idx, how, vals[idx])
    for im in ("inverted_cdf", "linear", IM[k % 9]):
        fi = run1(M.iecdf, y, ps, im)
        for how, idx in psubs:
            cmp(f"iecdf[{im}]", fi, run1(M.iecdf, y, ps[idx], im), idx, how, ps[idx])


# ------------------------------------------------------------------ evaluation points / probabilities given as n-d arrays
# Quantifier covered: "for all ... ALL EVALUATION POINTS AND PROBABILITIES".  The helpers take the points as an np.ndarray and act on every
# point separately; nothing in the statement ties the laws to a particular number of dimensions, shape or memory layout of that array
# (a time x location block, time x lat x lon, a column / row vector, Fortran order, a transposed / strided / reversed view).  Every other
# generator of this check hands the points over as a 1-d C-contiguous vector, so code that treats a boolean mask as a list of first-axis
# indices, flattens in memory order, or assumes `.shape[0] == .size` was never exercised.  The laws are judged directly on the n-d result,
# point by point (index i of the result belongs to index i of the points): ecdf in [0,1] / non-decreasing in the point / 1 at the sample maximum;
# iecdf non-decreasing in p / within [min, max] / min and max at p = 0, 1; quantile maps monotone / into the range of the target / value +
# constant shift outside the source range / inside the source range the plain map; and the image of a point does not depend on where in
# which array it sits (the same as on the flattened points: Props.C16.qmap_elementwise, qmapExtrap_eq_map, ecdf_elementwise, iecdf_elementwise).
# Guards: at least one dimension (a 0-d array is a scalar, the extrapolating variant assigns by mask); with more than two dimensions only the
# iecdf method 'inverted_cdf' (ibicus' own IECDF) — numpy's np.quantile refuses q with more than 2 dimensions ("q must be a scalar or 1d"), which
# is numpy's restriction and not a law of the property.
GRID_LAYOUTS = ["C", "F", "transposed_view", "strided_view", "reversed_view"]


def grid_layout(a, layout):
    """the same logical array (same shape, same value at every index) in another memory layout"""
    a = np.array(a, order="C")
    if layout == "F":
        return np.asfortranarray(a)
    if layout == "transposed_view":
        return np.ascontiguousarray(a.T).T
    if layout == "strided_view":
        buf = np.zeros(a.shape[:-1] + (2 * a.shape[-1],), dtype=a.dtype)
        buf[..., ::2] = a
        return buf[..., ::2]
    if layout == "reversed_view":
        return np.ascontiguousarray(a[::-1])[::-1]
    return a


def gen_grids(c):
    """the case's evaluation points / probabilities laid out as n-d arrays; own PRNG stream (C.seed(), case number)"""
    rg = random.Random(C.seed() * 104729 + 161616 + 7919 * int(c["k"]))
    vals, ps, x = c["vals"], c["ps"], c["x"]

    def fill(src, n):  # every element of src at least once, the rest drawn from src, shuffled
        idx = list(range(src.size)) + [rg.randrange(src.size) for _ in range(n - src.size)]
        rg.shuffle(idx)
        return src[idx]

    def shape2(size):
        r = rg.choice([2, 3, 4, 5])
        return (r, -(-size // r))

    def shape3(size):
        b = rg.choice([2, 3])
        return (2, b, -(-size // (2 * b)))

    grids = []
    for kind, src in (("values", vals), ("probabilities", ps)):
        for shp in (shape2(src.size), shape3(src.size), (src.size, 1) if c["k"] % 2 else (1, src.size)):
            grids.append((kind, fill(src, int(np.prod(shp))).reshape(shp), rg.choice(GRID_LAYOUTS) if min(shp) > 1 else "C"))
    # a block of points inside the source range with ONE point outside it (below or above): the usual situation of a future period
    inside = vals[(vals >= x.min()) & (vals <= x.max())]
    outside = vals[(vals > x.max())] if rg.random() < 0.5 else vals[(vals < x.min())]
    if inside.size and outside.size:
        shp = (rg.choice([2, 3, 4]), rg.choice([2, 3, 4]))
        g = np.array([inside[rg.randrange(inside.size)] for _ in range(shp[0] * shp[1])], dtype=vals.dtype)
        g[rg.randrange(g.size)] = outside[rg.randrange(outside.size)]
        grids.append(("values", g.reshape(shp), rg.choice(GRID_LAYOUTS)))
    return grids


def judge_grid(c, kind, G, layout, pairs, problems, stats):
    """the property's laws on the n-d array G of evaluation points (kind 'values') or probabilities, handed over in the given layout"""
    from ibicus.utils import _math_utils as M

    x, y = c["x"], c["y"]
    nx = x.size
    xmin, xmax, ymin, ymax = x.min(), x.max(), y.min(), y.max()
    G = np.array(G, order="C")
    g = G.ravel().copy()  # index i of the flattened result belongs to point g[i]
    order = np.argsort(g, kind="stable")
    cj = {**case_json(c), "grid": G.tolist(), "grid_kind": kind, "grid_layout": layout, "grid_shape": list(G.shape)}
    where = f"on a {'x'.join(str(s) for s in G.shape)} array of {'evaluation points' if kind == 'values' else 'probabilities'} (layout {layout})"
    tolq = 1e-9 * (1 + float(np.abs(y).max()) + float(np.abs(c["vals"]).max()))
    eps = 1e-12

    def run1(f, *a):
        try:
            with warnings.catch_warnings(), np.errstate(all="ignore"):
                warnings.simplefilter("ignore")
                return np.asarray(f(*a))
        except Exception as ex:  # noqa: BLE001
            return ex

    def evaluate(name, f, args_before, args_after, sig):
        """-> (result on the grid flattened in index order, result on the flattened points) or None"""
        got = run1(f, *args_before, grid_layout(G, layout), *args_after)
        flat = run1(f, *args_before, g.copy(), *args_after)
        stats["grid_checks"] += 1
        if isinstance(flat, Exception):
            stats["grid_skipped_flat_call_raises"] += 1
            return None
        if isinstance(got, Exception):
            problems.append((f"{name} {where} raises {type(got).__name__}: {str(got)[:200]}; on the same points as a 1-d vector it returns values",
                             {**cj, "function": name, **sig}, {**sig, "law": "nd_exception", "function": name}))
            return None
        if got.shape != G.shape:
            problems.append((f"{name} {where} returns an array of shape {list(got.shape)}: not one value per point", {**cj, "function": name, **sig},
                             {**sig, "law": "nd_shape", "function": name}))
            return None
        r, fl = got.astype(float).ravel(), flat.astype(float).ravel()
        if not np.array_equal(r, fl, equal_nan=True):
            j = int(np.argmax(r != fl))
            problems.append((f"{name} {where}: the point {g[j]!r} at index {list(map(int, np.unravel_index(j, G.shape)))} gets {r[j]!r}; the same point in the flattened vector gets {fl[j]!r}",
                             {**cj, "function": name, **sig}, {**sig, "law": "nd_elementwise", "function": name}))
        return r

    def bad(name, desc, law, sig):
        problems.append((f"{name} {where}: {desc}", {**cj, "function": name, **sig}, {**sig, "law": law, "function": name}))

    if kind == "values":
        above, below = g > xmax, g < xmin
        inside = ~above & ~below
        for em in EM:
            sig = {"method": em}
            e = evaluate("ecdf", M.ecdf, (x,), (em,), sig)
            if e is None:
                continue
            if not (np.all(e >= -eps) and np.all(e <= 1 + eps)):
                bad("ecdf", f"values outside [0,1]: {e[(e < -eps) | (e > 1 + eps)][:3].tolist()}", "nd_range", sig)
            if np.any(np.diff(e[order]) < -eps):
                bad("ecdf", "decreasing in the evaluation point", "nd_monotone", sig)
            if nx >= 2 and not (em == "kernel_density" and xmin == xmax) and np.any(e[g == xmax] != 1.0):
                bad("ecdf", f"{e[g == xmax][:3].tolist()} at the sample maximum, not 1", "nd_at_max", sig)
        for em, im in pairs:
            if G.ndim > 2 and im != "inverted_cdf":
                stats["grid_skipped_np_quantile_q_ndim"] += 1
                continue
            sig = {"method": em, "iecdf": im}
            q = evaluate("quantile_map_non_parametically", M.quantile_map_non_parametically, (x, y), (em, im), sig)
            if q is not None:
                if np.any(q < ymin) or np.any(q > ymax):
                    j = int(np.argmax((q < ymin) | (q > ymax)))
                    bad("quantile_map_non_parametically", f"the point {g[j]!r} is mapped to {q[j]!r}, outside [min y, max y] = [{float(ymin)!r}, {float(ymax)!r}]", "nd_range", sig)
                if np.any(np.diff(q[order]) < 0):
                    bad("quantile_map_non_parametically", "not monotone in the evaluation point", "nd_monotone", sig)
            name = "quantile_map_non_parametically_with_constant_extrapolation"
            qx = evaluate(name, M.quantile_map_non_parametically_with_constant_extrapolation, (x, y), (em, im), sig)
            if qx is not None:
                if np.any(qx[inside] < ymin) or np.any(qx[inside] > ymax):
                    j = int(np.argmax(inside & ((qx < ymin) | (qx > ymax))))
                    bad(name, f"the point {g[j]!r} inside the source range [{float(xmin)!r}, {float(xmax)!r}] is mapped to {qx[j]!r}, outside [min y, max y] = [{float(ymin)!r}, {float(ymax)!r}]",
                        "nd_range", sig)
                if np.any(qx[above] != g[above] + (ymax - xmax)) or np.any(qx[below] != g[below] + (ymin - xmin)):
                    bad(name, "outside [min x, max x] the result is not value + (min y - min x) / (max y - max x)", "nd_extrapolation_shift", sig)
                if q is not None and np.any(qx[inside] != q[inside]):
                    bad(name, "inside the source range the result differs from the plain quantile map", "nd_extrapolation_inside", sig)
                if np.any(np.diff(qx[order]) < -tolq):
                    j = int(np.argmax(np.diff(qx[order]) < -tolq))
                    bad(name, f"not monotone in the evaluation point: {g[order][j]!r} -> {qx[order][j]!r}, {g[order][j + 1]!r} -> {qx[order][j + 1]!r}", "nd_monotone", sig)
    else:
        for im in IM:
            if G.ndim > 2 and im != "inverted_cdf":
                stats["grid_skipped_np_quantile_q_ndim"] += 1
                continue
            sig = {"method": im}
            q = evaluate("iecdf", lambda p, yy, m: M.iecdf(yy, p, m), (), (y, im), sig)
            if q is None:
                continue
            if np.any(np.diff(q[order]) < 0):
                bad("iecdf", "decreases in p", "nd_monotone", sig)
            if np.any(q < ymin) or np.any(q > ymax):
                bad("iecdf", f"leaves [min, max] = [{float(ymin)!r}, {float(ymax)!r}]: {q[(q < ymin) | (q > ymax)][:3].tolist()}", "nd_range", sig)
            if np.any(q[g == 0.0] != ymin) or np.any(q[g == 1.0] != ymax):
                bad("iecdf", f"p = 0 / 1 give {q[g == 0.0][:2].tolist()} / {q[g == 1.0][:2].tolist()}, sample min / max {float(ymin)!r} / {float(ymax)!r}", "nd_endpoints", sig)
    stats["grid_" + kind] += 1
    stats[f"grid_{G.ndim}d"] += 1
    stats["grid_layout_" + layout] += 1


def oracle_grids(c, problems, stats):
    k = int(c["k"])
    pairs = [(EM[k % 3], IM[k % 9]), ("step_function", "inverted_cdf"), (EM[(k + 1) % 3], "linear"), (EM[(k + 2) % 3], "inverted_cdf")]
    for kind, G, layout in gen_grids(c):
        judge_grid(c, kind, G, layout, pairs, problems, stats)


def oracle_endpoints(n, rng, problems, stats):
    """the end points, exactly, for a tie-free sample of size n: ecdf == 1.0 at and above the maximum, == 0.0 below the
    minimum (float evaluation of k/n must not miss them), iecdf(0/1) == min/max, quantile map of max x == max y for all
    27 pairs, and the equal-size identity on the whole sample"""
    from ibicus.utils import _math_utils as M
    from ibicus.utils import _utils as U

    x = np.array(rng.sample(range(-2 * n, 2 * n + 1), n), dtype=float) / 4.0
    y = np.array(rng.sample(range(-3 * n, 3 * n + 1), n), dtype=float) / 8.0 + 100.0
    info = {"n": n, "x": x.tolist() if n <= 64 else {"first": x[:8].tolist(), "python_seed_of_case": f"random.Random({C.seed()} * 7 + {n}) -> sample(range(-2n, 2n+1), n)/4"},
            "y": y.tolist() if n <= 64 else {"first": y[:8].tolist()}, "generator": "endpoints"}

    def bad(desc, sig):
        problems.append((desc, info, {**sig, "n_class": "endpoints"}))

    xmax, xmin, ymax, ymin = x.max(), x.min(), y.max(), y.min()
    pts = np.array([xmax, xmax + 0.25, 1e30, xmin - 0.125, -1e30])
    for em in EM:
        if n == 1 and em != "step_function":
            continue  # size 1: stated separately (linear -> 0), histogram of a single value is the F15 case
        e = quiet(M.ecdf, x, pts, em)
        if not (e[0] == 1.0 and e[1] == 1.0 and e[2] == 1.0):
            bad(f"ecdf({em}) of a sample of size {n} is {e[:3].tolist()} at / above the sample maximum, not exactly 1", {"method": em, "law": "at_max"})
        if not (e[3] == 0.0 and e[4] == 0.0):
            bad(f"ecdf({em}) of a sample of size {n} is {e[3:].tolist()} below the sample minimum, not exactly 0", {"method": em, "law": "below_min"})
    if n >= 2:
        for im in IM:
            q01 = quiet(M.iecdf, y, np.array([0.0, 1.0]), im)
            if q01[0] != ymin or q01[1] != ymax:
                bad(f"iecdf({im}), n={n}: p=0/1 give {q01.tolist()}, sample min/max {float(ymin)}/{float(ymax)}", {"method": im, "law": "endpoints"})
        pairs = [(em, im) for em in EM for im in IM] if n % 7 == 0 or n > 400 else [(em, "inverted_cdf") for em in EM] + [("step_function", im) for im in IM]
        for em, im in pairs:
            v = quiet(M.quantile_map_non_parametically, x, y, np.array([xmax, xmax + 1.0]), em, im)
            if v[0] != ymax or v[1] != ymax:
                bad(f"quantile map ({em},{im}), n={n}: the source maximum is mapped to {v.tolist()}, the target maximum is {float(ymax)}", {"method": em, "iecdf": im, "law": "qmap_at_max"})
        want = quiet(U.sort_array_like_another_one, y, x)
        for em, im in EXACT_PAIRS:
            if (em, im) in FLOAT_FRAGILE_PAIRS:
                continue
            out = quiet(M.quantile_map_x_on_y_non_parametically, x, y, "normal", em, im)
            exact = (em, im) in EXACT_BITWISE_PAIRS
            okk = np.array_equal(out, want) if exact else np.all(np.abs(out - want) <= 1e-9 * (1 + np.abs(y).max()))
            if not okk:
                i = int(np.argmax(np.abs(out - want)))
                bad(f"equal sizes ({em},{im}), n={n}: x[{i}] = {x[i]} (rank {int((x < x[i]).sum())} of {n}) is mapped to {out[i]} instead of the target's order statistic {want[i]}",
                    {"method": em, "iecdf": im, "law": "equal_sizes"})
        # related source / target at every size (quantifier "for all samples": the pair may hold the same values): whatever lies
        # outside the source range has ecdf exactly 0 / 1 and must be mapped exactly to min / max of the target (range law + end points)
        im = IM[n % 9]
        out_pts = np.array([xmin - 0.5, -1e30, xmax + 1.0, 1e30])
        for how, tgt in (("an equal copy of the source", x.copy()), ("the source array itself", x), ("the reversed source", x[::-1].copy())):
            for em in EM:
                v = quiet(M.quantile_map_non_parametically, x, tgt, out_pts, em, im)
                if not (v.shape == (4,) and v[0] == xmin and v[1] == xmin and v[2] == xmax and v[3] == xmax):
                    bad(f"quantile map ({em},{im}), n={n}, target = {how}: values outside the source range {out_pts.tolist()} are mapped to {v.tolist()}, "
                        f"not to min / max of the target [{float(xmin)}, {float(xmax)}]", {"method": em, "iecdf": im, "law": "qmap_range"})
                stats["endpoint_related_checks"] += 1
    stats["endpoint_sizes"] += 1


def oracle_inplace_sequences(c, problems, stats):
    """call, update one argument IN PLACE (same array object: a -= c, a *= 2, a[i] = v), call again: the second result
    must be what a call on fresh copies of the updated arrays gives (no state may survive between calls)"""
    from ibicus.utils import _math_utils as M
    from ibicus.utils import _utils as U

    cj = case_json(c)
    x0, y0, y20, vals0, ps0 = c["x"], c["y"], c["y2"], c["vals"], c["ps"]
    k = c["k"]
    em = EM[k % 3]

    def call(f, *args):
        with warnings.catch_warnings(), np.errstate(all="ignore"):
            warnings.simplefilter("ignore")
            return np.asarray(f(*args))

    def update(a, kind):
        if kind == "prob":
            a *= 0.5
        elif a.dtype.kind == "i":
            a += 3
            a[0] -= 7
        else:
            a *= 2
            a -= a.dtype.type(2.5 * c["scale"])
            a[a.size // 2] = a[0] + a.dtype.type(0.75 * c["scale"])

    specs = []
    for im in ("inverted_cdf", IM[1 + k % 8]):
        specs += [
            (f"iecdf[{im}]", M.iecdf, lambda im=im: [y0.copy(), ps0.copy(), im], {0: "val", 1: "prob"}),
            (f"quantile_map_non_parametically[{em},{im}]", M.quantile_map_non_parametically, lambda im=im: [x0.copy(), y0.copy(), vals0.copy(), em, im], {0: "val", 1: "val", 2: "val"}),
            (f"quantile_map_non_parametically_with_constant_extrapolation[{em},{im}]", M.quantile_map_non_parametically_with_constant_extrapolation,
             lambda im=im: [x0.copy(), y0.copy(), vals0.copy(), em, im], {0: "val", 1: "val", 2: "val"}),
            (f"quantile_map_x_on_y_non_parametically[{em},{im}]", M.quantile_map_x_on_y_non_parametically, lambda im=im: [x0.copy(), y0.copy(), "normal", em, im], {0: "val", 1: "val"}),
        ]
    specs += [(f"ecdf[{e}]", M.ecdf, (lambda e=e: [x0.copy(), vals0.copy(), e]), {0: "val", 1: "val"}) for e in EM]
    specs += [("IECDF", lambda a, p: M.IECDF(a)(p), lambda: [y0.copy(), ps0.copy()], {0: "val"}),
              ("sort_array_like_another_one", U.sort_array_like_another_one, lambda: [x0.copy(), y20.copy()], {0: "val", 1: "val"}),
              ("quantile_map_x_on_y_non_parametically[isimipv3.0]", M.quantile_map_x_on_y_non_parametically, lambda: [x0.copy(), y0.copy(), "isimipv3.0"], {0: "val", 1: "val"})]
    for name, f, mk, positions in specs:
        for i, kind in positions.items():
            args = mk()
            if c["dtype"] == "float32" and c["scale"] > 1 and "kernel_density" in name:
                continue  # updates may make a float32 sample of huge magnitude constant: np.histogram raises (F15 variant)
            try:
                call(f, *args)
                update(args[i], kind)
                got = call(f, *args)
                want = call(f, *[a.copy() if isinstance(a, np.ndarray) else a for a in args])
            except ValueError:
                stats["inplace_sequence_skipped_error"] += 1
                continue
            stats["inplace_sequence_checks"] += 1
            if not (got.shape == want.shape and np.array_equal(got, want, equal_nan=True)):
                j = int(np.argmax(got != want)) if got.shape == want.shape else 0
                problems.append((f"{name}: after an in-place update of argument #{i + 1} (same array object) the second call returns {got.ravel()[j:j + 3].tolist()} where a call on a "
                                 f"fresh copy of the updated arrays returns {want.ravel()[j:j + 3].tolist()} — stale state survives between calls",
                                 {**cj, "function": name, "updated_argument": i + 1}, {"law": "inplace_sequence", "function": name.split("[")[0]}))


# ------------------------------------------------------------------ the check
def run(tier, res, force_search=False):
    import collections

    rng = random.Random(C.seed() * 104729 + 16)
    res.rule = ("cases = (x, y, y2, evaluation points, probabilities) from one PRNG (VERIF_SEED): sizes 1..12, values k/64 with ties / tie-free / constant, "
                "scaled exactly by 1, 2^40 or 2^-40; source sample and values as float64 (60%), float32 (20%) or integer-valued int64 (20%), target always float64; plus (own PRNG stream) "
                "RELATED source / target / evaluation vectors, every relation scheduled: target = the same values, the same array object, a permutation, a reversed view, a shifted / scaled / negated / "
                "nearly equal copy, a sub-sample, a superset of the source, both samples sorted, evaluation vector = the target object, with evaluation points beyond both samples' ranges; plus (own PRNG stream per case) the case's evaluation points / probabilities handed over as n-d arrays: 2-d, 3-d, column / row vector, a block with one point outside the source range, in C / Fortran order or as a transposed / strided / reversed view; plus every sample size 1..400 and 1000, 4096, 10007, 20001 (tie-free) for the exact end-point laws; every case runs all 3 ecdf x 9 iecdf methods; non-trivial = sample has >= 2 distinct values; "
                "distinct = distinct (size x, size y, kind, scale, ties in x, ties in y) classes")
    res.trusted = C.BASE_TRUSTED + [
        "tier A for the toolkit (translator/extract_stats.py -> Gen/Stats.lean, Lemmas/GenStats.lean): the bodies of IECDF, iecdf, ecdf, the three quantile maps, "
        "_isimip_quantile_map_x_on_y_non_parametically and sort_array_like_another_one are regenerated as terms of the numpy-expression language of Model/NpStats.lean "
        "(locals resolved through assignments, calls inlined, method dispatch as an if-chain); proved: regenerated term = expected term (gen_*) and denotation of the expected "
        "term = Model/Stats.lean for every method literal, an error for any other string (sem_*). Trusted: the denotation of each primitive (np.sort, np.argsort, np.linspace, "
        "np.interp, ECDF, rv_histogram.cdf on oracle bins, rankdata, np.quantile per method, np.floor(..).astype(int), indexing, mask assignment, min/max, comparisons, arithmetic) "
        "and the extractor; **kwargs are taken to be empty, dtype conversions in the ISIMIP helper are ignored",
        "numpy's np.sort/argsort/quantile/interp/linspace/histogram, statsmodels' ECDF, scipy's rv_histogram/rankdata are modelled (Model/Stats.lean), not verified; "
        "np.argsort is not stable: rank-based statements carry a tie-free hypothesis",
        "np.histogram(bins='auto') bin edges and counts are an oracle argument of the histogram ecdf; the laws the theorems use (increasing edges, positive total, last edge = max x, "
        "first edge = min x) are re-checked on numpy's actual bins on every run",
        "float rounding is not modelled; at discontinuities of the exact map (floor / discrete virtual index at an integer, np.interp at a tied computed knot) either neighbour is accepted and counted (ties_accepted)",
    ]
    res.assumptions = ["call sequences with in-place updates: the specification is Model.Stats.runSeq (a store of values, calls read it, only `update` writes it; Props.C16.seq_call_leaves_store, "
                       "seq_call_update_call, seq_values_only, sortLike_self) and it is tied to the real functions by the call / update / call correspondence (driver op `seq`); "
                       "WHY a real helper could deviate (a module-level cache, an in-place sort of an argument, numpy views sharing memory) is runtime behaviour the value-level model cannot exhibit: "
                       "inputs-unchanged (byte comparison), shared-memory arguments and stale-state checks are decided by the oracle on the real code only",
                       "result dtype / precision of mixed-dtype arguments (float32, int64 source with a float64 target) and the float evaluation of k/n at the end points for each n are decided by the oracle on the real code only: "
                       "the model is exact rational arithmetic, where n/n = 1 for every n (Props.C16.ecdf_step_at_max, ecdf_below_min, iecdf_zero/one, qmap_at_max, qmapHist_at_max)",
                       "evaluation points / probabilities as n-d arrays (number of dimensions, shape, memory layout): the model's evaluation vector is a List (Props.C16.qmap_elementwise, qmapExtrap_eq_map, ecdf_elementwise, "
                       "iecdf_elementwise say each point is mapped on its own); that the real helpers do the same for every array shape / layout is decided by the oracle on the real code only; at least one dimension, and with more than "
                       "two dimensions only iecdf method 'inverted_cdf' (np.quantile refuses q with more than 2 dimensions)",
                       "samples are finite floats; probabilities lie in [0,1]", "the target sample y is float64 (source / values may be float32 or int64)", "sample size >= 2 for the distribution-function laws (size 1 is stated separately: Props.C16.ecdf_size_one_*, iecdf_size_one)",
                       "tie-free source for the equal-size reproduction law; tie-free reference for the exact comparison of sort_array_like_another_one"]

    lean_ok = C.lean_phase(res, PROP, GEN, TARGETS)

    n_cases = 45 if tier == "quick" else 500
    n_oracle_extra = 60 if tier == "quick" else 1500
    corr = Corr(res)
    problems = []
    stats = collections.Counter()
    cases = []
    # related (source, target, evaluation vector) triples — see gen_related_case: their own PRNG stream (the independent cases keep
    # theirs), every relation at least once through the whole treatment (correspondence with the Lean model + all oracles)
    rng_rel = random.Random(C.seed() * 104729 + 1616)
    n_rel = len(RELATIONS) if tier == "quick" else 10 * len(RELATIONS)
    n_rel_extra = 2 * len(RELATIONS) if tier == "quick" else 30 * len(RELATIONS)
    for k in range(n_cases + n_rel):
        c = gen_case(rng, k) if k < n_cases else gen_related_case(rng_rel, 100000 + k - n_cases, k - n_cases)
        cases.append(c)
        x, y = c["x"], c["y"]
        res.count((x.size, y.size, c["kind_x"], c["scale"], c["dtype"], np.unique(x).size < x.size, np.unique(y).size < y.size) + ((c["relation"],) if "relation" in c else ()),
                  np.unique(x).size >= 2, sample={"x": x.tolist()[:6], "y": y.tolist()[:6], "scale": c["scale"], "n_vals": int(c["vals"].size), "n_ps": int(c["ps"].size)})
        if "relation" in c:
            stats["related_" + c["relation"]] += 1
        oracle_purity(c, problems, stats)  # first: works on copies, before any helper has seen the case's own arrays
        oracle_inplace_sequences(c, problems, stats)
        oracle_subvectors(c, problems, stats)
        oracle_grids(c, problems, stats)
        snap = {a: c[a].tobytes() for a in ("x", "y", "y2", "vals", "ps")}
        correspondence(c, corr)
        seq_correspondence(c, corr)
        oracle(c, problems, stats)
        for a, b in snap.items():
            if c[a].tobytes() != b:
                problems.append((f"a toolkit helper modified the array '{a}' handed to it by the harness", case_json(c), {"law": "inputs_unchanged", "function": "any"}))
    corr.run()
    if corr.mismatches:
        res.tie_broken.append(f"correspondence DrvStats: {len(corr.mismatches)} mismatches, first: {corr.mismatches[0]}")
    res.extra["ties_accepted"] = corr.ties

    # failing-input search on the real functions: small budget always, 3x when a tie broke
    if force_search or not lean_ok or corr.mismatches:
        n_oracle_extra *= 3
        n_rel_extra *= 3
    for k in range(n_oracle_extra + n_rel_extra):
        c = gen_case(rng, n_cases + k) if k < n_oracle_extra else gen_related_case(rng_rel, 100000 + n_rel + k - n_oracle_extra, n_rel + k - n_oracle_extra)
        res.count((c["x"].size, c["y"].size, c["kind_x"], c["scale"], c["dtype"], np.unique(c["x"]).size < c["x"].size, np.unique(c["y"]).size < c["y"].size)
                  + ((c["relation"],) if "relation" in c else ()), np.unique(c["x"]).size >= 2)
        if "relation" in c:
            stats["related_" + c["relation"]] += 1
        oracle_purity(c, problems, stats)
        if k % 4 == 0:
            oracle_inplace_sequences(c, problems, stats)
        if k % 2 == 0:
            oracle_subvectors(c, problems, stats)
        else:
            oracle_grids(c, problems, stats)
        oracle(c, problems, stats)
    # every sample size 1..400 (the float evaluation of k/n at the end points depends on n) and a few long ones
    sizes = list(range(1, 401)) + [1000, 4096, 10007, 20001] + ([36500, 65536] if tier == "thorough" else [])
    for n in sizes:
        oracle_endpoints(n, random.Random(C.seed() * 7 + n), problems, stats)
        res.count(("endpoints", n), n >= 2)
    res.extra["oracle_stats"] = dict(stats)
    res.extra["exact_pairs_checked"] = [list(p) for p in EXACT_PAIRS]

    # ---- verdict
    seen = set()
    for desc, case, sig in problems:
        key = (sig.get("law", sig.get("method")), sig.get("input_dtype"), sig.get("constant_sample"), sig.get("function"))  # one replay per law, not per method pair
        if key in seen:
            continue
        seen.add(key)
        res.violations.append((desc, {"property": PROP, "failing_input": case, "signature": sig}))
    unknown = [v for v in res.violations if C.match_known(PROP, v[1]) is None]
    if res.tie_broken and not unknown:
        res.violations.append(("proof obligation / correspondence no longer checks: " + "; ".join(res.tie_broken)[:600],
                               {"property": PROP, "failing_input": None, "broken": res.tie_broken, "mismatches": corr.mismatches[:5]}))
    return res


def replay(data):
    """re-run the oracle on the failing input of a replay file"""
    import collections

    fi = data.get("failing_input")
    if not fi:
        print("replay without failing input:", data.get("broken"))
        return 1
    if fi.get("generator") == "endpoints":
        problems = []
        oracle_endpoints(int(fi["n"]), random.Random(C.seed() * 7 + int(fi["n"])), problems, collections.Counter())
        for desc, _, sig in problems:
            print("REPRODUCED:", desc[:300], sig)
        return 1 if problems else 0
    dt = np.dtype(fi.get("dtype", "float64"))
    c = dict(k=int(fi.get("k", 0)), scale=fi["scale"], kind_x="replay", dtype=str(dt), x=np.array(fi["x"], dtype=dt), y=np.array(fi["y"], dtype=float), y2=np.array(fi["y2"], dtype=dt),
             vals=np.array(fi["vals"], dtype=dt), ps=np.array(fi["ps"], dtype=float))
    if "relation" in fi:  # a related triple: re-establish the object identities / shared memory the case had
        c["relation"], c["aliases"] = fi["relation"], fi.get("aliases", [])
        if "y_is_x" in c["aliases"]:
            c["y"] = c["x"]
        if "y_is_reversed_view_of_x" in c["aliases"]:
            c["y"] = c["x"][::-1]
        if "vals_is_y" in c["aliases"]:
            c["vals"] = c["y"]
    problems = []
    if "grid" in fi:  # evaluation points / probabilities as an n-d array: the stored array in the stored layout, all 27 method pairs
        G = np.array(fi["grid"], dtype=dt if fi.get("grid_kind") == "values" else float)
        judge_grid(c, fi.get("grid_kind", "values"), G, fi.get("grid_layout", "C"), [(em, im) for em in EM for im in IM], problems, collections.Counter())
        want = data.get("signature", {})
        hits = [p for p in problems if all(p[2].get(k) == v for k, v in want.items())]
        for desc, _, sig in hits:
            print("REPRODUCED:", desc[:300], sig)
        return 1 if hits else 0
    oracle(c, problems, collections.Counter())
    oracle_purity(c, problems, collections.Counter())
    oracle_inplace_sequences(c, problems, collections.Counter())
    oracle_subvectors(c, problems, collections.Counter())
    want = data.get("signature", {})
    hits = [p for p in problems if all(p[2].get(k) == v for k, v in want.items())]
    for desc, _, sig in hits:
        print("REPRODUCED:", desc[:300], sig)
    return 1 if hits else 0
