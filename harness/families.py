"""
The rational test-double distribution family `RatSigmoid` (DESIGN.md §2.1) as an
`ibicus.utils.StatisticalModel` — the documented extension point accepted by every debiaser's
`distribution` validator — so that the *real* `apply_on_window` code runs unmodified while every operation
of the family is a rational formula that the Lean model (`Model.Family.ratSigmoid`) reproduces exactly:

    G(z)     = (1 + z / (1 + |z|)) / 2
    G^-1(p)  = (2p - 1) / (1 - |2p - 1|)
    fit(x)   = (mean(x), mean(|x - mean(x)|))          (location, scale)
    cdf(x, loc, scale) = G((x - loc) / scale)
    ppf(q, loc, scale) = loc + scale * G^-1(q)

plus helpers that build debiaser instances for the configurations of `harness/debiasers_corr.py`.
"""
import numpy as np

from harness import common as C  # noqa: F401  (sets IBICUS_VERIF=1 before ibicus is imported)

_CACHE = {}


def _make():
    from ibicus.utils import StatisticalModel

    class RatSigmoid(StatisticalModel):
        """symmetric location-scale family with rational cdf / ppf (see module docstring)"""

        def fit(self, data, **kwargs):
            data = np.asarray(data, dtype=float)
            loc = np.mean(data)
            scale = np.mean(np.abs(data - loc))
            return (loc, scale)

        def cdf(self, x, *fit, **kwargs):
            loc, scale = fit[0], fit[1]
            z = (np.asarray(x, dtype=float) - loc) / scale
            return (1.0 + z / (1.0 + np.abs(z))) / 2.0

        def ppf(self, q, *fit, **kwargs):
            loc, scale = fit[0], fit[1]
            w = 2.0 * np.asarray(q, dtype=float) - 1.0
            return loc + scale * (w / (1.0 - np.abs(w)))

        def __repr__(self):
            return "RatSigmoid()"

    return RatSigmoid


def RatSigmoid():
    """an instance of the test-double family (the class is created lazily: ibicus is imported on first use)"""
    if "cls" not in _CACHE:
        _CACHE["cls"] = _make()
    return _CACHE["cls"]()


# exact (Fraction) versions, used by generators to keep standardised values in range and by oracles
def fit_exact(xs):
    from fractions import Fraction

    xs = [Fraction(x) for x in xs]
    m = sum(xs) / len(xs)
    s = sum(abs(x - m) for x in xs) / len(xs)
    return m, s


def G_exact(z):
    return (1 + z / (1 + abs(z))) / 2


def Ginv_exact(p):
    w = 2 * p - 1
    return w / (1 - abs(w))
