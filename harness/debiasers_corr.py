"""
Tier-B correspondence of the layer-N debiaser models (lean/IbicusModel/Model/Debiasers.lean, driver
lean/drivers/DrvDebiasers.lean) against the *real* per-window code of the seven non-ISIMIP debiasers.

Public API (used by the property builders C01/C02/C03/C04/C06/C09/C10):

    CONFIGS                       {name: config dict}  — every configuration covered
    FAMILIES                      {family: [config names]}
    make_debiaser(config, years_LS=None)     a real ibicus debiaser instance for the configuration
    run_real(config, obs, H, F, years=None)  -> (kind, value, draws)   kind in {"ok", "error"}
    driver_line(config, obs, H, F, u=None, years=None)  -> the DrvDebiasers op line for the same numbers
    parse_driver(line)            -> ("ok", [Fraction|None], [tie idx], [ill-conditioned idx]) | ("undef",) | ("undef-soft",) | ("error", cls) | ("bad",)
    gen_case(rng, config, stream) -> dict(obs, H, F, years)  dyadic inputs (k/64) suited to the configuration
    correspondence(rng, n_cases, tier, res, families=None) -> list of mismatch dicts

All inputs are dyadic rationals k/64 with |k| <= 2^14 (sent exactly with C.rat), lengths 2..60, the three series
of different lengths.  Random draws of np.random.uniform are captured in-process and handed to the driver.
"""
import datetime
import warnings
from collections import Counter
from fractions import Fraction

import numpy as np

from harness import common as C
from harness import families as FAM

DRIVER = "DrvDebiasers"
KMAX = 2 ** 14
THRESHOLDS = [1e-10, 1.0 / 1024, 1.0 / 64, 1.0 / 16]
CDFT_PAIRS = [
    ("linear_interpolation", "linear"),  # the default
    ("step_function", "inverted_cdf"),
    ("linear_interpolation", "hazen"),
    ("step_function", "linear"),
    ("linear_interpolation", "inverted_cdf"),
    ("step_function", "averaged_inverted_cdf"),
    ("step_function", "closest_observation"),
    ("linear_interpolation", "median_unbiased"),
    ("linear_interpolation", "weibull"),
    ("step_function", "normal_unbiased"),
    ("linear_interpolation", "interpolated_inverted_cdf"),
]
YEAR_LS = [(17, 9), (5, 3), (3, 1), (9, 9), (1, 1), (31, 1), (7, 5), (4, 2)]


# ------------------------------------------------------------------ configurations
def _configs():
    cf = {}

    def add(name, family, **kw):
        cf[name] = dict(name=name, family=family, **kw)

    for d in ("additive", "multiplicative"):
        add(f"LS-{d}", "LS", delta=d, data="pos" if d == "multiplicative" else "tas")
        add(f"DC-{d}", "DC", delta=d, data="pos" if d == "multiplicative" else "tas")
    # the `else: raise ValueError` branch (reachable only by bypassing the attrs validator)
    add("LS-invalid", "LS", delta="bogus", data="tas", invalid=True)
    add("DC-invalid", "DC", delta="bogus", data="tas", invalid=True)
    for mt in ("parametric", "nonparametric"):
        for d in ("additive", "multiplicative", "no_detrending"):
            add(f"QM-{mt}-{d}", "QM", mapping=mt, detrending=d, data="pos" if d == "multiplicative" else "tas",
                param=(mt == "parametric"))
    add("ECDFM", "ECDFM", data="tas", param=True)
    for tp in ("absolute", "relative"):
        for em in ("step_function", "linear_interpolation"):
            for cens in (False, True):
                for yrs in (False, True):
                    add(f"QDM-{tp}-{em}-{'censor' if cens else 'nocensor'}{'-years' if yrs else ''}", "QDM",
                        tp=tp, em=em, censor=cens, years=yrs, data="pos" if tp == "relative" else "tas", param=True)
    for tp in ("absolute", "relative"):
        add(f"QDM-{tp}-kernel_density-nocensor", "QDM", tp=tp, em="kernel_density", censor=False, years=False,
            data="pos" if tp == "relative" else "tas", param=True, hist=True)
    add("QDM-absolute-kernel_density-censor", "QDM", tp="absolute", em="kernel_density", censor=True, years=False,
        data="tas", param=True, hist=True)
    add("SDM-absolute", "SDMabs", data="tas", param=True, tiefreeF=True)
    add("SDM-relative", "SDMrel", data="pr", tiefreeF=True)
    for d in ("additive", "multiplicative", "no_shift"):
        for em, im in CDFT_PAIRS:
            for ssr in (False, True):
                add(f"CDFt-{d}-{em}-{im}-{'ssr' if ssr else 'nossr'}", "CDFt", shift=d, em=em, im=im, ssr=ssr, years=False,
                    data="pr" if ssr else ("pos" if d == "multiplicative" else "tas"))
        for em, im in CDFT_PAIRS[:3]:
            add(f"CDFt-{d}-{em}-{im}-nossr-years", "CDFt", shift=d, em=em, im=im, ssr=False, years=True,
                data="pos" if d == "multiplicative" else "tas")
            add(f"CDFt-{d}-{em}-{im}-ssr-years", "CDFt", shift=d, em=em, im=im, ssr=True, years=True, data="pr")
        for im in ("linear", "inverted_cdf", "hazen"):
            add(f"CDFt-{d}-kernel_density-{im}-nossr", "CDFt", shift=d, em="kernel_density", im=im, ssr=False, years=False,
                data="pos" if d == "multiplicative" else "tas", hist=True)
    return cf


CONFIGS = _configs()
FAMILIES = {}
for _n, _c in CONFIGS.items():
    FAMILIES.setdefault(_c["family"], []).append(_n)


def norm_odd(n):
    return n + 1 if n % 2 == 0 else n


def make_debiaser(config, t=None, years_LS=None, censor_thr=None, pr_thr=None):
    """a real debiaser instance for `config`; `t` = cdf_threshold, `years_LS` = (L, S) of the year windows,
    `censor_thr` = QDM censoring_threshold, `pr_thr` = SDM pr_lower_threshold"""
    from ibicus.debias import (CDFt, ECDFM, DeltaChange, LinearScaling, QuantileDeltaMapping, QuantileMapping,
                               ScaledDistributionMapping)

    fam = config["family"]
    t = 1e-10 if t is None else float(t)
    with warnings.catch_warnings():
        warnings.simplefilter("ignore")
        if fam in ("LS", "DC"):
            cls = LinearScaling if fam == "LS" else DeltaChange
            if config.get("invalid"):
                deb = cls(delta_type="additive")
                object.__setattr__(deb, "delta_type", config["delta"])  # bypasses the validator
                return deb
            return cls(delta_type=config["delta"])
        if fam == "QM":
            return QuantileMapping(distribution=FAM.RatSigmoid() if config["param"] else None, mapping_type=config["mapping"],
                                   detrending=config["detrending"], cdf_threshold=t)
        if fam == "ECDFM":
            return ECDFM(distribution=FAM.RatSigmoid(), cdf_threshold=t)
        if fam == "QDM":
            kw = {}
            if config["years"]:
                L, S = years_LS
                kw = dict(running_window_mode_over_years_of_cm_future=True, running_window_over_years_of_cm_future_length=L,
                          running_window_over_years_of_cm_future_step_length=S)
            else:
                kw = dict(running_window_mode_over_years_of_cm_future=False)
            return QuantileDeltaMapping(distribution=FAM.RatSigmoid(), trend_preservation=config["tp"],
                                        censor_values_to_zero=config["censor"],
                                        censoring_threshold=float(censor_thr if censor_thr is not None else 0.0),
                                        ecdf_method=config["em"], cdf_threshold=t, running_window_mode=False, **kw)
        if fam == "SDMabs":
            return ScaledDistributionMapping(distribution=FAM.RatSigmoid(), mapping_type="absolute", cdf_threshold=t)
        if fam == "SDMrel":
            return ScaledDistributionMapping(distribution=FAM.RatSigmoid(), mapping_type="relative", cdf_threshold=t,
                                             pr_lower_threshold=float(pr_thr))
        if fam == "CDFt":
            kw = {}
            if config["years"]:
                L, S = years_LS
                kw = dict(running_window_mode_over_years_of_cm_future=True, running_window_over_years_of_cm_future_length=L,
                          running_window_over_years_of_cm_future_step_length=S)
            else:
                kw = dict(running_window_mode_over_years_of_cm_future=False)
            return CDFt(SSR=config["ssr"], delta_shift=config["shift"], ecdf_method=config["em"], iecdf_method=config["im"],
                        running_window_mode=False, **kw)
    raise ValueError(fam)


class _CaptureUniform:
    """records every array np.random.uniform returns while active (in call order)"""

    def __enter__(self):
        self.draws = []
        self._orig = np.random.uniform

        def wrapped(*a, **k):
            r = self._orig(*a, **k)
            self.draws.append(np.array(r, dtype=float).ravel().copy())
            return r

        np.random.uniform = wrapped
        return self

    def __exit__(self, *exc):
        np.random.uniform = self._orig
        return False


def _dates(years):
    return np.array([datetime.date(int(y), 6, 15) for y in years], dtype=object)


def _quiet_logger():
    if "quiet" not in FAM._CACHE:
        import logging

        from ibicus.utils import get_library_logger

        get_library_logger().setLevel(logging.ERROR)
        FAM._CACHE["quiet"] = True


def run_real(config, obs, H, F, years=None, **params):
    """calls the real per-window code. returns (kind, value, draws): ("ok", ndarray, [u...]) or ("error", class name, …)"""
    _quiet_logger()
    deb = make_debiaser(config, **params)
    o, h, f = (np.array(x, dtype=float).copy() for x in (obs, H, F))
    fam = config["family"]
    with warnings.catch_warnings(), np.errstate(all="ignore"), _CaptureUniform() as cap:
        warnings.simplefilter("ignore")
        try:
            if fam == "DC":
                out = deb._apply_on_within_year_window(o, h, f)
            elif fam in ("QDM", "CDFt"):
                out = deb.apply_on_window(o, h, f, time_obs=None, time_cm_hist=None,
                                          time_cm_future=_dates(years) if years is not None else None)
            else:
                out = deb.apply_on_window(o, h, f)
        except Exception as ex:  # noqa: BLE001
            # the draws made before the exception as ONE flat array, like the "ok" path (callers do `[float(x) for x in u]`: a
            # list of arrays made them crash exactly when the code under test raised after drawing, e.g. CDFt with SSR)
            return "error", type(ex).__name__, (np.concatenate([np.ravel(d) for d in cap.draws]) if cap.draws else np.array([]))
    u = np.concatenate(cap.draws) if cap.draws else np.array([])
    return "ok", np.asarray(out, dtype=float), u


def driver_line(config, obs, H, F, u=None, years=None, t=None, years_LS=None, censor_thr=None, pr_thr=None):
    fam = config["family"]
    o, h, f = C.rlist(obs), C.rlist(H), C.rlist(F)
    t = C.rat(1e-10 if t is None else float(t))
    if fam in ("LS", "DC"):
        op = ("ls" if fam == "LS" else "dc") + ("s" if config.get("invalid") else "")
        return f"{op} {config['delta']} {o} {h} {f}"
    if fam == "QM":
        return f"qm {config['mapping']} {config['detrending']} {t} {o} {h} {f}"
    if fam == "ECDFM":
        return f"ecdfm {t} {o} {h} {f}"
    if fam == "QDM":
        c = C.rat(float(censor_thr)) if config["censor"] else "none"
        if config.get("hist"):
            e, cnt = hist_oracle(F)
            return f"qdmhist {config['tp']} {t} {c} {e} {cnt} {o} {h} {f}"
        if config["years"]:
            L, S = norm_odd(years_LS[0]), norm_odd(years_LS[1])
            return f"qdmyears {config['tp']} {config['em']} {t} {c} {L} {S} {C.ilist(years)} {o} {h} {f}"
        return f"qdm {config['tp']} {config['em']} {t} {c} {o} {h} {f}"
    if fam == "SDMabs":
        return f"sdmabs {o} {h} {f}"
    if fam == "SDMrel":
        return f"sdmrel {C.rat(float(pr_thr))} {t} {o} {h} {f}"
    if fam == "CDFt":
        ul = C.rlist(u) if u is not None and len(u) else "-"
        if config.get("hist"):
            # the shifted samples exactly as `_apply_CDFt_mapping` computes them (floats), then their histograms
            oa, ha, fa = (np.array(x, dtype=float) for x in (obs, H, F))
            if config["shift"] == "additive":
                sh = np.mean(oa) - np.mean(ha)
                ha, fa = ha + sh, fa + sh
            elif config["shift"] == "multiplicative":
                sh = np.mean(oa) / np.mean(ha)
                ha, fa = ha * sh, fa * sh
            eF, cF = hist_oracle(fa)
            eH, cH = hist_oracle(ha)
            return f"cdfthist {config['shift']} {config['im']} {eF} {cF} {eH} {cH} {o} {h} {f}"
        if config["years"]:
            L, S = norm_odd(years_LS[0]), norm_odd(years_LS[1])
            if config["ssr"]:
                return f"cdftyearsssr {config['shift']} {config['em']} {config['im']} {L} {S} {C.ilist(years)} {o} {h} {f} {ul}"
            return f"cdftyears {config['shift']} {config['em']} {config['im']} {L} {S} {C.ilist(years)} {o} {h} {f}"
        return f"cdft {config['shift']} {config['em']} {config['im']} {1 if config['ssr'] else 0} {o} {h} {f} {ul}"
    raise ValueError(fam)


def hist_oracle(x):
    """`np.histogram(x, bins="auto")` — the bin edges / counts that `ecdf(method="kernel_density")` uses; an oracle
    argument of the model (Model.Stats.ecdfHist1)"""
    counts, edges = np.histogram(np.array(x, dtype=float), bins="auto")
    return C.rlist(edges.tolist()), C.ilist(counts.tolist())


def parse_driver(line):
    if line == "undef":
        return ("undef",)
    if line == "undef-soft":
        return ("undef-soft",)
    if line.startswith("error "):
        return ("error", line[6:])
    if " ties=" not in line:
        return ("bad", line[:200])
    vals, rest = line.split(" ties=")
    ties, ill = rest.split(" ill=") if " ill=" in rest else (rest, "-")
    return ("ok", C.parse_list(vals, Fraction), C.parse_list(ties, int), C.parse_list(ill, int))


# ------------------------------------------------------------------ generators (all values k/64)
def _distinct(rng, n, lo, hi, lo_min=-KMAX):
    lo, hi = max(lo, lo_min), min(hi, KMAX)
    if hi - lo + 1 < n + 2:  # window fell (partly) outside the admissible band: slide it back in
        hi = min(KMAX, max(hi, lo_min + n + 2))
        lo = max(lo_min, hi - 2 * n - 2)
    return rng.sample(range(lo, hi + 1), n)


def _series(rng, n, kind, centre, width, ties):
    """n integers k (value = k/64)"""
    if kind == "tas":
        lo, hi = centre - width, centre + width
    else:  # strictly positive
        lo, hi = max(1, centre - width), max(n + 2, centre + width)
    if ties:
        pool = _distinct(rng, max(2, min(n, rng.randint(2, max(2, n // 2)))), lo, hi, 1 if kind != "tas" else -KMAX)
        ks = [rng.choice(pool) for _ in range(n)]
        if len(set(ks)) == 1:
            ks[0] = pool[0] if ks[0] != pool[0] else pool[1]
        return ks
    return _distinct(rng, n, lo, hi, 1 if kind != "tas" else -KMAX)


def _pr_series(rng, n, thr_k, ties, p_dry=None, all_dry=False, min_rainy=0):
    """precipitation-like: zeros, drizzle below the threshold, rainy values above (k/64)"""
    p_dry = rng.choice([0.0, 0.1, 0.3, 0.5, 0.8]) if p_dry is None else p_dry
    p_driz = rng.choice([0.0, 0.1, 0.2])
    hi = rng.choice([200, 1000, 4000, KMAX])
    rainy_pool = _distinct(rng, n, thr_k, max(hi, thr_k + n + 5), 1)
    ks = []
    for i in range(n):
        r = rng.random()
        if all_dry or r < p_dry:
            ks.append(0 if rng.random() < 0.8 or thr_k <= 1 else rng.randint(1, thr_k - 1))
        elif r < p_dry + p_driz and thr_k > 1:
            ks.append(rng.randint(1, thr_k - 1))
        else:
            ks.append(rng.choice(rainy_pool[: max(2, n // 3)]) if ties else rainy_pool[i])
    if not all_dry:
        # at least `min_rainy` distinct rainy values (so that the fitted scale is not zero)
        idx = list(range(n))
        rng.shuffle(idx)
        have = {k for k in ks if k >= thr_k}
        for i in idx:
            if len(have) >= min(min_rainy, n):
                break
            if ks[i] < thr_k:
                ks[i] = rainy_pool[i]
                have.add(ks[i])
    return ks


def _zmax(samples):
    """largest |standardised value| of any sample under any other sample's RatSigmoid fit (floats suffice)"""
    worst = 0.0
    fits = []
    for s in samples:
        a = np.array(s, dtype=float)
        m = a.mean()
        fits.append((m, np.abs(a - m).mean()))
    for m, sc in fits:
        if sc == 0:
            return float("inf")
        for s in samples:
            worst = max(worst, float(np.max(np.abs((np.array(s, dtype=float) - m) / sc))))
    return worst


def gen_lengths(rng, tier):
    """three lengths in 2..60: a size class per case (small / medium / large), one series sometimes from another
    class; mostly three different lengths, sometimes equal ones"""
    classes = {"small": (2, 8), "medium": (5, 25), "large": (20, 60)}
    while True:
        cls = rng.choice(["small", "medium", "medium", "large", "large"])
        ns = [rng.randint(*classes[cls]) for _ in range(3)]
        if rng.random() < 0.3:
            ns[rng.randrange(3)] = rng.randint(*classes[rng.choice(list(classes))])
        if rng.random() < 0.12:
            ns = [ns[0]] * 3
        if len(set(ns)) == 3 or len(set(ns)) == 1:
            return ns


def gen_years(rng, n):
    """a year for each of n future values: consecutive years (sometimes with a gap), 1..4 values per year, any order"""
    y0 = rng.randint(1950, 2080)
    ys, y = [], y0
    while len(ys) < n:
        reps = rng.randint(1, 4)
        ys += [y] * reps
        y += 1 if rng.random() < 0.9 else rng.randint(2, 4)
    ys = ys[:n]
    if rng.random() < 0.3:
        rng.shuffle(ys)
    return ys


def gen_case(rng, config, stream="main", tier="quick"):
    """dyadic inputs for one case. stream: "main" (tie-free, |z| <= 20) | "ties" (repeated values, future values far
    outside the historical range)"""
    data = config["data"]
    ties = stream == "ties"
    # rank-based methods (SDM): the future series is tie-free (numpy's argsort is not stable) except in a small part
    # of the "ties" stream, where the driver must flag the tied elements
    tiesF = ties and (not config.get("tiefreeF") or rng.random() < 0.3)
    for _attempt in range(50):
        nO, nH, nF = gen_lengths(rng, tier)
        extra = {}
        if data == "pr":
            thr_k = rng.choice([1, 4, 16, 64])
            allow_dry = config["family"] == "SDMrel" and rng.random() < 0.04
            mr = 0 if (allow_dry or config["family"] != "SDMrel") else rng.choice([2, 3, 3, 5])
            obs = _pr_series(rng, nO, thr_k, ties, min_rainy=mr)
            H = _pr_series(rng, nH, thr_k, ties, all_dry=allow_dry and rng.random() < 0.5, min_rainy=mr)
            F = _pr_series(rng, nF, thr_k, tiesF, all_dry=allow_dry and rng.random() < 0.5, min_rainy=mr)
            if config.get("tiefreeF") and not tiesF:
                # rank-based method: tie-free among the values that matter (rainy); zeros may repeat
                seen, F2 = set(), []
                for k in F:
                    while k >= thr_k and k in seen:
                        k += 1
                    seen.add(k)
                    F2.append(k)
                F = F2
            extra["pr_thr"] = thr_k / 64.0
        else:
            width = rng.choice([40, 200, 640, 2000, 5000])
            cO = rng.randint(-6000, 6000) if data == "tas" else rng.randint(width + 1, 9000)
            far = stream == "ties"
            shiftH = rng.randint(-3 * width, 3 * width) if not far else rng.randint(-width, width)
            shiftF = rng.randint(-3 * width, 3 * width) if not far else rng.choice([-1, 1]) * rng.randint(width, 6 * width)
            wH = max(10, int(width * rng.choice([0.4, 0.7, 1, 1.5, 2.5])))
            wF = max(10, int(width * rng.choice([0.4, 0.7, 1, 1.5, 2.5])))
            obs = _series(rng, nO, data, cO, width, ties)
            H = _series(rng, nH, data, cO + shiftH, wH, ties)
            F = _series(rng, nF, data, cO + shiftF, wF, tiesF)
        if stream == "ties" and not config.get("tiefreeF") and rng.random() < 0.4:
            # shared values: future / observed values that coincide with historical ones (knots, min, max), so that
            # comparisons at equality (`<` vs `<=`) are exercised on exact inputs
            for _ in range(rng.randint(1, 3)):
                F[rng.randrange(len(F))] = rng.choice([min(H), max(H), rng.choice(H), rng.choice(obs)])
                obs[rng.randrange(len(obs))] = rng.choice([rng.choice(H), min(H)])
        obs, H, F = ([k / 64.0 for k in s] for s in (obs, H, F))
        if stream == "degenerate":
            # guards: a constant sample (fitted scale 0) or a historical mean of exactly 0
            which = rng.choice(["constH", "constO", "constF", "meanH0"])
            if which == "constH":
                H = [H[0]] * len(H)
            elif which == "constO":
                obs = [obs[0]] * len(obs)
            elif which == "constF":
                F = [F[0]] * len(F)
            else:
                H = [abs(x) + 1 / 64.0 for x in H[: len(H) // 2]]
                H = H + [-x for x in H]
            extra["degenerate"] = which
        elif config.get("param") and _zmax([obs, H, F]) > 20:
            continue
        if config["family"] == "SDMabs" and not tiesF and (len(set(F)) < len(F)):
            continue
        case = dict(obs=obs, H=H, F=F, years=None, **extra)
        if config.get("param") or config["family"] == "SDMrel":
            case["t"] = rng.choice(THRESHOLDS)
        if config["family"] == "SDMabs":
            case.pop("t", None)
        if config["family"] == "QDM" and config["censor"]:
            # a censoring threshold inside the range of the future values
            srt = sorted(F)
            case["censor_thr"] = srt[rng.randrange(len(srt))] + rng.choice([0, 1, -1, 8]) / 64.0
        if config.get("years"):
            case["years"] = gen_years(rng, nF)
            case["years_LS"] = rng.choice(YEAR_LS)
            if rng.random() < 0.03:  # time information of the wrong length: ValueError on both sides
                case["years"] = case["years"][:-1]
        return case
    raise RuntimeError(f"no admissible case for {config['name']}")


def case_params(case):
    return {k: case[k] for k in ("t", "years_LS", "censor_thr", "pr_thr") if k in case}


# ------------------------------------------------------------------ comparison
def compare(config, case, kind, value, model_line, stats):
    """returns a mismatch dict or None; updates the per-config statistics"""
    parsed = parse_driver(model_line)
    st = stats[config["name"]]
    st["cases"] += 1
    info = {"config": config["name"], "case": {k: v for k, v in case.items()}}
    if parsed[0] == "bad":
        return {**info, "impl": str(value)[:200], "model": model_line[:200], "why": "driver output not understood"}
    if kind == "error":
        if parsed[0] == "error" and parsed[1] == value:
            st["errors_agree"] += 1
            return None
        if parsed[0] in ("undef", "undef-soft"):
            st["undef"] += 1
            return None
        return {**info, "impl": f"raises {value}", "model": model_line[:200], "why": "exception class"}
    if parsed[0] == "error":
        return {**info, "impl": str(value.tolist())[:200], "model": model_line[:200], "why": "model raises, code does not"}
    if parsed[0] == "undef-soft":
        # an exactly computed denominator is zero; the float code may see a tiny non-zero number instead: not compared
        st["undef_soft"] += 1
        return None
    if parsed[0] == "undef":
        # the model's guard fails (division by zero): the float code must not have produced an all-finite result
        st["undef"] += 1
        if np.all(np.isfinite(value)):
            st["undef_but_finite"] += 1
            return {**info, "impl": str(value.tolist())[:200], "model": "undef", "why": "guard fails but the code returns finite values"}
        return None
    _, mvals, flags, ill = parsed
    ill = set(ill)
    if len(mvals) != value.size:
        return {**info, "impl": f"length {value.size}", "model": f"length {len(mvals)}", "why": "length"}
    flags = set(flags)
    scale = max([1.0] + [abs(x) for s in (case["obs"], case["H"], case["F"]) for x in s])
    bad = []
    for i, (m, v) in enumerate(zip(mvals, value.tolist())):
        if i in flags:
            st["ties_elements"] += 1
            continue
        if m is None:
            if not np.isnan(v):
                bad.append((i, v, None))
            continue
        mf = float(m)
        if i in ill and np.isfinite(v) and abs(v - mf) <= 1e-5 * abs(mf) + 1e-9 * (1 + scale):
            # ppf at a cdf value clipped to 1e-10 / 1 - 1e-10 (flagged by the driver): the float code evaluates
            # 1 - |2p - 1| with a relative error of ~1e-6 (cancellation), amplified to the output; compared with a
            # relative tolerance and counted
            st["ill_conditioned_elements"] += 1
        elif not np.isfinite(v) or abs(v - mf) > 1e-9 * (1 + max(scale, abs(mf))):
            bad.append((i, v, mf))
        st["compared_elements"] += 1
    if flags:
        st["cases_with_ties"] += 1
        # how many of the flagged elements really came out on the other side (evidence that the flags are needed)
        for i in flags:
            m, v = mvals[i], value.tolist()[i]
            if m is not None and not (np.isfinite(v) and abs(v - float(m)) <= 1e-9 * (1 + max(scale, abs(float(m))))):
                st["ties_elements_differing"] += 1
    if bad:
        return {**info, "impl": [b[1] for b in bad[:5]], "model": [b[2] for b in bad[:5]], "index": [b[0] for b in bad[:5]],
                "n_bad": len(bad), "why": "values"}
    return None


def run_driver_parallel(lines, batch=250, workers=6):
    """the driver is a pure line-by-line function: run batches in a few parallel processes"""
    from concurrent.futures import ThreadPoolExecutor

    chunks = [lines[i:i + batch] for i in range(0, len(lines), batch)]
    if len(chunks) <= 1:
        return C.run_driver(DRIVER, lines) if lines else []
    with ThreadPoolExecutor(max_workers=workers) as ex:
        outs = list(ex.map(lambda ch: C.run_driver(DRIVER, ch), chunks))
    return [x for o in outs for x in o]


def correspondence(rng, n_cases, tier, res, families=None, ties_fraction=0.25):
    """n_cases per configuration *family* (spread over the family's configurations); a quarter of them from the
    "ties" stream (repeated values, future far outside the historical range).  Returns the list of mismatches and
    writes the input distribution and per-configuration counts into res.extra["debiasers_corr"]."""
    fams = list(families) if families else list(FAMILIES)
    stats = {n: Counter() for n in CONFIGS}
    dist = Counter()
    lines, todo, mismatches = [], [], []
    for fam in fams:
        names = [n for n in FAMILIES[fam] for _ in range(1 if CONFIGS[n].get("invalid") else 12)]
        for k in range(n_cases):
            config = CONFIGS[names[k % len(names)]]
            stream = "ties" if rng.random() < ties_fraction else "main"
            if config["family"] in ("LS", "DC", "QM", "ECDFM", "SDMabs", "QDM") and not config.get("invalid") and not config.get("years") and rng.random() < 0.04:
                stream = "degenerate"
            case = gen_case(rng, config, stream, tier)
            params = case_params(case)
            kind, value, u = run_real(config, case["obs"], case["H"], case["F"], years=case["years"], **params)
            if len(u):
                case["u"] = [float(x) for x in u]
            lines.append(driver_line(config, case["obs"], case["H"], case["F"], u=case.get("u"), years=case["years"], **params))
            todo.append((config, case, kind, value, stream))
            dist[(fam, stream)] += 1
            dist[("len", min(len(case["obs"]), len(case["H"]), len(case["F"])) // 10 * 10)] += 1
            res.count((config["name"], stream, len(case["obs"]) // 8, len(case["H"]) // 8, len(case["F"]) // 8), True,
                      sample={"config": config["name"], "nO": len(case["obs"]), "nH": len(case["H"]), "nF": len(case["F"])})
    try:
        out = run_driver_parallel(lines)
    except (C.DriverError, Exception) as ex:  # noqa: BLE001
        return [{"config": "driver", "why": f"{type(ex).__name__}: {str(ex)[:500]}"}]
    for (config, case, kind, value, stream), line in zip(todo, out):
        res.cov["traces_validated_against_impl"] += 1
        mm = compare(config, case, kind, value, line, stats)
        if mm is not None:
            mm["stream"] = stream
            stats[config["name"]]["mismatches"] += 1
            mismatches.append(mm)
    fam_tot = {}
    for n, st in stats.items():
        if st["cases"]:
            ft = fam_tot.setdefault(CONFIGS[n]["family"], Counter())
            ft.update(st)
            ft["configs"] += 1
    res.extra.setdefault("ties_accepted", 0)
    res.extra["ties_accepted"] += sum(st["ties_elements"] for st in stats.values())
    res.extra["debiasers_corr"] = {
        "per_family": {f: dict(c) for f, c in fam_tot.items()},
        "per_config": {n: dict(st) for n, st in stats.items() if st["cases"]},
        "input_distribution": {str(k): v for k, v in sorted(dist.items(), key=str)},
        "tolerance": "1e-9*(1+max(|inputs|,|model value|))",
    }
    return mismatches
