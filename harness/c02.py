"""C02 — trend preservation: a uniform climate-change signal passes through unchanged.

Decided by the theorems of lean/IbicusModel/Props/C02.lean about the shared layer-N model (Model/Debiasers.lean,
Model/Isimip.lean).  The model is tied to /repo's current source by
  tier A  Gen.Debiasers (LinearScaling.apply_on_window, DeltaChange._apply_on_within_year_window regenerated) = model,
  tier B  harness/debiasers_corr.py (the seven non-ISIMIP per-window functions) and harness/isimip_corr.py (ISIMIP
          steps 3-7, unbounded additive configurations) against the drivers DrvDebiasers / DrvIsimip.
The property's oracle on the real code (the failing-input search, small budget on every run, x3 when a tie is broken):
  apply_location(obs, H, F + c) - apply_location(obs, H, F) - c   for c in +-{0.5, 3, 1e3}
  apply_location(obs, H, k F) / apply_location(obs, H, F)         for k in {0.5, 2, 10}    (multiplicative forms)
on tas-like / positive multi-year daily data, stationary and strongly trending, seasonal running windows on/off,
CDFt/QDM year windows on/off, ISIMIP running-window and month mode, explicit and inferred dates, real scipy.stats.norm;
the LinearScaling / DeltaChange mean-change identities; ISIMIP: output - (step-6 result) = slope * (year - mean year)
with the slope of the annual means of cm_future recomputed independently, and a linear within-period trend added to
cm_future passes through unchanged.
Round 5: the same shift / scale identities for debiasers built from the library defaults while OTHER public constructions happen in the
process (any construction order), through apply_location and apply (serial / parallel / failsafe), with every accepted time encoding and
non-contiguous layouts (process_history_oracle).
Round 6: "EVERY debiased value": a non-finite first result is no longer skipped unseen -- the guard "window samples non-empty" is decided from
Python's own calendar (window_samples_nonempty) and under it a NaN (= a time step no window assigned, IBICUS_VERIF hook) is a failing input;
window_sweep_oracle: every seasonal step length 1 .. 45 (even ones too) x window lengths x calendars with / without leap years, whole and broken
years; missing_values_oracle: `apply` on numpy masked arrays (float / integer dtype, any marker under the mask, nomask) and on series with missing
values (NaN or masked cells) for ISIMIP with impute_missing_values=True, both runs on the same state of numpy's global generator.
"""
import datetime
import random
import warnings

import numpy as np

from harness import common as C
from harness import debiasers_corr as DC
from harness import isimip_corr as IC
from harness import probes

PROP = "C02"
TARGETS = ["IbicusModel.Props.C02", "IbicusModel.Lemmas.GenDebiasers", "IbicusModel.Lemmas.GenIsimipSteps"]  # the audit imports them
GEN = ["Debiasers", "IsimipVars",  # IsimipVars: which variables run with the additive trend method (Lemmas.C02.additive_variables_cfg)
       "IsimipFreq", "IsimipSteps"]  # IsimipSteps (imports Gen.IsimipFreq): ISIMIP steps 3 / 5 / 7 regenerated from the source (tier A)
TARGETS += ["IbicusModel.Lemmas.GenDebWin"]  # tier A of the per-window transfer functions (CDFt, ECDFM, QDM, QM, SDM absolute): the audit imports it
GEN += ["DebWin"]  # Gen.DebWin: dataflow programs extracted by translator/extract_debiasers.py
TARGETS += ["IbicusModel.Lemmas.GenDebWinSdm"]  # SDM relative denotes Model.Debiasers.sdmRelative; CDFt steps with one draw list
TARGETS += ["IbicusModel.Props.Capstone"]  # capstone: C02 stated on the composition of the regenerated pieces (loop spec ∘ per-window program ∘ grid map); the audit imports it
GEN += ["Loops", "GridLoops", "DebWin", "Debiasers", "IsimipStep6"]  # the groups the capstone composes (lean_phase regenerates every transitively imported group anyway)
TARGETS += ["IbicusModel.Props.Capstone4"]  # CDFt / QDM apply_on_window as one definition dispatching on the year-window switch (Gen.WinDispatch); the audit imports it
GEN += ["WinDispatch"]

SHIFTS = [0.5, -0.5, 3.0, -3.0, 1e3, -1e3]
FACTORS = [0.5, 2.0, 10.0, 250.0, 1.0 / 400.0]  # the extreme factors expose a clipped change factor (seeded C02-1)
# the variables whose documented ISIMIP trend preservation is additive (Lemmas.C02.additiveVariables), each built from the LIBRARY DEFAULTS
# (`ISIMIP.from_variable(v)`; only options that deviate from the defaults are passed), with (offset, factor) turning tas-like K into its units
ISIMIP_ADDITIVE_VARIABLES = {"tas": (0.0, 1.0), "psl": (101300.0 - 80.0 * 285.0, 80.0), "rlds": (310.0 - 6.0 * 285.0, 6.0)}


def isimip_kwargs(e):
    """constructor options on top of the library defaults of the variable: only what deviates from them"""
    kw = {}
    if e.get("npqm"):
        kw["nonparametric_qm"] = True
    if e.get("detrending") is False:
        kw["detrending"] = False
    if e.get("ela"):
        kw["event_likelihood_adjustment"] = True
    return kw


DISCRETE_IECDF = ("inverted_cdf", "averaged_inverted_cdf", "closest_observation")
DEB_FAMILIES = ["LS", "DC", "QM", "ECDFM", "QDM", "SDMabs", "CDFt"]
ISI_CONFIGS = ["tas_detr", "tas_nodetr", "tas_ks", "tas_nosigtest", "tas_npqm", "tas_hazen", "tas_ela"]
CDFT_PAIRS = [("linear_interpolation", "linear"), ("step_function", "inverted_cdf"), ("linear_interpolation", "hazen"),
              ("step_function", "closest_observation"), ("linear_interpolation", "averaged_inverted_cdf"),
              ("step_function", "weibull"), ("linear_interpolation", "median_unbiased"), ("step_function", "normal_unbiased"),
              ("linear_interpolation", "interpolated_inverted_cdf"),
              # histogram ecdf: theorem under the oracle law "np.histogram's bins shift with the data" (Props.C02.cdft_hist_shift)
              ("kernel_density", "linear"), ("kernel_density", "inverted_cdf")]


# ------------------------------------------------------------------ configurations of the real debiasers
def oracle_configs():
    """name -> (kind, corrected series, factory(window kwargs, year-window kwargs, extra))"""
    import scipy.stats

    from ibicus.debias import (CDFt, DeltaChange, ECDFM, ISIMIP, LinearScaling, QuantileDeltaMapping, QuantileMapping,
                               ScaledDistributionMapping)

    norm = scipy.stats.norm
    cf = {}
    cf["LinearScaling/additive"] = ("add", lambda w, y, e: LinearScaling.from_variable("tas", delta_type="additive", **w))
    cf["DeltaChange/additive"] = ("add", lambda w, y, e: DeltaChange.from_variable("tas", delta_type="additive", **w))
    cf["QuantileMapping/additive-parametric"] = ("add", lambda w, y, e: QuantileMapping.from_variable(
        "tas", distribution=norm, mapping_type="parametric", detrending="additive", **w))
    cf["QuantileMapping/additive-nonparametric"] = ("add", lambda w, y, e: QuantileMapping.from_variable(
        "tas", mapping_type="nonparametric", detrending="additive", **w))
    cf["ScaledDistributionMapping/absolute"] = ("add", lambda w, y, e: ScaledDistributionMapping.from_variable(
        "tas", distribution=norm, mapping_type="absolute", **w))
    cf["ECDFM"] = ("add", lambda w, y, e: ECDFM.from_variable("tas", distribution=norm, **w))
    cf["QuantileDeltaMapping/absolute"] = ("add", lambda w, y, e: QuantileDeltaMapping.from_variable(
        "tas", distribution=norm, trend_preservation="absolute", ecdf_method=e.get("em", "linear_interpolation"), **w, **y))
    cf["CDFt"] = ("add", lambda w, y, e: CDFt.from_variable(
        "tas", delta_shift=e.get("shift", "additive"), ecdf_method=e.get("em", "linear_interpolation"),
        iecdf_method=e.get("im", "linear"), **w, **y))
    cf["ISIMIP/additive"] = ("add", lambda w, y, e: ISIMIP.from_variable(e.get("var", "tas"), **isimip_kwargs(e), **w))
    cf["LinearScaling/multiplicative"] = ("mult", lambda w, y, e: LinearScaling.from_variable("pr", delta_type="multiplicative", **w))
    cf["DeltaChange/multiplicative"] = ("mult", lambda w, y, e: DeltaChange.from_variable("pr", delta_type="multiplicative", **w))
    cf["QuantileMapping/multiplicative-nonparametric"] = ("mult", lambda w, y, e: QuantileMapping.from_variable(
        "tas", mapping_type="nonparametric", detrending="multiplicative", **w))
    cf["QuantileMapping/multiplicative-parametric"] = ("mult", lambda w, y, e: QuantileMapping.from_variable(
        "tas", distribution=norm, mapping_type="parametric", detrending="multiplicative", **w))
    return cf


def gen_series(rng, nprs, kind, trend_kind):
    """three dated daily series over several years; F stationary or with a strong within-period trend"""
    nyO, nyH, nyF = rng.randint(2, 5), rng.randint(2, 5), rng.randint(2, 6)
    y0 = rng.randint(1955, 2060)
    startF = datetime.date(y0 + 30, 1, 1) + datetime.timedelta(days=rng.choice([0, 0, rng.randint(0, 364)]))
    dO = probes.dates_from(datetime.date(y0, 1, 1), 365 * nyO + rng.randint(0, 30))
    dH = probes.dates_from(datetime.date(y0, rng.choice([1, 1, 7]), 1), 365 * nyH + rng.randint(0, 30))
    dF = probes.dates_from(startF, 365 * nyF + rng.randint(0, 30))
    o, h, f = probes.tas_like(nprs, dO, 283, 3), probes.tas_like(nprs, dH, 285, 4), probes.tas_like(nprs, dF, 288, 4)
    if trend_kind == "trend":
        f = f + rng.choice([-1, 1]) * rng.choice([0.5, 2.0, 6.0]) * np.arange(dF.size) / 365.0
        h = h + rng.choice([0.0, 0.3]) * np.arange(dH.size) / 365.0
    if trend_kind == "uniform":  # the "uniform signal" situation: the future run IS the historical run (plus the shift / factor under test)
        f = h.copy()
        dF = probes.dates_from(datetime.date(dH[0].year + 40, dH[0].month, 1), dH.size)
    if kind == "mult":  # strictly positive, pr-like magnitudes
        o, h, f = (np.exp((x - 283.0) / 6.0) * 3.0 for x in (o, h, f))
    return (o, h, f), (dO, dH, dF)


def shift_tol(c, scale):
    """tolerance of `out(F + c) - out(F) - c`: float rounding of values of size `scale` -- never more than 0.1 % of the signal for
    small shifts (a tolerance relative to the magnitude of the variable alone would hide a wrong response to a small signal)"""
    return min(1e-8 * (1 + abs(c) + scale), max(1e-3 * abs(c), 1e-10 * (1 + scale)))


def scale_tol(kf, bmax):
    return min(1e-8 * (1 + kf) * (1 + bmax), max(1e-3 * abs(kf - 1) * bmax, 1e-10 * (1 + kf) * (1 + bmax)))


def run_loc(deb, o, h, f, dates):
    with warnings.catch_warnings(), np.errstate(all="ignore"):
        warnings.simplefilter("ignore")
        if dates is None:
            return deb.apply_location(o, h, f)
        return deb.apply_location(o, h, f, dates[0], dates[1], dates[2])


def annual_trend(x, years):
    """slope * (year - mean(unique years)) per value if linregress of the annual means is significant, else 0"""
    import scipy.stats

    uy = np.unique(years)
    if uy.size < 2:
        return np.zeros_like(x), False, 0.0
    means = np.array([x[years == y].mean() for y in uy])
    r = scipy.stats.linregress(uy, means)
    if not r.pvalue < 0.05:
        return np.zeros_like(x), False, float(r.slope)
    return r.slope * (years - uy.mean()), True, float(r.slope)


def annual_slope(x, years):
    """regression slope of the annual means (selected by year, independent of the storage order)"""
    import scipy.stats

    uy = np.unique(years)
    if uy.size < 2:
        return 0.0
    return float(scipy.stats.linregress(uy, np.array([x[years == y].mean() for y in uy])).slope)


# ------------------------------------------------------------------ round 6: "EVERY debiased value" includes the values that are never computed
# Quantifier covered: "... changes EVERY debiased value by exactly c" (and "scales the output by k"): a debiased value that is not finite --
# under IBICUS_VERIF=1 a time step the window loop never assigns reads NaN (utils._verif_mark_unassigned; uninitialised memory / the zero
# buffer otherwise) -- does not change by c whatever cm_future is.  Up to round 5 a non-finite first result was taken for the excused case
# "empty window sample" and the case skipped without looking; now the guard of the windowed theorems is DECIDED, from Python's own calendar
# and independently of ibicus, and where it holds a non-finite debiased value is a failing input of the shift / scale clause.
def window_samples_nonempty(dates3, rw, length):
    """the guard "obs / cm_hist / cm_future window samples non-empty" (DESIGN §4 C02): every series holds every day of year 1..365 (hence every
    month), and a seasonal window is at least 3 days long or day 366 is present in every series -- then the window around ANY centre 1..366
    the library may pick, and every month, holds values of all three series (the cm_future sample of a window holds the adjusted steps
    themselves because step <= length is enforced by the constructor)"""
    sets = [{d.timetuple().tm_yday for d in ds} for ds in dates3]
    need = set(range(1, 366))
    return all(need <= s for s in sets) and (not rw or int(length) >= 3 or all(366 in s for s in sets))


def actual_dates(dates3, sizes):
    """the calendar days the library works with: the explicit ones, or daily from 1950-01-01 when the time arrays are omitted"""
    if dates3 is not None:
        return dates3
    return tuple(probes.dates_from(datetime.date(1950, 1, 1), int(n)) for n in sizes)


def nonfinite_problem(label, base, out_dates, case):
    """(text, record) for a first result with non-finite debiased values although every window sample is non-empty"""
    b = np.asarray(base, dtype=float)
    bad = np.argwhere(~np.isfinite(b))
    steps = sorted({int(i[0]) for i in bad})
    days = [str(out_dates[i]) for i in steps[:6]] if out_dates is not None and len(out_dates) == b.shape[0] else []
    return (f"{label}: {len(steps)} of {b.shape[0]} time steps of the debiased series are not finite (a NaN is a time step that no window ever "
            f"assigned, or the mean of nothing) although every obs / cm_hist / cm_future window sample is non-empty: steps {steps[:6]}"
            f"{' = ' + ', '.join(days) if days else ''}{' ...' if len(steps) > 6 else ''}; adding c to (scaling by k) cm_future cannot change these debiased "
            f"values by c (scale them by k)",
            {**case, "what": "nonfinite-debiased-value", "nonfinite_steps": steps[:40], "nonfinite_dates": days, "n_nonfinite_steps": len(steps)})


# ------------------------------------------------------------------ the oracle
def oracle(rng, n_cases, res, problems):
    cfs = oracle_configs()
    names = list(cfs)
    worst = {}
    samples = res.extra.setdefault("oracle_samples", [])
    for k in range(n_cases):
        name = names[k % len(names)]
        kind, mk = cfs[name]
        nprs = np.random.RandomState(rng.randint(0, 2**31 - 1))
        rnd = k // len(names)  # every configuration meets every kind of future series (4 rounds per quick run)
        trend_kind = ["trend", "uniform", "stationary", "uniform"][rnd % 4] if rnd < 8 else rng.choice(["stationary", "trend", "trend", "uniform"])
        if trend_kind == "uniform" and "nonparametric" in name:
            # non-parametric QuantileMapping evaluates the step ecdf of cm_hist at the detrended future values; with cm_future = cm_hist + c
            # these ARE the sample points of cm_hist, i.e. the jumps of the step function: (h + c) - c may round to either side.
            # A float-rounding discontinuity, not a statement about exact shifts (the theorem is about exact arithmetic).
            trend_kind = "stationary"
        (o, h, f), dates = gen_series(rng, nprs, kind, trend_kind)
        # window modes
        isi = name.startswith("ISIMIP")
        if isi:
            rw = rng.choice([True, True, False])
            w = dict(running_window_mode=rw, running_window_length=rng.choice([31, 61]), running_window_step_length=rng.choice([15, 31]))
        else:
            rw = rng.random() < 0.6
            if trend_kind == "uniform" and rnd < 8:
                rw = rnd % 4 == 3  # the uniform signal once window-free (identical samples and fits) and once in seasonal windows
            S = rng.choice([1, 7, 15, 31]) if f.size < 900 else rng.choice([7, 15, 31])
            # windows of at least 15 days: every seasonal window of multi-year daily data then holds obs / cm_hist / cm_future
            # values (the guard of the windowed theorems; a 1-day window on day 366 is empty for a series without leap year)
            w = dict(running_window_mode=rw, running_window_length=max(15, S + rng.choice([0, 16, 30, 60])), running_window_step_length=S)
        y, e = {}, {}
        if name in ("CDFt", "QuantileDeltaMapping/absolute"):
            yw = rng.random() < 0.6
            y = dict(running_window_mode_over_years_of_cm_future=yw)
            if yw:
                Sy = rng.choice([1, 3, 9])
                y.update(running_window_over_years_of_cm_future_length=Sy + rng.choice([0, 2, 8]),
                         running_window_over_years_of_cm_future_step_length=Sy)
            em, im = rng.choice(CDFT_PAIRS)
            e = dict(em=em, im=im)
            if name == "CDFt" and rng.random() < 0.2:
                e["shift"] = "no_shift"
        if isi:
            var = sorted(ISIMIP_ADDITIVE_VARIABLES)[(k // len(names)) % 3]  # every additive variable in every quick run
            ela = (k // len(names)) % 2 == 1 if k // len(names) < 8 else rng.random() < 0.4  # the documented option in every quick run
            e = dict(var=var, npqm=(not ela) and rng.random() < 0.3, detrending=rng.random() < 0.85, ela=ela)
            off, fac = ISIMIP_ADDITIVE_VARIABLES[var]
            o, h, f = (off + fac * x for x in (o, h, f))
        inferred = rng.random() < 0.3
        if inferred:  # the inferred dates start on 1950-01-01: compare with the same dates given explicitly
            dates_used = None
            explicit = tuple(probes.dates_from(datetime.date(1950, 1, 1), x.size) for x in (o, h, f))
        else:
            dates_used = dates
        case = {"config": name, "window": w, "years": y, "extra": e, "trend": trend_kind, "inferred_dates": inferred,
                "sizes": [int(o.size), int(h.size), int(f.size)], "np_seed_case": k, "seed": C.seed(),
                "startF": str(dates[2][0])}
        # half of the cases: both runs on ONE debiaser object, the first result still held by the caller
        same = (rnd + k) % 2 == 0
        case["same_instance"] = same
        deb0 = mk(w, y, e)
        try:
            base = run_loc(deb0, o, h, f, dates_used)
        except Exception as ex:  # noqa: BLE001
            problems.append((f"{name}: {type(ex).__name__} on well-formed input: {str(ex)[:120]}", {**case, "what": "exception"}))
            continue
        scale = float(max(np.abs(o).max(), np.abs(h).max(), np.abs(f).max()))
        if not isinstance(base, np.ndarray):
            problems.append((f"{name}: apply_location returns {type(base).__name__} instead of an array", {**case, "what": "exception"}))
            continue
        if not np.all(np.isfinite(base)):
            used = dates_used if dates_used is not None else explicit
            if base.ndim == 1 and window_samples_nonempty(used, rw, w["running_window_length"]):
                # every window sample is non-empty (decided above from the calendar): "every debiased value" includes this one
                problems.append(nonfinite_problem(name, base, used[0] if name.startswith("DeltaChange") else used[2], case))
                continue
            # an empty window sample (mean of nothing): outside the guards of the theorems, not a statement of C02
            res.extra["skipped_nonfinite"] = res.extra.get("skipped_nonfinite", 0) + 1
            continue
        if inferred:
            ex_out = run_loc(mk(w, y, e), o, h, f, explicit)
            res.count(("inferred", name, rw), True)
            if not np.array_equal(ex_out, base):
                problems.append((f"{name}: inferred dates and the same dates given explicitly (daily from 1950-01-01) give different results "
                                 f"(max diff {float(np.max(np.abs(ex_out - base))):.3g})", {**case, "what": "inferred-vs-explicit"}))
        base_kept = base.copy()

        def second_run(f2):
            """the second call (same object or a fresh one); returns (out, problem text | None)"""
            try:
                out_ = run_loc(deb0 if same else mk(w, y, e), o, h, f2, dates_used)
            except Exception as ex:  # noqa: BLE001
                return base, f"the run on the changed cm_future raises {type(ex).__name__}: {str(ex)[:120]}"
            if not (isinstance(out_, np.ndarray) and out_.shape == base.shape):
                return base, f"the run on the changed cm_future returns {type(out_).__name__} of shape {getattr(out_, 'shape', None)} instead of {base.shape}"
            if same and out_ is base:
                return out_, "the second apply_location call on the same debiaser returns the very array object returned by the first call"
            if same and not np.array_equal(base, base_kept):
                return out_, ("the result of the first apply_location call, still held by the caller, was modified by the second call on the same "
                              f"debiaser (max change {float(np.max(np.abs(base - base_kept))):.3g})")
            return out_, None

        # shifts / factors over many magnitudes: from 1e-6 of the variable's magnitude to 10 standard deviations
        m_f, sd_f = float(np.mean(np.abs(f))), float(np.std(f))
        rel_shifts = [1e-6 * m_f, 3e-6 * m_f, 1e-4 * sd_f, 1e-2 * sd_f, 10.0 * sd_f]
        if kind == "add":
            shifts = rng.sample(SHIFTS, 2) + [rng.choice([-1, 1]) * x for x in rng.sample(rel_shifts[:2], 1) + rng.sample(rel_shifts[2:], 1)]
            for c in shifts:
                out, alias = second_run(f + c)
                if alias:
                    problems.append((f"{name}: {alias}; apply_location(F + {c}) - apply_location(F) evaluates to "
                                     f"{float(np.max(np.abs(out - base))):.3g} instead of {c}", {**case, "what": "result-aliasing", "c": c}))
                    break
                tol = shift_tol(c, scale)
                devs = np.abs(out - base - c)
                if e.get("im") in DISCRETE_IECDF and name == "CDFt":
                    # a discrete inverse-ecdf method is a step function of p, and p = ecdf(F', F') takes the exact grid values k/(n-1):
                    # where n_obs*p hits an integer the rounding of F + c decides the side of the jump.  Isolated elements (< 1 %) on
                    # such a float-rounding discontinuity are accepted and counted; the exact statement is the theorem's.
                    jump = devs > tol
                    if 0 < jump.sum() <= max(1, devs.size // 100):
                        res.extra["ties_accepted"] = res.extra.get("ties_accepted", 0) + int(jump.sum())
                        devs = np.where(jump, 0.0, devs)
                dev = float(np.max(devs))
                worst[name] = max(worst.get(name, 0.0), dev)
                res.count(("shift", name, rw, tuple(sorted(y.items())), tuple(sorted(e.items())), c, trend_kind, inferred), True)
                if len([x for x in samples if x["config"] == name]) < 1:
                    samples.append({**case, "c": c, "max_dev": dev, "tol": tol})
                if not dev <= tol:
                    i = int(np.argmax(devs))
                    problems.append((f"{name}: adding c={c} to cm_future changes the output by {float(out[i] - base[i])!r} at step {i} "
                                     f"(max deviation {dev:.3g} > tol {tol:.3g})", {**case, "what": "shift", "c": c, "index": i}))
                    break
        else:
            for kf in rng.sample(FACTORS[:3], 1) + rng.sample(FACTORS[3:], 1) + [1.0 + rng.choice([-1, 1]) * rng.choice([1e-6, 3e-5, 1e-3])]:
                out, alias = second_run(f * kf)
                if alias:
                    problems.append((f"{name}: {alias}; apply_location(k F) / apply_location(F) evaluates to 1 instead of k={kf}",
                                     {**case, "what": "result-aliasing", "k": kf}))
                    break
                dev = float(np.max(np.abs(out - kf * base)))
                tol = scale_tol(kf, float(np.abs(base).max()))
                worst[name] = max(worst.get(name, 0.0), dev)
                res.count(("scale", name, rw, kf, trend_kind, inferred), True)
                if len([x for x in samples if x["config"] == name]) < 1:
                    samples.append({**case, "k": kf, "max_dev": dev, "tol": tol})
                if not dev <= tol:
                    i = int(np.argmax(np.abs(out - kf * base)))
                    problems.append((f"{name}: scaling cm_future by k={kf} scales the output by {float(out[i] / base[i])!r} at step {i} "
                                     f"(max deviation {dev:.3g} > tol {tol:.3g})", {**case, "what": "scale", "k": kf, "index": i}))
                    break
        # mean-change identities (whole-period mean, window-free mode)
        if name.startswith(("LinearScaling", "DeltaChange")) and not rw:
            res.count(("meanchange", name, trend_kind), True)
            if kind == "add":
                lhs, rhs = base_kept.mean() - o.mean(), f.mean() - h.mean()
                if abs(lhs - rhs) > 1e-9 * (1 + scale):
                    problems.append((f"{name}: mean(out) - mean(obs) = {lhs!r} but mean(cm_future) - mean(cm_hist) = {rhs!r}",
                                     {**case, "what": "mean-change"}))
            else:
                lhs, rhs = base_kept.mean() / o.mean(), f.mean() / h.mean()
                if abs(lhs - rhs) > 1e-9 * (1 + abs(rhs)):
                    problems.append((f"{name}: mean(out) / mean(obs) = {lhs!r} but mean(cm_future) / mean(cm_hist) = {rhs!r}",
                                     {**case, "what": "mean-change"}))
    res.extra["oracle_max_deviation"] = worst


def isimip_trend_oracle(rng, n_cases, res, problems):
    """ISIMIP tas: the output retains the within-period linear trend of the annual means that step 3 removes.
    (a) one window (`_apply_on_window` on the whole series): output - (what step 6 returned) = slope * (year - mean(unique years)),
        slope / significance recomputed here with scipy.stats.linregress on the annual means of cm_future   [isimip_step7_restores +
        isimip_removed_trend_linear / _zero];
    (b) month mode `apply_location`: a linear trend b * (year - mean year) added to cm_future passes through unchanged when the
        regressions of every month sample are significant before and after   [consequence of (a) and of step 3 being linear in cm_future]."""
    from ibicus.debias import ISIMIP
    from ibicus.utils import year

    samples = res.extra.setdefault("oracle_samples", [])
    for k in range(n_cases):
        nprs = np.random.RandomState(rng.randint(0, 2**31 - 1))
        ny = rng.randint(3, 8)
        y0 = rng.randint(1955, 2060)
        dO = probes.dates_from(datetime.date(y0, 1, 1), 365 * rng.randint(2, 5) + rng.randint(0, 30))
        dH = probes.dates_from(datetime.date(y0, 1, 1), 365 * rng.randint(2, 5) + rng.randint(0, 30))
        dF = probes.dates_from(datetime.date(y0 + 30, 1, 1), 365 * ny + ny // 4 + rng.choice([0, 0, rng.randint(0, 20)]))
        if k % 4 == 1:  # the three periods of equal length (a step-7 mix-up of the series is then not a shape error)
            dO = probes.dates_from(datetime.date(y0, 1, 1), dF.size)
            dH = probes.dates_from(datetime.date(y0, 1, 1), dF.size)
        o, h, f = probes.tas_like(nprs, dO, 283, 3), probes.tas_like(nprs, dH, 285, 4), probes.tas_like(nprs, dF, 288, 4)
        kind = rng.choice(["trend", "trend", "trend", "stationary"])
        rate = rng.choice([-1, 1]) * rng.choice([0.5, 2.0, 6.0])
        if kind == "trend":
            f = f + rate * np.arange(dF.size) / 365.0
            h = h + rng.choice([0.0, 0.4]) * np.arange(dH.size) / 365.0
        var = sorted(ISIMIP_ADDITIVE_VARIABLES)[k % 3]
        off, fac = ISIMIP_ADDITIVE_VARIABLES[var]
        o, h, f, rate = off + fac * o, off + fac * h, off + fac * f, rate * fac
        kw = dict(running_window_mode=False, **isimip_kwargs(dict(npqm=rng.random() < 0.3, detrending=rng.random() < 0.9, ela=rng.random() < 0.3)))
        # storage order of the (explicitly dated) series: nothing in ibicus requires a chronological time axis -- windows are
        # selected by day of year / month, the trend by calendar year (the model's yearlyMeans selects by year, not by position)
        order_kind = rng.choice(["chronological", "blocks-swapped", "descending", "shuffled"])
        f_chron, dF_chron = f, dF

        def reorder(n, what):
            if what == "blocks-swapped":
                cut = rng.randint(n // 4, 3 * n // 4)
                return np.concatenate([np.arange(cut, n), np.arange(0, cut)])
            if what == "descending":
                return np.arange(n)[::-1].copy()
            idx = np.arange(n)
            nprs.shuffle(idx)
            return idx

        perm = np.arange(f.size) if order_kind == "chronological" else reorder(f.size, order_kind)
        f, dF = f[perm], dF[perm]
        if order_kind != "chronological" and k % 2 == 0:  # the historical series as well, in another order
            po, ph = reorder(o.size, rng.choice(["descending", "shuffled"])), reorder(h.size, rng.choice(["blocks-swapped", "shuffled"]))
            o, dO, h, dH = o[po], dO[po], h[ph], dH[ph]
        case = {"config": "ISIMIP/additive", "variable": var, "what": "isimip-trend", "kw": kw, "trend": kind, "rate_per_year": rate if kind == "trend" else 0.0,
                "storage_order": order_kind,
                "years_F": ny, "sizes": [int(o.size), int(h.size), int(f.size)], "case": k, "seed": C.seed(), "startF": str(dF[0])}
        yO, yH, yF = (year(d) for d in (dO, dH, dF))
        scale = float(max(np.abs(o).max(), np.abs(h).max(), np.abs(f).max()))
        seen = {}
        orig6 = ISIMIP.step6

        def spy6(self_, a, b, c_, d_, _orig=orig6, _seen=seen):
            r = _orig(self_, a, b, c_, d_)
            _seen["r"] = np.array(r, dtype=float)
            return r

        try:
            with warnings.catch_warnings(), np.errstate(all="ignore"):
                warnings.simplefilter("ignore")
                deb = ISIMIP.from_variable(var, **kw)
                try:
                    ISIMIP.step6 = spy6
                    outw = deb._apply_on_window(o, h, f, yO, yH, yF)
                finally:
                    ISIMIP.step6 = orig6
            if not (isinstance(outw, np.ndarray) and outw.shape == f.shape and "r" in seen and seen["r"].shape == f.shape):
                raise ValueError(f"_apply_on_window returned {type(outw).__name__} of shape {getattr(outw, 'shape', None)}")
        except Exception as ex:  # noqa: BLE001
            problems.append((f"ISIMIP({var}): _apply_on_window on well-formed input: {type(ex).__name__}: {str(ex)[:120]}", {**case, "what": "exception"}))
            continue
        tr, sig, slope = annual_trend(f, yF)
        if not deb.detrending:
            tr = np.zeros_like(f)
        nontrivial = bool(sig and deb.detrending)
        res.count(("isimip-trend", sig, bool(deb.detrending), bool(deb.nonparametric_qm), kind, ny), nontrivial)
        if nontrivial and len([x for x in samples if x.get("what") == "isimip-trend"]) < 1:
            samples.insert(0, {**case, "significant": sig, "slope_per_year": slope})
        dev = float(np.max(np.abs(outw - seen["r"] - tr)))
        if not dev <= 1e-8 * (1 + scale):
            retained = annual_slope(outw, yF) - annual_slope(seen["r"], yF)
            problems.append((f"ISIMIP ({order_kind} time axis): output - (quantile-mapped detrended series) differs from the trend removed from cm_future, "
                             f"slope*(year - mean year) with slope {slope:.4g}/yr (significant={sig}, detrending={bool(deb.detrending)}), by {dev:.3g}; "
                             f"retained slope of the annual means {retained:.4g}/yr", {**case, "what": "isimip-trend-restored"}))
            continue
        if order_kind != "chronological":
            # the same dated values in chronological storage order give the same debiased value for every date (month mode)
            try:
                with warnings.catch_warnings(), np.errstate(all="ignore"):
                    warnings.simplefilter("ignore")
                    a_perm = ISIMIP.from_variable(var, **kw).apply_location(o, h, f, dO, dH, dF)
                    a_chr = ISIMIP.from_variable(var, **kw).apply_location(o, h, f_chron, dO, dH, dF_chron)
            except Exception as ex:  # noqa: BLE001
                problems.append((f"ISIMIP({var}) month mode, {order_kind} time axis: {type(ex).__name__}: {str(ex)[:120]}", {**case, "what": "exception"}))
                continue
            devp = float(np.max(np.abs(a_perm - a_chr[perm])))
            res.count(("isimip-order", order_kind, kind, bool(deb.detrending), ny), True)
            if len([x for x in samples if x.get("storage_order", "chronological") != "chronological"]) < 1:
                samples.insert(0, {**case, "max_dev_vs_chronological": devp})
            if not devp <= 1e-8 * (1 + scale):
                s_in, s_out = annual_slope(f, yF), annual_slope(a_perm, yF)
                problems.append((f"ISIMIP (month mode): cm_future stored in {order_kind} order with its explicit dates gives, per date, values differing from "
                                 f"the chronological call by up to {devp:.3g}; slope of annual means cm_future {s_in:.4g}/yr -> debiased {s_out:.4g}/yr "
                                 f"(chronological: {annual_slope(a_chr, year(dF_chron)):.4g}/yr)", {**case, "what": "isimip-storage-order"}))
                continue
        if k % 3 == 0 and deb.detrending:
            b = rng.choice([-1, 1]) * rng.choice([0.5, 2.0]) * fac
            uy = np.unique(yF)
            g = b * (yF - uy.mean())
            months = np.array([d.month for d in dF])
            ok = True
            for m in range(1, 13):
                mm = months == m
                ok = ok and np.unique(yF[mm]).size == uy.size and annual_trend(f[mm], yF[mm])[1] and annual_trend((f + g)[mm], yF[mm])[1]
            if ok:
                try:
                    with warnings.catch_warnings(), np.errstate(all="ignore"):
                        warnings.simplefilter("ignore")
                        a1 = ISIMIP.from_variable(var, **kw).apply_location(o, h, f, dO, dH, dF)
                        a2 = ISIMIP.from_variable(var, **kw).apply_location(o, h, f + g, dO, dH, dF)
                except Exception as ex:  # noqa: BLE001
                    problems.append((f"ISIMIP({var}) month mode with a linear trend added: {type(ex).__name__}: {str(ex)[:120]}", {**case, "what": "exception"}))
                    continue
                dev2 = float(np.max(np.abs(a2 - a1 - g)))
                res.count(("isimip-linear", kind, b, ny), True)
                if not dev2 <= 1e-7 * (1 + scale):
                    problems.append((f"ISIMIP (month mode): adding the linear trend {b}/yr * (year - mean year) to cm_future does not pass through "
                                     f"(max deviation {dev2:.3g})", {**case, "what": "isimip-linear-trend", "b": b}))


# ------------------------------------------------------------------ the same identities through the public `apply`
DTYPES = ["float64", "float32", "int64", "int32"]


def apply_oracle(rng, n_cases, res, problems):
    """`Debiaser.apply` on [time, 1, 1] / [time, 1, 2] grids with float64 / float32 / int64 / int32 (and mixed) inputs: the result
    must be a floating array and the shift / scale / mean-change identities must hold exactly as for `apply_location`
    (the input check converts integer data to float before anything is computed or allocated).  Integer-valued (hence tied)
    data only with transfer functions that are continuous in the data: LinearScaling, DeltaChange, parametric QuantileMapping
    (norm), ECDFM (norm), SDM absolute (norm) — rank / ecdf based methods legitimately sit on float-rounding
    discontinuities at tied values."""
    import scipy.stats

    from ibicus.debias import DeltaChange, ECDFM, LinearScaling, QuantileMapping, ScaledDistributionMapping

    norm = scipy.stats.norm
    cfs = {
        "LinearScaling/additive": ("add", lambda w: LinearScaling.from_variable("tas", delta_type="additive", **w)),
        "DeltaChange/additive": ("add", lambda w: DeltaChange.from_variable("tas", delta_type="additive", **w)),
        "QuantileMapping/additive-parametric": ("add", lambda w: QuantileMapping.from_variable(
            "tas", distribution=norm, mapping_type="parametric", detrending="additive", **w)),
        "ECDFM": ("add", lambda w: ECDFM.from_variable("tas", distribution=norm, **w)),
        "ScaledDistributionMapping/absolute": ("add", lambda w: ScaledDistributionMapping.from_variable(
            "tas", distribution=norm, mapping_type="absolute", **w)),
        "LinearScaling/multiplicative": ("mult", lambda w: LinearScaling.from_variable("pr", delta_type="multiplicative", **w)),
        "DeltaChange/multiplicative": ("mult", lambda w: DeltaChange.from_variable("pr", delta_type="multiplicative", **w)),
        "QuantileMapping/multiplicative-parametric": ("mult", lambda w: QuantileMapping.from_variable(
            "tas", distribution=norm, mapping_type="parametric", detrending="multiplicative", **w)),
    }
    names = list(cfs)
    samples = res.extra.setdefault("oracle_samples", [])

    def run_apply(deb, o, h, f, times):
        with warnings.catch_warnings(), np.errstate(all="ignore"):
            warnings.simplefilter("ignore")
            return deb.apply(o, h, f, progressbar=False, **times)

    for k in range(n_cases):
        name = names[k % len(names)]
        kind, mk = cfs[name]
        nprs = np.random.RandomState(rng.randint(0, 2**31 - 1))
        ncell = rng.choice([1, 2])
        n = 365 * rng.randint(2, 3) + rng.randint(0, 20)
        y0 = rng.randint(1955, 2060)
        dO, dH, dF = (probes.dates_from(datetime.date(y, 1, 1), n) for y in (y0, y0, y0 + 40))
        cols = []
        for _ in range(ncell):
            o, h, f = probes.tas_like(nprs, dO, 283, 3), probes.tas_like(nprs, dH, 285.3, 4), probes.tas_like(nprs, dF, 288.4, 4)
            if kind == "mult":  # positive, tens to hundreds (so that whole numbers keep the structure)
                o, h, f = (np.exp((x - 283.0) / 6.0) * 40.0 + 1.0 for x in (o, h, f))
            cols.append((o, h, f))
        arrs = [np.stack([c[i] for c in cols], axis=1).reshape(n, 1, ncell) for i in range(3)]
        dts = [rng.choice(DTYPES) for _ in range(3)]
        if k % 3 == 0:
            dts[2] = rng.choice(["int64", "int32"])  # an integer cm_future in a third of the cases
        obs, hist, fut = (np.round(a).astype(dt) if dt.startswith("int") else a.astype(dt) for a, dt in zip(arrs, dts))
        rw = rng.random() < 0.4
        w = dict(running_window_mode=rw, running_window_length=rng.choice([31, 61]), running_window_step_length=rng.choice([15, 31]))
        times = dict(time_obs=dO, time_cm_hist=dH, time_cm_future=dF) if rng.random() < 0.5 else {}
        f32 = "float32" in dts
        scale = float(max(np.abs(a.astype(float)).max() for a in (obs, hist, fut)))
        case = {"config": name, "via": "apply", "grid": [1, ncell], "dtypes": {"obs": dts[0], "cm_hist": dts[1], "cm_future": dts[2]},
                "window": w, "explicit_time": bool(times), "n_time": n, "case": k, "seed": C.seed(), "what": "apply"}
        try:
            base = run_apply(mk(w), obs, hist, fut, times)
        except Exception as ex:  # noqa: BLE001
            problems.append((f"{name}: apply raises {type(ex).__name__} on well-formed {dts} input: {str(ex)[:120]}", {**case, "what": "apply-exception"}))
            continue
        n_before = len(problems)
        dtype_bad = not np.issubdtype(base.dtype, np.floating)  # reported below unless the identities themselves already fail
        if not np.all(np.isfinite(base)):
            used = actual_dates((dO, dH, dF) if times else None, (n, n, n))
            if base.ndim == 3 and window_samples_nonempty(used, rw, w["running_window_length"]):  # round 6: see window_samples_nonempty
                problems.append(nonfinite_problem(f"{name} via apply, dtypes {dts}", base, used[0] if name.startswith("DeltaChange") else used[2], case))
                continue
            res.extra["skipped_nonfinite"] = res.extra.get("skipped_nonfinite", 0) + 1
            continue
        if kind == "add":
            for c in (rng.choice([0.4, 2.5, -0.5, 1e3 + 0.25]), rng.choice([3, -3])):  # a non-integer shift and an integer control
                fut_c = fut + c if not (f32 and dts[2] == "float32") else (fut.astype(np.float64) + c)
                try:
                    out = run_apply(mk(w), obs, hist, fut_c, times)
                except Exception as ex:  # noqa: BLE001
                    problems.append((f"{name} via apply, dtypes {dts}, cm_future + {c}: {type(ex).__name__}: {str(ex)[:120]}", {**case, "what": "apply-exception", "c": c}))
                    break
                dev = float(np.max(np.abs(out.astype(float) - base.astype(float) - c)))
                tol = 2e-5 * (1 + abs(c) + scale) if f32 else 1e-8 * (1 + abs(c) + scale)
                res.count(("apply-shift", name, tuple(dts), ncell, rw, bool(times), c), True)
                if len([x for x in samples if x.get("via") == "apply"]) < 1 and dts[2].startswith("int"):
                    samples.insert(0, {**case, "c": c, "max_dev": dev, "tol": tol})
                if not (dev <= tol and np.issubdtype(out.dtype, np.floating)):
                    problems.append((f"{name} via apply, dtypes obs/cm_hist/cm_future = {dts}: apply(cm_future + {c}) - apply(cm_future) deviates from "
                                     f"{c} by up to {dev:.3g} (tol {tol:.3g}; result dtypes {base.dtype}, {out.dtype})",
                                     {**case, "what": "apply-shift", "c": c}))
                    break
        else:
            for kf in (rng.choice([0.5, 2.5, 1.0 / 400.0]), rng.choice([2, 10, 250])):
                fut_k = fut * kf if not (f32 and dts[2] == "float32") else (fut.astype(np.float64) * kf)
                try:
                    out = run_apply(mk(w), obs, hist, fut_k, times)
                except Exception as ex:  # noqa: BLE001
                    problems.append((f"{name} via apply, dtypes {dts}, {kf} * cm_future: {type(ex).__name__}: {str(ex)[:120]}", {**case, "what": "apply-exception", "k": kf}))
                    break
                dev = float(np.max(np.abs(out.astype(float) - kf * base.astype(float))))
                tol = (2e-5 if f32 else 1e-8) * (1 + kf) * (1 + float(np.abs(base).max()))
                res.count(("apply-scale", name, tuple(dts), ncell, rw, bool(times), kf), True)
                if not (dev <= tol and np.issubdtype(out.dtype, np.floating)):
                    problems.append((f"{name} via apply, dtypes obs/cm_hist/cm_future = {dts}: apply(k*cm_future) deviates from k*apply(cm_future), "
                                     f"k={kf}, by up to {dev:.3g} (tol {tol:.3g}; result dtypes {base.dtype}, {out.dtype})",
                                     {**case, "what": "apply-scale", "k": kf}))
                    break
        if dtype_bad and len(problems) == n_before:
            problems.append((f"{name}: apply returns dtype {base.dtype} for cm_future of dtype {dts[2]} (debiased values are truncated to integers)",
                             {**case, "what": "apply-result-dtype"}))
        if name.startswith(("LinearScaling", "DeltaChange")) and not rw:
            res.count(("apply-meanchange", name, tuple(dts)), True)
            o64, h64, f64, b64 = (a.astype(float) for a in (obs, hist, fut, base))
            if kind == "add":
                lhs, rhs = b64.mean(axis=0) - o64.mean(axis=0), f64.mean(axis=0) - h64.mean(axis=0)
                bad = np.max(np.abs(lhs - rhs)) > (2e-5 if f32 else 1e-9) * (1 + scale)
            else:
                lhs, rhs = b64.mean(axis=0) / o64.mean(axis=0), f64.mean(axis=0) / h64.mean(axis=0)
                bad = np.max(np.abs(lhs - rhs)) > (2e-5 if f32 else 1e-9) * (1 + float(np.abs(rhs).max()))
            if bad:
                problems.append((f"{name} via apply, dtypes {dts}: change of the time mean relative to obs {lhs.ravel().tolist()} != simulated change "
                                 f"{rhs.ravel().tolist()}", {**case, "what": "apply-mean-change"}))


# ------------------------------------------------------------------ round 5: a configuration does not depend on the history of the process
# Quantifier covered: `configurations` ("for EVERY additive / trend-preserving configuration ...", "for the multiplicative configurations ...")
# read as the user meets it: a configuration is what a PUBLIC constructor returns for its arguments -- whatever else has been constructed or
# applied earlier in the same process (any construction order: the other variables of the same class, the same variable with deviating
# options, other classes, `for_precipitation`, the plain constructors; before the construction of the judged debiaser, between its
# construction and its first call, between its two calls), with the variable given as a string (any case) or as a Variable object and with
# NOTHING but the library defaults passed -- and `inputs` ("with explicit or inferred dates"): every time encoding the library accepts
# (probes.DATE_KINDS), contiguous and non-contiguous memory layouts, through `apply_location` and through `apply` serial / parallel,
# failsafe on / off.  The judgement is the property's own (out(F + c) - out(F) = c, out(k F) = k out(F)), tolerances of the main oracle.
_RW = ["LinearScaling", "DeltaChange", "QuantileMapping", "ScaledDistributionMapping", "ECDFM", "QuantileDeltaMapping", "CDFt", "ISIMIP"]
_LS_VARS = ["tas", "pr", "tasmin", "tasmax", "hurs", "psl", "rlds", "rsds", "sfcwind"]
_Q_VARS = ["tas", "pr", "hurs", "psl", "rlds", "sfcwind", "tasmin", "tasmax"]
# the documented support matrix (ibicus/debias/__init__.py): class -> variables with default or experimental default settings
HIST_SUPPORT = {
    "LinearScaling": _LS_VARS, "DeltaChange": _LS_VARS, "QuantileMapping": _Q_VARS, "ECDFM": _Q_VARS, "QuantileDeltaMapping": _Q_VARS,
    "ScaledDistributionMapping": ["tas", "pr", "tasmin", "tasmax"],
    "CDFt": ["tas", "pr", "tasmin", "tasmax", "hurs", "psl", "rlds", "rsds", "sfcwind", "tasrange", "tasskew"],
    "ISIMIP": ["hurs", "pr", "prsnratio", "psl", "rlds", "rsds", "sfcwind", "tas", "tasrange", "tasskew"],
}
# options a user may legitimately pass on top of the defaults (valid values only; distributions by their scipy.stats name)
HIST_OPTIONS = {
    "LinearScaling": {"delta_type": ["additive", "multiplicative"]},
    "DeltaChange": {"delta_type": ["additive", "multiplicative"]},
    "QuantileMapping": {"detrending": ["additive", "multiplicative", "no_detrending"], "mapping_type": ["parametric", "nonparametric"],
                        "distribution": ["norm", "gamma"]},
    "ScaledDistributionMapping": {"mapping_type": ["absolute", "relative"], "distribution": ["norm", "gamma"]},
    "ECDFM": {"distribution": ["norm", "gamma", "beta"]},
    "QuantileDeltaMapping": {"trend_preservation": ["absolute", "relative"], "distribution": ["norm", "gamma"]},
    "CDFt": {"delta_shift": ["additive", "multiplicative", "no_shift"], "SSR": [True, False],
             "iecdf_method": ["linear", "inverted_cdf", "hazen"], "ecdf_method": ["linear_interpolation", "step_function"]},
    "ISIMIP": {"detrending": [True, False], "nonparametric_qm": [True, False], "event_likelihood_adjustment": [True, False],
               "scale_by_annual_cycle_of_upper_bounds": [True, False], "trend_preservation_method": ["additive", "multiplicative", "mixed", "bounded"],
               "impute_missing_values": [True, False], "detrending_with_significance_test": [True, False],
               "trend_transfer_only_for_values_within_threshold": [True, False], "ks_test_for_goodness_of_cdf_fit": [True, False],
               "distribution": ["norm", "gamma"]},
}
HIST_WINDOW_OPTIONS = {"running_window_mode": [True, False], "running_window_length": [11, 31, 91], "running_window_step_length": [1, 7, 31]}
# what the plain constructors need (the values are drawn from HIST_OPTIONS)
HIST_CONSTRUCTOR = {"LinearScaling": ["delta_type"], "DeltaChange": ["delta_type"], "CDFt": [], "QuantileMapping": ["distribution", "detrending", "mapping_type"],
                    "ScaledDistributionMapping": ["distribution", "mapping_type"], "ECDFM": ["distribution"],
                    "QuantileDeltaMapping": ["distribution", "trend_preservation"],
                    "ISIMIP": ["distribution", "trend_preservation_method", "detrending", "nonparametric_qm"]}
HIST_FOR_PRECIPITATION = ["QuantileMapping", "ECDFM", "QuantileDeltaMapping", "ScaledDistributionMapping"]
# tas-like K -> the units of the variable (offset, factor)
HIST_UNITS = {"tas": (0.0, 1.0), "tasmin": (-5.0, 1.0), "tasmax": (5.0, 1.0), "psl": ISIMIP_ADDITIVE_VARIABLES["psl"], "rlds": ISIMIP_ADDITIVE_VARIABLES["rlds"]}
# the judged debiasers, grouped so that every class is met in every round: (kind, class, variables, options -- {} = the library defaults)
HIST_TARGET_GROUPS = [
    ("add", "LinearScaling", ["tas", "tasmin", "tasmax", "psl", "rlds"], {}),
    ("add", "ISIMIP", ["tas", "psl", "rlds"], {}),
    ("add", "DeltaChange", ["tas", "tasmin", "tasmax", "psl", "rlds"], {}),
    ("add", "CDFt", ["tas", "tasmin", "tasmax", "psl", "rlds"], {}),
    ("mult", "LinearScaling", ["pr", "rsds", "sfcwind"], {}),
    ("add", "ScaledDistributionMapping", ["tas", "tasmin", "tasmax"], {}),
    ("add", "QuantileMapping", ["tas"], {}),
    ("add", "QuantileDeltaMapping", ["tas"], {}),
    ("mult", "DeltaChange", ["pr", "rsds", "sfcwind"], {}),
    ("add", "ECDFM", ["tas"], {"distribution": "norm"}),  # the default beta family is fitted numerically (see ecdfm_beta_note)
    ("mult", "QuantileMapping", ["tas"], {"detrending": "multiplicative", "mapping_type": "nonparametric"}),
]


def hist_step_text(st):
    kw = ", ".join(f"{k}={('scipy.stats.' + v) if k == 'distribution' else repr(v)}" for k, v in st["kw"].items())
    if st["how"] == "for_precipitation":
        return f"{st['cls']}.for_precipitation({kw})"
    if st["how"] == "constructor":
        return f"{st['cls']}({kw})"
    v = {"upper": repr(st["var"].upper()), "object": "ibicus.variables." + st["var"]}.get(st["var_as"], repr(st["var"]))
    return f"{st['cls']}.from_variable({v}{', ' if kw else ''}{kw})" + (" + apply_location on a short series" if st.get("use") else "")


def hist_construct(st):
    """a (JSON-able) step -> the debiaser, through the public constructors only"""
    import ibicus.debias
    import ibicus.variables
    import scipy.stats

    cls = getattr(ibicus.debias, st["cls"])
    kw = dict(st["kw"])
    if "distribution" in kw:
        kw["distribution"] = getattr(scipy.stats, kw["distribution"])
    with warnings.catch_warnings():
        warnings.simplefilter("ignore")
        if st["how"] == "for_precipitation":
            return cls.for_precipitation(**kw)
        if st["how"] == "constructor":
            return cls(**kw)
        v = st["var"]
        v = v.upper() if st["var_as"] == "upper" else getattr(ibicus.variables, v) if st["var_as"] == "object" else v
        return cls.from_variable(v, **kw)


def hist_gen_steps(rng, cls_name, var):
    """what happens in the process besides the judged debiaser: the same class for EVERY supported variable (constructors are cheap), half of
    them with deviating options, the judged variable itself with deviating options, a few other classes, for_precipitation / plain constructors"""
    def options(c, p=0.5):
        kw = {}
        if rng.random() < p:
            for key in rng.sample(sorted(HIST_OPTIONS[c]), rng.randint(1, min(3, len(HIST_OPTIONS[c])))):
                kw[key] = rng.choice(HIST_OPTIONS[c][key])
            if rng.random() < 0.4:
                key = rng.choice(sorted(HIST_WINDOW_OPTIONS))
                kw[key] = rng.choice(HIST_WINDOW_OPTIONS[key])
        return kw

    def fv(c, v, kw):
        cheap = v in ("tas", "tasmin", "tasmax") and kw.get("distribution", "norm") == "norm" and (
            c in ("LinearScaling", "DeltaChange", "CDFt", "ScaledDistributionMapping") or (v == "tas" and c in ("QuantileMapping", "QuantileDeltaMapping", "ISIMIP")))
        return {"cls": c, "how": "from_variable", "var": v, "var_as": rng.choice(["str", "str", "upper", "object"]), "kw": kw,
                "use": bool(cheap and rng.random() < 0.2)}

    steps = [fv(cls_name, v, options(cls_name)) for v in HIST_SUPPORT[cls_name]]
    steps.append(fv(cls_name, var, options(cls_name, 1.0)))
    for _ in range(rng.randint(0, 3)):
        c = rng.choice(_RW)
        steps.append(fv(c, rng.choice(HIST_SUPPORT[c]), options(c)))
    if rng.random() < 0.5:
        c = rng.choice([cls_name] + _RW)
        steps.append({"cls": c, "how": "constructor", "var": None, "var_as": None,
                      "kw": {key: rng.choice(HIST_OPTIONS[c][key]) for key in HIST_CONSTRUCTOR[c]}})
    if rng.random() < 0.4:
        c = cls_name if cls_name in HIST_FOR_PRECIPITATION and rng.random() < 0.6 else rng.choice(HIST_FOR_PRECIPITATION)
        steps.append({"cls": c, "how": "for_precipitation", "var": None, "var_as": None, "kw": {}})
    rng.shuffle(steps)
    return steps


def hist_run_steps(steps, small, stats, done):
    """executes the steps; what they raise is not C02's business (counted, never a verdict)"""
    for st in steps:
        try:
            d = hist_construct(st)
            done.add(f"{st['cls']}({st['var'] or st['how']})")
            stats["constructed"] += 1
        except Exception:  # noqa: BLE001
            stats["construct_raised"] += 1
            continue
        if st.get("use"):
            try:
                run_loc(d, small[0], small[1], small[2], small[3])
                stats["applied"] += 1
            except Exception:  # noqa: BLE001
                stats["apply_raised"] += 1


def process_history_oracle(rng, n_cases, res, problems):
    """the shift / scale identities for debiasers built from the library defaults, with other public constructions (and uses) before, between
    and after -- see the comment block above; every case records the full call sequence"""
    from harness import gridprobes as G

    stats = res.extra.setdefault("process_history", {"cases": 0, "constructed": 0, "construct_raised": 0, "applied": 0, "apply_raised": 0,
                                                     "parallel_cases": 0, "failsafe_cases": 0, "apply_cases": 0})
    samples = res.extra.setdefault("oracle_samples", [])
    done = set()
    n_par = 0
    ng = len(HIST_TARGET_GROUPS)
    for k in range(n_cases):
        kind, cls_name, vs, opts = HIST_TARGET_GROUPS[k % ng]
        rnd = k // ng
        var = vs[(rnd + C.seed()) % len(vs)]
        nprs = np.random.RandomState(rng.randint(0, 2**31 - 1))
        tkw = dict(opts)
        if cls_name == "ISIMIP":  # the default step length of 1 day means 366 windows: only the step is passed
            tkw["running_window_step_length"] = rng.choice([15, 31])
        elif rng.random() < 0.4:
            tkw.update(running_window_mode=True, running_window_length=rng.choice([31, 61]), running_window_step_length=rng.choice([15, 31]))
        target = {"cls": cls_name, "how": "from_variable", "var": var, "var_as": rng.choice(["str", "str", "upper", "object"]), "kw": tkw}
        steps = hist_gen_steps(rng, cls_name, var)
        position = "before the construction" if rnd == 0 else rng.choice(["before the construction", "before the construction",
                                                                          "between construction and first call", "between the two calls"])
        # ---- data: dated daily series over several years, one to two locations
        via = "apply_location" if rng.random() < 0.5 else "apply"
        shape = (1, 1) if via == "apply_location" else rng.choice([(1, 1), (1, 2), (2, 1)])
        y0 = rng.randint(1955, 2060)
        dO = probes.dates_from(datetime.date(y0, 1, 1), 365 * rng.randint(2, 4) + rng.randint(0, 30))
        dH = probes.dates_from(datetime.date(y0, rng.choice([1, 1, 7]), 1), 365 * rng.randint(2, 4) + rng.randint(0, 30))
        dF = probes.dates_from(datetime.date(y0 + 30, 1, 1) + datetime.timedelta(days=rng.choice([0, 0, rng.randint(0, 364)])), 365 * rng.randint(2, 4) + rng.randint(0, 30))
        trend = rng.choice(["stationary", "trend"])
        rate = rng.choice([-1, 1]) * rng.choice([0.5, 2.0, 6.0]) if trend == "trend" else 0.0
        cols = []
        for _ in range(shape[0] * shape[1]):
            o, h, f = probes.tas_like(nprs, dO, 283, 3), probes.tas_like(nprs, dH, 285, 4), probes.tas_like(nprs, dF, 288, 4)
            f = f + rate * np.arange(dF.size) / 365.0
            if kind == "mult":
                o, h, f = (np.exp((x - 283.0) / 6.0) * 3.0 for x in (o, h, f))
            else:
                off, fac = HIST_UNITS[var]
                o, h, f = (off + fac * x for x in (o, h, f))
            cols.append((o, h, f))
        O, H, F = (np.stack([c[i] for c in cols], axis=1).reshape((-1,) + tuple(shape)) for i in range(3))
        enc = rng.choice(["inferred"] + list(probes.DATE_KINDS))
        times = None if enc == "inferred" else tuple(probes.present(d, enc) for d in (dO, dH, dF))
        if via == "apply_location":
            layout = rng.choice(["C", "strided"])
            failsafe = parallel = False
        else:
            layout = rng.choice(G.LAYOUTS)
            failsafe = rng.random() < 0.4
            parallel = n_par < 2 and rng.random() < 0.5  # two pool runs per quick run (the pool start is what costs)
            n_par += int(parallel)

        def lay(a):
            if via == "apply":
                return G.relayout(a, layout)
            a = a[:, 0, 0]
            if layout == "strided":
                big = np.zeros(2 * a.size)
                big[::2] = a
                return big[::2]
            return np.ascontiguousarray(a)

        def call(deb, f2, fs=failsafe):
            """-> ('ok', array) | ('error', class name, message)"""
            if via == "apply":
                kw = {} if times is None else dict(time_obs=times[0], time_cm_hist=times[1], time_cm_future=times[2])
                return G.run_apply(deb, lay(O), lay(H), lay(f2), parallel=parallel, nproc=2 if parallel else None, failsafe=fs, **kw)
            try:
                return ("ok", run_loc(deb, lay(O), lay(H), lay(f2), times))
            except Exception as ex:  # noqa: BLE001
                return ("error", type(ex).__name__, G.safe_str(ex))

        sm_d = probes.dates_from(datetime.date(y0, 3, 1), 400)
        small = (probes.tas_like(nprs, sm_d, 283, 3), probes.tas_like(nprs, sm_d, 285, 4), probes.tas_like(nprs, sm_d, 288, 4), (sm_d, sm_d, sm_d))
        label = hist_step_text(target)
        case = {"config": "history/" + label, "what": "process-history", "target": label, "position_of_the_other_calls": position,
                "other_calls_in_this_case": [hist_step_text(s) for s in steps],
                "constructed_earlier_in_this_process_by_this_oracle": sorted(done),
                "via": via, "grid": list(shape), "layout": layout, "time_encoding": enc, "failsafe": failsafe, "parallel": parallel,
                "sizes": [int(O.shape[0]), int(H.shape[0]), int(F.shape[0])], "startF": str(dF[0]), "trend": trend, "rate_per_year": rate,
                "case": k, "seed": C.seed()}
        stats["cases"] += 1
        stats["apply_cases"] += int(via == "apply")
        stats["parallel_cases"] += int(parallel)
        stats["failsafe_cases"] += int(failsafe)
        if position == "before the construction":
            hist_run_steps(steps, small, stats, done)
        try:
            deb = hist_construct(target)
        except Exception as ex:  # noqa: BLE001
            problems.append((f"{label} raises {type(ex).__name__}: {str(ex)[:120]}", {**case, "what": "exception"}))
            continue
        if position == "between construction and first call":
            hist_run_steps(steps, small, stats, done)
        r = call(deb, F)
        if r[0] == "ok" and failsafe and isinstance(r[1], np.ndarray) and not np.all(np.isfinite(r[1])):
            r = call(deb, F, fs=False)  # failsafe turns an exception into NaN: ask again for the exception itself
        if r[0] == "error":
            problems.append((f"{label} via {via}: {r[1]} on well-formed input: {r[2][:120]}", {**case, "what": "exception"}))
            continue
        base = r[1]
        exp_shape = lay(O if cls_name == "DeltaChange" else F).shape  # DeltaChange transforms the observations
        if not (isinstance(base, np.ndarray) and base.shape == exp_shape):
            problems.append((f"{label} via {via}: returns {type(base).__name__} of shape {getattr(base, 'shape', None)} instead of {exp_shape}",
                             {**case, "what": "exception"}))
            continue
        if not np.all(np.isfinite(base)):
            used = actual_dates(None if enc == "inferred" else (dO, dH, dF), (O.shape[0], H.shape[0], F.shape[0]))
            if window_samples_nonempty(used, bool(getattr(deb, "running_window_mode", False)), getattr(deb, "running_window_length", 3)):
                # round 6: every window sample is non-empty (see window_samples_nonempty), "every debiased value" includes this one
                problems.append(nonfinite_problem(f"{label} via {via}", base, used[0] if cls_name == "DeltaChange" else used[2], case))
                continue
            res.extra["skipped_nonfinite"] = res.extra.get("skipped_nonfinite", 0) + 1
            continue
        base = np.array(base, dtype=float)
        if position == "between the two calls":
            hist_run_steps(steps, small, stats, done)
        scale = float(max(np.abs(O).max(), np.abs(H).max(), np.abs(F).max()))
        m_f, sd_f = float(np.mean(np.abs(F))), float(np.std(F))
        if kind == "add":
            changes = [rng.choice(SHIFTS), rng.choice([-1, 1]) * rng.choice([1e-6 * m_f, 1e-2 * sd_f, 10.0 * sd_f])]
        else:
            changes = [rng.choice(FACTORS), 1.0 + rng.choice([-1, 1]) * rng.choice([1e-6, 3e-5, 1e-3])]
        for j, ch in enumerate(changes):
            # the second call on the same object (a user's loop over scenarios) or on a newly constructed one
            same = (k + j) % 2 == 0 or position == "between the two calls"
            try:
                deb2 = deb if same else hist_construct(target)
            except Exception as ex:  # noqa: BLE001
                problems.append((f"{label} raises {type(ex).__name__}: {str(ex)[:120]}", {**case, "what": "exception"}))
                break
            r = call(deb2, F + ch if kind == "add" else F * ch)
            if r[0] == "error":
                problems.append((f"{label} via {via}: the run on the changed cm_future raises {r[1]}: {r[2][:120]}", {**case, "what": "exception", "change": ch}))
                break
            out = r[1]
            if not (isinstance(out, np.ndarray) and out.shape == base.shape):
                problems.append((f"{label} via {via}: the run on the changed cm_future returns {type(out).__name__} of shape {getattr(out, 'shape', None)}",
                                 {**case, "what": "exception", "change": ch}))
                break
            if kind == "add":
                devs, tol = np.abs(out - base - ch), shift_tol(ch, scale)
            else:
                devs, tol = np.abs(out - ch * base), scale_tol(ch, float(np.abs(base).max()))
            dev = float(np.max(devs))
            res.count(("history", label, position, via, tuple(shape), layout, enc, failsafe, parallel, same, ch, trend), True)
            if len([x for x in samples if x.get("what") == "process-history"]) < 1:
                samples.insert(0, {**case, "change": ch, "max_dev": dev, "tol": tol})
            if not dev <= tol:
                i = np.unravel_index(int(np.argmax(np.where(np.isnan(devs), np.inf, devs))), devs.shape)
                said = (f"adding c={ch} to cm_future changes the output by {float(out[i] - base[i])!r}" if kind == "add"
                        else f"scaling cm_future by k={ch} scales the output by {float(out[i] / base[i])!r}")
                problems.append((f"{label} ({position}: {len(steps)} other public constructions; via {via}, {layout} layout, time {enc}"
                                 f"{', failsafe' if failsafe else ''}{', parallel' if parallel else ''}): {said} at index {[int(x) for x in i]} "
                                 f"(max deviation {dev:.3g} > tol {tol:.3g})",
                                 {**case, "what": "process-history", "change": ch, "second_call_on_the_same_object": same, "index": [int(x) for x in i]}))
                break


# ------------------------------------------------------------------ round 6: every seasonal window geometry on every calendar
# Quantifier covered: "with and without seasonal ... running windows" x "for all input series (... over many years)" x "EVERY debiased value".
# The step length of the seasonal window is ANY admissible integer (1 .. 45 here, even ones included: the constructor moves them to the next
# odd number), the window length anything from the step length up, and the calendar of each series any run of years: with leap years, without
# a single one (2097-2103, 2021-2023, 1897-1903: the largest day of year is then 365, not 366), beginning on a 1 January or in the middle of a
# year, ending with a complete or a broken year.  Which days of the year a window centre adjusts is integer arithmetic on (first day of year,
# last day of year, step length): a slip there leaves days unassigned for SOME residues of 366 or 365 modulo the step length only -- the fixed
# step lengths {1, 7, 15, 31} of the main oracle meet a few of the residues.  Judged: the first result is finite at every step (the guard is
# decided by window_samples_nonempty) and out(F + c) - out(F) = c  /  out(k F) = k out(F)  at every step, tolerances of the main oracle.
SWEEP_CONFIGS = ["LinearScaling/additive", "QuantileDeltaMapping/absolute", "ISIMIP/additive", "DeltaChange/additive", "ECDFM",
                 "LinearScaling/multiplicative", "CDFt", "ScaledDistributionMapping/absolute", "QuantileMapping/additive-parametric",
                 "DeltaChange/multiplicative", "QuantileMapping/additive-nonparametric", "QuantileMapping/multiplicative-parametric",
                 "QuantileDeltaMapping/absolute", "CDFt"]  # twice: the two classes with multi-year windows on top of the seasonal ones
NO_LEAP_RUNS = [(2097, 2103), (2021, 2023), (1897, 1903), (2101, 2103), (2022, 2023)]  # runs of calendar years without a 29 February


def sweep_calendar(rng, kind, ny):
    """daily dates of one series: `ny` years (2 .. 8) of the given kind, at least 365 consecutive days"""
    if kind.startswith("no-leap"):
        if kind != "no-leap":
            ny = max(ny, 3)  # a series that begins in the middle of a year still holds every day of the year
        a, b = rng.choice([r for r in NO_LEAP_RUNS if r[1] - r[0] + 1 >= min(ny, 3)])
        ny = min(ny, b - a + 1)
        first = rng.randint(a, b - ny + 1)
        if kind == "no-leap":
            return probes.dates_from(datetime.date(first, 1, 1), 365 * ny - rng.choice([0, 0, rng.randint(1, 200)]))
        off = rng.randint(1, 364)  # begins in the middle of a year, ends inside the run
        return probes.dates_from(datetime.date(first, 1, 1) + datetime.timedelta(days=off), 365 * ny - off - rng.choice([0, rng.randint(0, 100)]))
    leap = rng.choice([1960, 1984, 2000, 2024, 2048, 2072, 2096])
    first = leap - rng.randint(0, ny - 1)  # the leap year is one of the ny years
    if kind == "leap":
        return probes.dates_from(datetime.date(first, 1, 1), 365 * ny + rng.choice([1, 1, 0, rng.randint(2, 30)]))
    off = rng.randint(1, 364)
    return probes.dates_from(datetime.date(first, 1, 1) + datetime.timedelta(days=off), 365 * ny + rng.randint(0, 30))


def window_sweep_oracle(rng, n_cases, res, problems):
    """see the comment block above; every case records the configuration, the window geometry and the three calendars"""
    cfs = oracle_configs()
    steps = list(range(1, 46))
    rng.shuffle(steps)
    n_yw = 0
    stats = res.extra.setdefault("window_sweep", {"cases": 0, "step_lengths": [], "calendars_without_leap_year": 0})
    samples = res.extra.setdefault("oracle_samples", [])
    for k in range(n_cases):
        name = SWEEP_CONFIGS[(k + C.seed()) % len(SWEEP_CONFIGS)]
        kind, mk = cfs[name]
        nprs = np.random.RandomState(rng.randint(0, 2**31 - 1))
        S = steps[k % len(steps)]
        isi = name.startswith("ISIMIP")
        if isi and S < 7:
            S += 8  # a step of 1 day means 366 windows of ISIMIP's eight steps
        S_eff = S + (S % 2 == 0)  # what the constructor makes of an even step length
        L = max(3, S_eff + rng.choice([0, 0, 2, 10, 30, 60]))
        w = dict(running_window_mode=True, running_window_length=L, running_window_step_length=S)
        # the series whose calendar the windows are dealt out on (cm_future; obs for DeltaChange) takes the calendar kinds in turn
        main_kind = ["leap", "no-leap", "leap-midyear", "no-leap-midyear"][(k // 2) % 4] if k % 2 == 0 else rng.choice(["leap", "no-leap", "leap-midyear", "no-leap-midyear"])
        kinds = [rng.choice(["leap", "leap", "no-leap", "leap-midyear"]) for _ in range(3)]
        kinds[0 if name.startswith("DeltaChange") else 2] = main_kind
        has_year_windows = name in ("CDFt", "QuantileDeltaMapping/absolute")
        # (multi-year windows: up to 8 years of cm_future, so that the year-window step lengths 1 .. 5 meet every residue; runs without a leap
        # year are at most 7 years long)
        nys = [rng.randint(2, 4), rng.randint(2, 4), rng.randint(2, 3 if isi else 8 if has_year_windows else 5)]
        dates = tuple(sweep_calendar(rng, kd, ny) for kd, ny in zip(kinds, nys))
        o, h, f = probes.tas_like(nprs, dates[0], 283, 3), probes.tas_like(nprs, dates[1], 285, 4), probes.tas_like(nprs, dates[2], 288, 4)
        trend = rng.choice(["stationary", "trend"])
        if trend == "trend":
            f = f + rng.choice([-1, 1]) * rng.choice([0.5, 2.0, 6.0]) * np.arange(f.size) / 365.0
        if kind == "mult":
            o, h, f = (np.exp((x - 283.0) / 6.0) * 3.0 for x in (o, h, f))
        y, e = {}, {}
        if name in ("CDFt", "QuantileDeltaMapping/absolute"):
            yw = rng.random() < 0.75
            y = dict(running_window_mode_over_years_of_cm_future=yw)
            if yw:  # the same integer arithmetic on (first year, last year, step length in years); even values are moved to the next odd number
                Sy = [3, 5, 4, 2, 3, 5, 1][n_yw % 7]  # in turn; mostly more years than one step, so that there is a last window to get wrong
                n_yw += 1
                y.update(running_window_over_years_of_cm_future_length=Sy + (Sy % 2 == 0) + rng.choice([0, 2, 4]),
                         running_window_over_years_of_cm_future_step_length=Sy)
        if isi:
            var = sorted(ISIMIP_ADDITIVE_VARIABLES)[k % 3]
            e = dict(var=var, detrending=rng.random() < 0.7)
            off, fac = ISIMIP_ADDITIVE_VARIABLES[var]
            o, h, f = (off + fac * x for x in (o, h, f))
        case = {"config": "sweep/" + name, "oracle": "window-sweep", "what": "window-sweep", "window": w, "years": y, "extra": e, "trend": trend,
                "calendars": {s: {"kind": kd, "first_day": str(d[0]), "last_day": str(d[-1]), "n_days": int(d.size),
                                  "largest_day_of_year": max(x.timetuple().tm_yday for x in d)}
                              for s, kd, d in zip(("obs", "cm_hist", "cm_future"), kinds, dates)},
                "sizes": [int(o.size), int(h.size), int(f.size)], "case": k, "seed": C.seed()}
        stats["cases"] += 1
        stats["step_lengths"] = sorted(set(stats["step_lengths"]) | {S})
        stats["calendars_without_leap_year"] += int(main_kind.startswith("no-leap"))
        def mk_quiet():
            with warnings.catch_warnings():  # an even step length is moved to the next odd number with a warning
                warnings.simplefilter("ignore")
                return mk(w, y, e)

        try:
            deb = mk_quiet()
            base = run_loc(deb, o, h, f, dates)
        except Exception as ex:  # noqa: BLE001
            problems.append((f"{name} (window length {L}, step length {S}): {type(ex).__name__} on well-formed input: {str(ex)[:120]}", {**case, "what": "exception"}))
            continue
        out_dates = dates[0] if name.startswith("DeltaChange") else dates[2]
        if not (isinstance(base, np.ndarray) and base.shape == out_dates.shape):
            problems.append((f"{name} (window length {L}, step length {S}): apply_location returns {type(base).__name__} of shape "
                             f"{getattr(base, 'shape', None)} instead of {out_dates.shape}", {**case, "what": "exception"}))
            continue
        if not np.all(np.isfinite(base)):
            if window_samples_nonempty(dates, True, L):
                problems.append(nonfinite_problem(f"{name} (window length {L}, step length {S}, largest day of year of the adjusted series "
                                                  f"{max(x.timetuple().tm_yday for x in out_dates)})", base, out_dates, case))
            else:
                res.extra["skipped_nonfinite"] = res.extra.get("skipped_nonfinite", 0) + 1
            continue
        scale = float(max(np.abs(o).max(), np.abs(h).max(), np.abs(f).max()))
        sd_f = float(np.std(f))
        ch = (rng.choice(SHIFTS + [1e-2 * sd_f, -10.0 * sd_f]) if kind == "add" else rng.choice(FACTORS + [1.0 + 1e-3, 1.0 - 3e-5]))
        try:
            out = run_loc(deb if k % 2 else mk_quiet(), o, h, f + ch if kind == "add" else f * ch, dates)
        except Exception as ex:  # noqa: BLE001
            problems.append((f"{name} (window length {L}, step length {S}): the run on the changed cm_future raises {type(ex).__name__}: {str(ex)[:120]}",
                             {**case, "what": "exception", "change": ch}))
            continue
        if not (isinstance(out, np.ndarray) and out.shape == base.shape):
            problems.append((f"{name} (window length {L}, step length {S}): the run on the changed cm_future returns {type(out).__name__} of shape "
                             f"{getattr(out, 'shape', None)}", {**case, "what": "exception", "change": ch}))
            continue
        if kind == "add":
            devs, tol = np.abs(out - base - ch), shift_tol(ch, scale)
        else:
            devs, tol = np.abs(out - ch * base), scale_tol(ch, float(np.abs(base).max()))
        dev = float(np.max(devs))
        res.count(("window-sweep", name, S, L, main_kind, tuple(sorted(y.items())), trend), True)
        if len([x for x in samples if x.get("what") == "window-sweep"]) < 1:
            samples.insert(0, {**case, "change": ch, "max_dev": dev, "tol": tol})
        if not dev <= tol:
            i = int(np.argmax(np.where(np.isnan(devs), np.inf, devs)))
            said = (f"adding c={ch} to cm_future changes the output by {float(out[i] - base[i])!r}" if kind == "add"
                    else f"scaling cm_future by k={ch} scales the output by {float(out[i] / base[i])!r}")
            problems.append((f"{name} (window length {L}, step length {S}): {said} at step {i} = {out_dates[i]} (max deviation {dev:.3g} > tol {tol:.3g})",
                             {**case, "change": ch, "index": i}))


# ------------------------------------------------------------------ round 6: series with missing values, series in a masked array
# Quantifier covered: "for all input series" as the PUBLIC entry point `Debiaser.apply` accepts them (its input check has a branch for each form):
#  * numpy masked arrays without a single masked cell ("converted to a normal numpy array"), float or integer dtype, mask = nomask or a full
#    boolean array -- every configuration of the list below;
#  * series WITH missing values -- NaN in a plain float array, or masked cells of a float / integer masked array ("the masked values are filled
#    in by nan-values") -- for the configuration that documents support for them: ISIMIP with impute_missing_values=True (step 2) on the additive
#    variables.  What is stored UNDER the mask is not a value of the series (the usual markers -999 / 0 / the fill value / NaN / stale data).
# "Adding c to every value of cm_future" is adding c to every valid value: `cm_future + c` in numpy's masked arithmetic (the marker under the
# mask stays), or a masked array of `data + c` with the same mask (the marker moves too) -- both are the series shifted by c.  Step 2 draws from
# numpy's global generator: both runs start from the same generator state (the same draws, like the same oracle decisions in both runs of the
# theorem), the state is restored afterwards.  Judged: out(F + c) - out(F) = c at every step, valid or imputed (the imputed value is the inverse
# ecdf of the valid values at the same probabilities, and every iecdf method is shift-equivariant: Lemmas/StatsAffine), tolerance of the main oracle.
MISSING_CONFIGS = ["ISIMIP/impute", "LinearScaling/additive", "ISIMIP/impute", "ECDFM", "ISIMIP/impute", "QuantileMapping/additive-parametric",
                   "ISIMIP/impute", "DeltaChange/additive", "ISIMIP/impute", "ScaledDistributionMapping/absolute", "ISIMIP/impute",
                   "LinearScaling/multiplicative", "ISIMIP/additive", "DeltaChange/multiplicative"]
MARKERS_FLOAT = [-999.0, 0.0, "fill_value", "stale", "nan", 9.96921e36]
MARKERS_INT = [-999, 0, "fill_value", "stale", -32768]


def missing_values_oracle(rng, n_cases, res, problems):
    """see the comment block above; every case records form, dtype, marker, the masked cells and how the shifted series was formed"""
    from harness import gridprobes as G
    from ibicus.debias import ISIMIP

    cfs = oracle_configs()
    stats = res.extra.setdefault("missing_values", {"cases": 0, "with_missing_values": 0, "masked_arrays": 0, "integer_masked_arrays": 0})
    samples = res.extra.setdefault("oracle_samples", [])
    np_state = np.random.get_state()
    try:
        for k in range(n_cases):
            name = MISSING_CONFIGS[(k + C.seed()) % len(MISSING_CONFIGS)]
            impute = name == "ISIMIP/impute"
            kind = "add" if name.startswith("ISIMIP") else cfs[name][0]
            nprs = np.random.RandomState(rng.randint(0, 2**31 - 1))
            ncell = rng.choice([1, 1, 2])
            y0 = rng.randint(1955, 2060)
            dO = probes.dates_from(datetime.date(y0, 1, 1), 365 * rng.randint(2, 4) + rng.randint(0, 30))
            dH = probes.dates_from(datetime.date(y0, 1, 1), 365 * rng.randint(2, 4) + rng.randint(0, 30))
            dF = probes.dates_from(datetime.date(y0 + 40, 1, 1), 365 * rng.randint(2, 4) + rng.randint(0, 30))
            if rng.random() < 0.3:
                dO = dH = probes.dates_from(datetime.date(y0, 1, 1), dF.size)  # equal lengths: a mix-up of the series is then not a shape error
            rw = rng.random() < 0.35
            w = dict(running_window_mode=rw, running_window_length=rng.choice([31, 61]), running_window_step_length=rng.choice([15, 31]))
            var, off, fac = "tas", 0.0, 1.0
            if name.startswith("ISIMIP"):
                var = sorted(ISIMIP_ADDITIVE_VARIABLES)[(k // 2) % 3]
                off, fac = ISIMIP_ADDITIVE_VARIABLES[var]
            ikw = dict(impute_missing_values=True) if impute else {}
            if name.startswith("ISIMIP") and rng.random() < 0.2:
                ikw["detrending"] = False
            rate = rng.choice([0.0, rng.choice([-1, 1]) * rng.choice([0.5, 2.0, 6.0])])
            cols = []
            for _ in range(ncell):
                o, h, f = probes.tas_like(nprs, dO, 283, 3), probes.tas_like(nprs, dH, 285, 4), probes.tas_like(nprs, dF, 288, 4)
                f = f + rate * np.arange(dF.size) / 365.0
                if kind == "mult":
                    o, h, f = (np.exp((x - 283.0) / 6.0) * 40.0 + 1.0 for x in (o, h, f))
                else:
                    o, h, f = (off + fac * x for x in (o, h, f))
                cols.append((o, h, f))
            arrs = [np.stack([c_[i] for c_ in cols], axis=1).reshape(-1, 1, ncell) for i in range(3)]
            # the forms in turn (every quick run meets each of them with missing values), dtype / marker / mask / shifted form at random
            form = ["masked-int", "masked-float", "nan", "masked-int"][(k // 2) % 4] if impute else rng.choice(["masked-float", "masked-int", "masked-int"])
            int_dtype = rng.choice(["int64", "int32"])
            packing = 1.0
            if form == "masked-int":  # packed data: whole numbers of 1/100 of the unit (psl: whole Pa), like data read without unpacking
                packing = 1.0 if var == "psl" else 100.0
                arrs = [np.round(a * packing) for a in arrs]
            # ---- the missing cells: cm_future always (when the configuration supports them), obs / cm_hist in some cases
            masks = [np.zeros(a.shape, dtype=bool) for a in arrs]
            if impute:
                for i in (0, 1, 2):
                    if i == 2 or rng.random() < 0.4:
                        for cell in range(ncell):
                            nt = arrs[i].shape[0]
                            if rng.random() < 0.8:
                                masks[i][nprs.choice(nt, size=rng.randint(3, 40), replace=False), 0, cell] = True
                            if rng.random() < 0.4:
                                a0 = rng.randint(0, nt - 21)
                                masks[i][a0:a0 + rng.randint(5, 20), 0, cell] = True
            marker = rng.choice(MARKERS_INT if form == "masked-int" else MARKERS_FLOAT)
            mask_kind = rng.choice(["array", "array", "nomask"])  # only where nothing is masked: np.ma.nomask instead of a boolean array

            def build(a, m, dtype_name):
                """the series as the caller holds it: plain array with NaN, or masked array with the marker under the mask"""
                if form == "nan":
                    x = a.copy()
                    x[m] = np.nan
                    return x
                x = a.astype(dtype_name)
                if m.any():
                    if marker == "nan":
                        x[m] = np.nan
                    elif marker not in ("fill_value", "stale"):
                        x[m] = marker
                ma = np.ma.masked_array(x, mask=(m.copy() if (m.any() or mask_kind == "array") else np.ma.nomask))
                if marker == "fill_value" and m.any():
                    ma = np.ma.masked_array(ma.filled(), mask=m.copy())  # numpy's default fill value (1e20 / 999999) stored under the mask
                return ma

            dt = int_dtype if form == "masked-int" else "float64"
            obs, hist, fut = (build(a, m, dt) for a, m in zip(arrs, masks))
            times = dict(time_obs=dO, time_cm_hist=dH, time_cm_future=dF) if rng.random() < 0.6 else {}
            valid_f = ~masks[2]
            scale = float(max(np.abs(a[~m]).max() for a, m in zip(arrs, masks)))
            shifted_as = rng.choice(["cm_future + c (numpy masked arithmetic)", "masked_array(data + c, mask)"]) if form != "nan" else "cm_future + c"
            if kind == "add":
                cs = [3.0, -3.0, 0.5, -0.5, 2.25, 1e3, -1e3]
                ch = rng.choice(cs) * (packing if rng.random() < 0.5 else 1.0)  # whole or fractional in the packed unit: exact in floating point
            else:
                ch = rng.choice([0.5, 2.0, 10.0, 0.25, 250.0])
            op = (lambda a_: a_ + ch) if kind == "add" else (lambda a_: a_ * ch)
            if shifted_as.startswith("masked_array"):
                fut2 = np.ma.masked_array(op(np.asarray(fut.data)), mask=(np.ma.getmaskarray(fut).copy() if masks[2].any() or mask_kind == "array" else np.ma.nomask))
            else:
                fut2 = op(fut)
            n_missing = [int(m.sum()) for m in masks]
            case = {"config": "missing/" + name, "oracle": "missing-values", "what": "missing-values", "via": "apply", "grid": [1, ncell],
                    "variable": var, "options": {**ikw, **w}, "form": form, "dtype": dt, "marker_under_the_mask": marker if form != "nan" else None,
                    "mask": None if form == "nan" else ("boolean array" if (mask_kind == "array" or any(n_missing)) else "nomask"),
                    "n_missing": {"obs": n_missing[0], "cm_hist": n_missing[1], "cm_future": n_missing[2]},
                    "missing_steps_cm_future": [int(i) for i in np.argwhere(masks[2][:, 0, 0]).ravel()[:60]],
                    "shifted_series_formed_as": shifted_as, "change": ch, "explicit_time": bool(times), "rate_per_year": rate * fac,
                    "sizes": [int(dO.size), int(dH.size), int(dF.size)], "startF": str(dF[0]), "np_random_seed_before_each_call": 1000 + k,
                    "case": k, "seed": C.seed()}
            stats["cases"] += 1
            stats["with_missing_values"] += int(any(n_missing))
            stats["masked_arrays"] += int(form != "nan")
            stats["integer_masked_arrays"] += int(form == "masked-int")

            def make():
                with warnings.catch_warnings():
                    warnings.simplefilter("ignore")
                    if name.startswith("ISIMIP"):
                        return ISIMIP.from_variable(var, **ikw, **w)
                    return cfs[name][1](w, {}, {})

            def call(f_in):
                np.random.seed(1000 + k)
                try:
                    with np.errstate(all="ignore"):
                        return G.run_apply(make(), obs, hist, f_in, **times)
                except Exception as ex:  # noqa: BLE001  (the construction)
                    return ("error", type(ex).__name__, G.safe_str(ex))

            r0 = call(fut)
            if r0[0] == "error":
                problems.append((f"{name} via apply, {form} ({dt}) input with {n_missing[2]} missing values in cm_future: {r0[1]}: {r0[2][:120]}",
                                 {**case, "what": "exception"}))
                continue
            base = r0[1]
            if not (isinstance(base, np.ndarray) and base.shape == ((obs if name.startswith("DeltaChange") else fut).shape)):
                problems.append((f"{name} via apply, {form} ({dt}) input: returns {type(base).__name__} of shape {getattr(base, 'shape', None)}",
                                 {**case, "what": "exception"}))
                continue
            base = np.ma.getdata(base)
            if not (np.issubdtype(base.dtype, np.floating) and np.all(np.isfinite(base))):
                used = actual_dates((dO, dH, dF) if times else None, (dO.size, dH.size, dF.size))
                if np.issubdtype(base.dtype, np.floating) and not window_samples_nonempty(used, rw, w["running_window_length"]):
                    res.extra["skipped_nonfinite"] = res.extra.get("skipped_nonfinite", 0) + 1
                    continue
                if not np.issubdtype(base.dtype, np.floating):
                    problems.append((f"{name}: apply returns dtype {base.dtype} for a {form} ({dt}) cm_future (debiased values are truncated to integers)",
                                     {**case, "what": "apply-result-dtype"}))
                    continue
                # the missing values are imputed (every window holds dozens of valid values), the complete series are complete
                problems.append(nonfinite_problem(f"{name} via apply, {form} ({dt}) input with {n_missing} missing values in obs / cm_hist / cm_future",
                                                  base, used[0] if name.startswith("DeltaChange") else used[2], case))
                continue
            r1 = call(fut2)
            if r1[0] == "error":
                problems.append((f"{name} via apply, {form} ({dt}) input: the run on the changed cm_future raises {r1[1]}: {r1[2][:120]}",
                                 {**case, "what": "exception"}))
                continue
            out = np.ma.getdata(r1[1])
            if not (isinstance(out, np.ndarray) and out.shape == base.shape):
                problems.append((f"{name} via apply, {form} ({dt}) input: the run on the changed cm_future returns {type(out).__name__} of shape "
                                 f"{getattr(out, 'shape', None)}", {**case, "what": "exception"}))
                continue
            out = out.astype(float)
            if kind == "add":
                devs, tol = np.abs(out - base - ch), shift_tol(ch, scale)
            else:
                devs, tol = np.abs(out - ch * base), scale_tol(ch, float(np.abs(base).max()))
            dev = float(np.max(devs))
            res.count(("missing", name, var, form, dt, str(marker), rw, shifted_as[:12], bool(times), tuple(n > 0 for n in n_missing), ch), True)
            if any(n_missing) and len([x for x in samples if x.get("what") == "missing-values"]) < 1:
                samples.insert(0, {**case, "max_dev": dev, "tol": tol})
            if not dev <= tol:
                i = np.unravel_index(int(np.argmax(np.where(np.isnan(devs), np.inf, devs))), devs.shape)
                same_shape = devs.shape == valid_f.shape
                dv = float(np.max(devs[valid_f])) if same_shape and valid_f.any() else dev
                di = float(np.max(devs[~valid_f])) if same_shape and (~valid_f).any() else 0.0
                said = (f"adding c={ch} to every valid value of cm_future changes the output by {float(out[i] - base[i])!r}" if kind == "add"
                        else f"scaling cm_future by k={ch} scales the output by {float(out[i] / base[i])!r}")
                problems.append((f"{name}({var}{', ' + ', '.join(f'{a}={b}' for a, b in ikw.items()) if ikw else ''}) via apply, cm_future a {form} array "
                                 f"({dt}, {n_missing[2]} missing values{'' if form == 'nan' else ', ' + repr(marker) + ' under the mask'}), shifted series = "
                                 f"{shifted_as}: {said} at index {[int(x) for x in i]} (max deviation {dev:.3g} > tol {tol:.3g}; at the valid steps "
                                 f"{dv:.3g}, at the missing steps {di:.3g})", {**case, "index": [int(x) for x in i]}))
    finally:
        np.random.set_state(np_state)


# ------------------------------------------------------------------ round 4: ties of the new model definitions
def inferred_dates_corr(rng, tier, res):
    """tier B of Model/InferredDates.lean (driver DrvInferredDates): the (year, day of year, month) arrays the model infers for a
    series of length n against `year / day_of_year / month` of the real `create_array_of_consecutive_dates(n)`; single far-away
    steps for the century rules (2000 leap, 2100 not)."""
    from ibicus.utils import create_array_of_consecutive_dates, day_of_year, month, year

    ns = [0, 1, 2, 59, 60, 61, 365, 366, 730, 731, 1096, 1461, 1462] + [rng.randint(365, 2300) for _ in range(4 if tier == "quick" else 20)]
    ks = [18320, 18321, 18322, 18627, 54786, 54787, 54845, 54846, 55151, 55152] + [rng.randint(0, 90000) for _ in range(6 if tier == "quick" else 60)]
    lines = [f"infer {n}" for n in ns] + [f"at {k}" for k in ks]
    try:
        out = C.run_driver("DrvInferredDates", lines)
    except Exception as ex:  # noqa: BLE001
        return [{"op": "driver", "detail": f"{type(ex).__name__}: {str(ex)[:300]}"}]
    mism = []
    with warnings.catch_warnings():
        warnings.simplefilter("ignore")
        for n, got in zip(ns, out[:len(ns)]):
            d = create_array_of_consecutive_dates(n)
            exp = f"{C.ilist(year(d)) if n else '-'} {C.ilist(day_of_year(d)) if n else '-'} {C.ilist(month(d)) if n else '-'}"
            res.cov["traces_validated_against_impl"] += 1
            res.count(("inferred-dates", n), True)
            if exp != got:
                mism.append({"op": "infer", "n": n, "impl": exp[:200], "model": got[:200]})
        far = create_array_of_consecutive_dates(max(ks) + 1)
        yy, dd, mo = year(far), day_of_year(far), month(far)
        for k, got in zip(ks, out[len(ns):]):
            exp = f"{int(yy[k])} {int(dd[k])} {int(mo[k])}"
            res.cov["traces_validated_against_impl"] += 1
            res.count(("inferred-date-at", k // 3650), True)
            if exp != got:
                mism.append({"op": "at", "k": k, "impl": exp, "model": got})
    return mism


def isimip_order_corr(rng, n_cases, tier, res):
    """tier B for the storage-order theorems: the real `_apply_on_window` / `step3` … `step7` against DrvIsimip on windows whose dated
    values are stored in NON-chronological order (each series permuted together with its years), with a within-period trend so that
    the regression is significant in a good part of the cases.  Uses the case builder and comparison of harness/isimip_corr.py."""
    import collections

    names = ["tas_detr", "tas_nosigtest", "tas_npqm", "tas_ks"]
    debs = {n: IC.make_debiaser(n) for n in names}
    exps = []
    for k in range(n_cases):
        name = names[k % len(names)]
        series, ys = IC.gen_case(rng, IC.CONFIGS[name], tier)
        series = [np.array(x, dtype=float) for x in series]
        ys = [np.array(y) for y in ys]
        for i in range(3):
            if rng.random() < 0.8:  # a within-period trend (dyadic: whole quarters per year)
                series[i] = series[i] + rng.choice([-64, -16, 8, 32]) / 4.0 * (ys[i] - ys[i].min())
            perm = list(range(series[i].size))
            kind = rng.choice(["shuffled", "descending", "blocks-swapped"])
            if kind == "shuffled":
                rng.shuffle(perm)
            elif kind == "descending":
                perm = perm[::-1]
            else:
                cut = rng.randint(0, len(perm))
                perm = perm[cut:] + perm[:cut]
            series[i], ys[i] = series[i][perm], ys[i][perm]
        case = {"config": name, "k": k, "sizes": [int(x.size) for x in series], "storage_order": "non-chronological"}
        exps += IC.build_case(debs[name], name, series, ys, rng.randint(0, 2**31 - 2), case)
    try:
        out = C.run_driver("DrvIsimip", [e.line for e in exps])
    except Exception as ex:  # noqa: BLE001
        return [{"op": "driver", "detail": f"{type(ex).__name__}: {str(ex)[:300]}"}]
    hist, mism, nsig = collections.Counter(), [], 0
    for e, got in zip(exps, out):
        res.cov["traces_validated_against_impl"] += 1
        status, detail = IC.compare(e, got, hist)
        if e.op == "step3":
            tr = np.asarray(e.outs[3], dtype=float)
            nsig += int(np.any(tr != 0))
            res.count(("isimip-order-corr", e.case["config"], tuple(e.case["sizes"]), bool(np.any(tr != 0))), True)
        if status == "tie":
            res.extra["ties_accepted"] = res.extra.get("ties_accepted", 0) + 1
        elif status == "mismatch":
            mism.append({"op": e.op, "case": e.case, "detail": detail[:400]})
    res.extra["isimip_order_corr"] = {"windows": n_cases, "ops": len(exps), "windows_with_a_removed_trend": nsig}
    return mism


def ecdfm_beta_note(rng):
    """informational (never a verdict): ECDFM's *default* family for tas is scipy.stats.beta, fitted by numerical maximum
    likelihood; the fit of a shifted sample is the shifted fit only up to the optimiser's tolerance, so the shift passes through
    to ~1e-5 instead of rounding error.  LocScaleLaws are an assumption for scipy's families (trusted base)."""
    from ibicus.debias import ECDFM

    nprs = np.random.RandomState(rng.randint(0, 2**31 - 1))
    dO = probes.dates_from(datetime.date(1980, 1, 1), 365 * 3)
    dF = probes.dates_from(datetime.date(2040, 1, 1), 365 * 3)
    o, h, f = probes.tas_like(nprs, dO, 283, 3), probes.tas_like(nprs, dO, 285, 4), probes.tas_like(nprs, dF, 287, 4)
    out = {}
    try:
        with warnings.catch_warnings(), np.errstate(all="ignore"):
            warnings.simplefilter("ignore")
            a = ECDFM.from_variable("tas").apply_location(o, h, f, dO, dO, dF)
            for c in (0.5, 3.0, 1e3):
                b = ECDFM.from_variable("tas").apply_location(o, h, f + c, dO, dO, dF)
                out[str(c)] = float(np.nanmax(np.abs(b - a - c)))
    except Exception as ex:  # noqa: BLE001
        out["error"] = f"{type(ex).__name__}: {str(ex)[:100]}"
    return {"max_abs_deviation_by_shift": out, "note": "numerical MLE (4-parameter beta): approximate, not part of the verdict"}


# ------------------------------------------------------------------ round 7: the precision of EACH argument (storage dtype per role)
# Quantifier covered: `inputs` ("for all input series ...") read per ROLE: observations, historical and future model data reach the library
# from different files and therefore in different floating precisions (reanalysis netCDF = float32, model output / derived data = float64 and
# every other combination).  The statement compares two runs that differ in cm_future ONLY; whenever cm_future (hence cm_future + c, k *
# cm_future) is double precision, "changes every debiased value by exactly c" is judged with the DOUBLE precision tolerance of the main oracle
# (shift_tol / scale_tol) whatever the precision of obs / cm_hist is -- `apply_oracle` relaxes to single precision as soon as ANY of the three
# arrays is float32, which is necessary only if cm_future itself (and with it the result) is stored in single precision.  All eight additive
# and all multiplicative configurations (incl. the rank / ecdf based ones: the float32 data are continuous draws rounded to float32, ties are
# as rare as in float64), through `apply_location` and the public `apply` ([time, 1, 1] / [time, 1, 2] grids), explicit and inferred dates,
# with and without seasonal / year windows.  The mean-change clause is NOT judged here (a float32 obs has its mean accumulated in single
# precision by numpy: apply_oracle judges it with the single precision tolerance).
PRECISION_MIXES = [("float32", "float64"), ("float32", "float32"), ("float64", "float32"), ("float64", "float64")]  # (obs, cm_hist); cm_future float64


def precision_mix_oracle(rng, n_cases, res, problems):
    cfs = oracle_configs()
    names = list(cfs)
    samples = res.extra.setdefault("oracle_samples", [])
    worst = res.extra.setdefault("precision_mix_max_deviation", {})
    for k in range(n_cases):
        name = names[(5 * k) % len(names)]  # 5 is coprime to the number of configurations: every one of them in every 13 cases
        kind, mk = cfs[name]
        nprs = np.random.RandomState(rng.randint(0, 2**31 - 1))
        mix = PRECISION_MIXES[0] if k < 6 else PRECISION_MIXES[(k + k // len(names)) % 3 if k % 5 else 3]
        isi = name.startswith("ISIMIP")
        via = "apply" if (k // 2) % 3 != 2 else "apply_location"
        ncell = rng.choice([1, 2]) if via == "apply" and not isi else 1
        n = 365 * rng.randint(2, 3) + rng.randint(0, 20)
        y0 = rng.randint(1955, 2060)
        dO, dH, dF = (probes.dates_from(datetime.date(y, 1, 1), n) for y in (y0, y0, y0 + 40))
        trend = rng.random() < 0.5
        cols = []
        var = sorted(ISIMIP_ADDITIVE_VARIABLES)[(k // len(names)) % 3]
        for _ in range(ncell):
            o, h, f = probes.tas_like(nprs, dO, 283, 3), probes.tas_like(nprs, dH, 285.3, 4), probes.tas_like(nprs, dF, 288.4, 4)
            if trend:
                f = f + rng.choice([-1, 1]) * rng.choice([0.5, 2.0]) * np.arange(n) / 365.0
            if kind == "mult":
                o, h, f = (np.exp((x - 283.0) / 6.0) * 3.0 for x in (o, h, f))
            if isi:
                off, fac = ISIMIP_ADDITIVE_VARIABLES[var]
                o, h, f = (off + fac * x for x in (o, h, f))
            cols.append((o, h, f))
        rw = rng.random() < (0.7 if isi else 0.4)
        w = dict(running_window_mode=rw, running_window_length=rng.choice([31, 61]), running_window_step_length=rng.choice([15, 31]))
        y, e = {}, {}
        if name in ("CDFt", "QuantileDeltaMapping/absolute"):
            yw = rng.random() < 0.5
            y = dict(running_window_mode_over_years_of_cm_future=yw)
            if yw:
                y.update(running_window_over_years_of_cm_future_length=3, running_window_over_years_of_cm_future_step_length=1)
            em, im = rng.choice([p for p in CDFT_PAIRS if p[1] not in DISCRETE_IECDF and p[0] != "kernel_density"])
            e = dict(em=em, im=im)
        if isi:
            e = dict(var=var, npqm=rng.random() < 0.3, detrending=rng.random() < 0.85, ela=False)
        if via == "apply":
            arrs = [np.stack([c_[i] for c_ in cols], axis=1).reshape(n, 1, ncell) for i in range(3)]
        else:
            arrs = list(cols[0])
        obs, hist, fut = arrs[0].astype(mix[0]), arrs[1].astype(mix[1]), arrs[2].astype("float64")
        explicit = rng.random() < 0.6
        case = {"config": name, "oracle": "precision-mix", "via": via, "grid": [1, ncell] if via == "apply" else None,
                "dtypes": {"obs": mix[0], "cm_hist": mix[1], "cm_future": "float64"}, "window": w, "years": y, "extra": e,
                "explicit_time": explicit, "n_time": n, "trend": trend, "case": k, "seed": C.seed(), "what": "precision-mix"}

        def call(f2):
            with warnings.catch_warnings(), np.errstate(all="ignore"):
                warnings.simplefilter("ignore")
                deb = mk(w, y, e)
                if via == "apply":
                    times = dict(time_obs=dO, time_cm_hist=dH, time_cm_future=dF) if explicit else {}
                    return np.asarray(deb.apply(obs, hist, f2, progressbar=False, **times))
                if explicit:
                    return np.asarray(deb.apply_location(obs, hist, f2, dO, dH, dF))
                return np.asarray(deb.apply_location(obs, hist, f2))

        label = f"{name} via {via}, dtypes obs/cm_hist/cm_future = {mix[0]}/{mix[1]}/float64"
        try:
            base = call(fut)
        except Exception as ex:  # noqa: BLE001
            problems.append((f"{label}: {type(ex).__name__} on well-formed input: {str(ex)[:120]}", {**case, "what": "precision-mix-exception"}))
            continue
        if base.shape != fut.shape:
            problems.append((f"{label}: the result has shape {base.shape} instead of {fut.shape}", {**case, "what": "precision-mix-exception"}))
            continue
        if not (np.issubdtype(base.dtype, np.floating) and np.all(np.isfinite(base))):
            used = actual_dates((dO, dH, dF) if explicit else None, (n, n, n))
            if window_samples_nonempty(used, rw, w["running_window_length"]):
                problems.append(nonfinite_problem(label, base, used[0] if name.startswith("DeltaChange") else used[2], case))
            else:
                res.extra["skipped_nonfinite"] = res.extra.get("skipped_nonfinite", 0) + 1
            continue
        scale = float(max(np.abs(a.astype(float)).max() for a in (obs, hist, fut)))
        b64 = base.astype(float)
        # the debiased VALUES of two methods are observation values carrying the signal, held in the precision of obs: DeltaChange (obs + change,
        # `np.empty_like(obs)`) and ISIMIP (quantiles of the pseudo-future observations, which step 5 returns in the dtype of obs).  With
        # float32 obs the signal c reaches the result rounded to single precision there -- a precision of the data, as for a float32 cm_future
        # elsewhere; every other combination is held to double precision.
        obs_carried = mix[0] == "float32" and (isi or name.startswith("DeltaChange"))
        changes = ([("c", c) for c in (rng.choice([0.1, 0.5, -0.5, 2.5]), rng.choice([3.0, -3.0, 1e3, -1e3]))] if kind == "add" else
                   [("k", kf) for kf in (rng.choice([0.5, 2.0, 1.0 / 400.0]), rng.choice([10.0, 250.0]))])
        for tag, v in changes:
            try:
                out = call(fut + v if tag == "c" else fut * v)
            except Exception as ex:  # noqa: BLE001
                problems.append((f"{label}, cm_future {'+' if tag == 'c' else '*'} {v}: {type(ex).__name__}: {str(ex)[:120]}",
                                 {**case, "what": "precision-mix-exception", tag: v}))
                break
            if out.shape != base.shape or not np.issubdtype(out.dtype, np.floating):
                problems.append((f"{label}, cm_future {'+' if tag == 'c' else '*'} {v}: result of shape {out.shape}, dtype {out.dtype} "
                                 f"(first run: {base.shape}, {base.dtype})", {**case, "what": "precision-mix-exception", tag: v}))
                break
            if tag == "c":
                devs, tol = np.abs(out.astype(float) - b64 - v), shift_tol(v, scale)
            else:
                devs, tol = np.abs(out.astype(float) - v * b64), scale_tol(v, float(np.abs(b64).max()))
            if obs_carried:  # single precision values + signal (see above): the tolerance apply_oracle uses for float32 data
                tol = 2e-5 * (1 + abs(v) + scale) if tag == "c" else 2e-5 * (1 + v) * (1 + float(np.abs(b64).max()))
            dev = float(np.max(devs))
            worst[name + ("(float32 obs)" if obs_carried else "")] = max(worst.get(name + ("(float32 obs)" if obs_carried else ""), 0.0), dev)
            res.count(("precision-mix", name, mix, via, ncell, rw, tuple(sorted(y.items())), explicit, tag, v), True)
            if len([x for x in samples if x.get("oracle") == "precision-mix"]) < 1 and mix[0] == "float32":
                samples.insert(0, {**case, tag: v, "max_dev": dev, "tol": tol})
            if not dev <= tol:
                i = tuple(int(j) for j in np.unravel_index(int(np.argmax(devs)), devs.shape))
                what = (f"adding c={v} to cm_future changes the output by {float(out[i]) - float(b64[i])!r}" if tag == "c" else
                        f"scaling cm_future by k={v} scales the output by {float(out[i]) / float(b64[i])!r}")
                problems.append((f"{label}: {what} at index {list(i)} (max deviation {dev:.3g} > tol {tol:.3g}; result dtypes {base.dtype}, "
                                 f"{out.dtype}; cm_future is double precision in both runs)",
                                 {**case, "what": "precision-mix-shift" if tag == "c" else "precision-mix-scale", tag: v, "index": list(i)}))
                break


# round 6: oracle tag (the `oracle` field of a recorded case) -> (function, offset of its own PRNG stream, budget from the main oracle's budget)
ROUND6_ORACLES = {"window-sweep": (window_sweep_oracle, 6, lambda n_or: n_or // 2),
                  "missing-values": (missing_values_oracle, 7, lambda n_or: n_or // 3),
                  "precision-mix": (precision_mix_oracle, 8, lambda n_or: n_or // 2)}  # round 7


def run(tier, res, force_search=False):
    rng = random.Random(C.seed() * 104729 + 2)
    res.rule = ("cases = (configuration, window mode, year-window mode, ecdf/iecdf pair, shift c / factor k, stationary|trending, explicit|inferred "
                "dates); non-trivial when the two runs were compared; distinct = distinct such tuples; correspondence cases counted by "
                "debiasers_corr / isimip_corr (configuration, stream, length classes)")
    res.trusted = C.BASE_TRUSTED + [
        "harness/families.py RatSigmoid = Model.Family.ratSigmoid (executable family of the correspondence); scipy.stats.norm is assumed to "
        "satisfy LocScaleLaws (closed-form fit: mean, std) and is exercised only by the oracle",
        "oracle laws: linregress(...).pvalue < 0.05 and the Kolmogorov-Smirnov decision are invariant under a common shift (same Oracles value in both "
        "runs of the theorem); the regression slope is modelled exactly and its invariance is proved (Lemmas.C02.linSlope_shift)",
        "histogram ecdf (kernel_density): np.histogram bins are an oracle; theorem under the law 'bins shift with the data' (BinsShift)",
        "Lemmas/Lift.lean: the window loops are modelled by Model.Skeleton (validated by C07/C08 probes)",
        "Model/InferredDates.lean tied by DrvInferredDates against create_array_of_consecutive_dates + year/day_of_year/month (every run); "
        "Model.Grid (Debiaser.apply) tied by C05's DrvGrid; non-chronological storage order of dated windows tied by DrvIsimip on permuted windows (every run)",
    ]
    res.assumptions = [
        "exact rational arithmetic; the 'exactly c' of the property is checked on floats within 1e-8*(1+|c|+scale)",
        "additive theorems: cm_future window samples non-empty (proved from the dates for the seasonal loop), cm_hist window samples non-empty for CDFt, "
        "obs / cm_hist / cm_future window samples non-empty and year lists parallel for ISIMIP",
        "ISIMIP: every variable whose documented trend preservation is additive (tas, psl, rlds), built from the library defaults (tier A: "
        "Lemmas.C02.additive_variables_cfg / _complete on the regenerated settings table), with nonparametric_qm / detrending / event_likelihood_adjustment "
        "switched on top; no bounds / thresholds, no scaling by the annual cycle; SSR (CDFt for pr) and censoring (QDM for pr) are outside the property",
        "CDFt: delta_shift additive or no_shift (multiplicative delta shift rescales the signal: Props.C02.cdft_multiplicative_shiftG)",
        "deterministic configurations only",
        "oracle tolerance: min(1e-8*(1+|c|+scale), max(1e-3*|c|, 1e-10*(1+scale))) -- never more than 0.1 % of a small signal; shifts from 1e-6 of the "
        "variable's magnitude to 10 standard deviations, factors 1/400 .. 250 and 1 +- 1e-6 .. 1e-3, including cm_future = cm_hist (+ c) exactly",
        "float-rounding discontinuities accepted and counted (exact arithmetic: the theorems): non-parametric QuantileMapping is not run with cm_future = "
        "cm_hist + c (the detrended values are the jump points of the step ecdf of cm_hist); CDFt with a discrete iecdf method: < 1 % isolated elements",
        "half of the oracle's cases run both calls on one debiaser object with the first result still held (must be a different, unchanged array)",
        "process-history oracle (runtime-only clause: a configuration is what the public constructor returns, independent of what the process "
        "constructed or applied before -- module-level state is Python, the model's configurations are values): debiasers built from the library "
        "defaults (every class, the additive variables tas / tasmin / tasmax / psl / rlds, the multiplicative pr / rsds / sfcwind) judged by the shift / "
        "scale identity after, between and before other public constructions (the same class for every supported variable, deviating options, other "
        "classes, for_precipitation, plain constructors, rejected constructions, short uses), via apply_location and apply (serial / parallel, "
        "failsafe on / off), every accepted time encoding, contiguous and non-contiguous layouts; what the other calls raise is counted, never judged",
        "round 6 -- 'every debiased value': a non-finite debiased value is judged (not skipped) whenever every obs / cm_hist / cm_future window sample "
        "is non-empty, which is decided from Python's own calendar (every series holds every day of year 1..365 and the window is >= 3 days long or day "
        "366 is present everywhere); seasonal step lengths 1 .. 45 (even ones are moved to the next odd number by the constructor), window lengths from "
        "the step length up (>= 3), calendars with and without leap years, beginning / ending inside a year (window_sweep_oracle)",
        "round 6 -- input forms of the public `apply`: numpy masked arrays (float64 / int64 / int32; nomask or boolean mask; -999 / 0 / fill value / NaN / "
        "stale data under the mask) without masked cells for the configurations with a transfer function continuous in the data, and series with "
        "missing values (NaN or masked cells in cm_future, sometimes in obs / cm_hist; 3 .. 60 per location, scattered or a run of days) for the one "
        "configuration that documents support for them, ISIMIP (tas / psl / rlds) with impute_missing_values=True; 'adding c to every value' = to every "
        "valid value (`cm_future + c` in masked arithmetic, or a masked array of data + c); step 2 draws from numpy's global generator: both runs start "
        "from the same generator state (runtime-only: the theorem passes the same draws to both runs), the state is restored afterwards; integer data "
        "are whole hundredths of the unit and the shifts are whole or k/4, so that cm_future + c is exact",
        "round 7 -- the storage precision of EACH argument (precision_mix_oracle): obs / cm_hist in float32 or float64 independently, cm_future (and "
        "cm_future + c, k * cm_future) in float64: the shift / scale identity is held to the DOUBLE precision tolerance of the main oracle for all 13 "
        "configurations via apply_location and apply; exception: with float32 obs DeltaChange and ISIMIP carry the signal on values held in the "
        "precision of obs (np.empty_like(obs); step 5 returns the pseudo-future observations in obs's dtype) and are judged to 2e-5*(1+|c|+scale)",
        "RUNTIME-ONLY clauses (decided by the oracle on the real code, no theorem): (1) two calls on one debiaser object return distinct arrays and the "
        "first result is not modified -- object identity / buffer reuse is numpy + Python object state; the model's window functions are pure "
        "functions of their arguments, which is the specification the oracle ties the code to (state and purity as such: C12); (2) `apply` returns a "
        "floating array for integer / float32 input -- dtype conversion and allocation; the model computes in Q, where integers are rationals and "
        "nothing is truncated (the grid bookkeeping itself: Props.C02.grid_shift / grid_scale on Model.Grid, tied by C05); (3) the accepted float-rounding "
        "discontinuities above; (4) explicit calendar dates -> (year, day of year, month) is Python's datetime (the inferred ones are modelled: Model.InferredDates)",
    ]
    lean_ok = C.lean_phase(res, PROP, GEN, TARGETS)
    if tier != "quick" and lean_ok:  # thorough: re-check the compiled declarations with the external kernel
        import fcntl

        mods = ["IbicusModel.Props.C02", "IbicusModel.Lemmas.C02Mean", "IbicusModel.Lemmas.C02Shift", "IbicusModel.Lemmas.C02Isimip",
                "IbicusModel.Lemmas.C02Lift", "IbicusModel.Lemmas.C02Grid", "IbicusModel.Lemmas.C02Order", "IbicusModel.Lemmas.C02Dates",
                "IbicusModel.Lemmas.C02Pos", "IbicusModel.Model.InferredDates", "IbicusModel.Lemmas.StatsAffine"]
        with open(C.LOCK, "w") as lk:
            fcntl.flock(lk, fcntl.LOCK_SH)
            rc, log = C._run(["lake", "env", "leanchecker"] + mods)
        res.extra["leanchecker"] = "ok" if rc == 0 else f"rc={rc}: {log[-300:]}"
        if rc != 0:
            res.tie_broken.append("leanchecker rejects the property modules: " + log[-300:])
            lean_ok = False

    # ---- tier B: the shared correspondence modules, modest budget
    quick = tier == "quick"
    mm = DC.correspondence(rng, 14 if quick else 260, tier, res, families=DEB_FAMILIES)
    if mm:
        res.tie_broken.append(f"correspondence DrvDebiasers: {len(mm)} mismatches, first: {str(mm[0])[:600]}")
    mi = IC.correspondence(rng, 28 if quick else 350, tier, res, configs=ISI_CONFIGS)
    if mi:
        res.tie_broken.append(f"correspondence DrvIsimip: {len(mi)} mismatches, first: {str({k: v for k, v in mi[0].items() if k != 'line'})[:600]}")
    md = inferred_dates_corr(rng, tier, res)
    if md:
        res.tie_broken.append(f"correspondence DrvInferredDates: {len(md)} mismatches, first: {str(md[0])[:400]}")
    mo = isimip_order_corr(rng, 16 if quick else 160, tier, res)
    if mo:
        res.tie_broken.append(f"correspondence DrvIsimip (non-chronological storage order): {len(mo)} mismatches, first: {str(mo[0])[:600]}")
    res.extra["mismatches"] = {"debiasers": mm[:5], "isimip": [{k: v for k, v in m.items() if k != "line"} for m in mi[:5]],
                               "inferred_dates": md[:5], "isimip_order": mo[:5]}

    # ---- the property's oracle on the real code
    n_or = 52 if quick else 650
    if force_search or not lean_ok or mm or mi or md or mo:
        n_or *= 3
    problems = []
    oracle(rng, n_or, res, problems)
    isimip_trend_oracle(rng, n_or // 3, res, problems)
    apply_oracle(rng, (2 * n_or) // 3, res, problems)
    # own stream: the cases above are the same with and without this oracle
    process_history_oracle(random.Random(C.seed() * 104729 + 5), (2 * n_or) // 3, res, problems)
    # round 6, own streams again: every window step length on every calendar; series with missing values / in masked arrays
    import time

    for tag, (fn, stream, n) in ROUND6_ORACLES.items():
        t0 = time.time()
        fn(random.Random(C.seed() * 104729 + stream), n(n_or), res, problems)
        res.extra.setdefault("round6_oracle_seconds", {})[tag] = round(time.time() - t0, 2)
    if not quick:
        res.extra["ecdfm_default_beta_fit"] = ecdfm_beta_note(rng)

    # the evidence samples: the oracle's cases first (the correspondences fill the first slots otherwise)
    res.cov["samples"] = res.extra["oracle_samples"][:4] + res.cov["samples"][:2]
    seen = set()
    for p, case in problems:
        key = (case.get("config"), case.get("what"))
        if key in seen:
            continue
        seen.add(key)
        res.violations.append((f"{case.get('what')}: {p}", {"property": PROP, "failing_input": case, "problem": p,
                                                           "signature": {"config": case.get("config"), "what": case.get("what")}}))
    if res.tie_broken and not problems:
        res.violations.append(("proof obligation / correspondence no longer checks: " + "; ".join(res.tie_broken)[:900],
                               {"property": PROP, "failing_input": None, "broken": res.tie_broken}))
    return res


def replay(data):
    """re-run the check with the recorded seed (every case is generated from VERIF_SEED) and report whether the recorded
    configuration fails again"""
    import os

    fi = data.get("failing_input")
    if not fi:
        print("replay: no failing input recorded (broken proof obligation / correspondence):", data.get("broken"))
        return 1
    os.environ["VERIF_SEED"] = str(fi.get("seed", 0))
    if fi.get("oracle") in ROUND6_ORACLES:
        # a case of one of the round-6 oracles: cases 0 .. case of its own stream (nothing else of the check is needed to regenerate the input)
        fn, stream, _ = ROUND6_ORACLES[fi["oracle"]]
        res, problems = C.Result(PROP, "quick"), []
        fn(random.Random(C.seed() * 104729 + stream), int(fi.get("case", 0)) + 1, res, problems)
        hit = [p for p, c in problems if c.get("case") == fi.get("case")]
        for p in hit:
            print("REPRODUCED:", p[:400])
        return 1 if hit else 0
    if str(fi.get("config", "")).startswith("history/"):
        # a recorded call sequence of process_history_oracle: its cases 0 .. case from its own stream reproduce every public call this
        # oracle made before the judged one (the full re-run below follows if other parts of the check were needed for it to manifest)
        res, problems = C.Result(PROP, "quick"), []
        process_history_oracle(random.Random(C.seed() * 104729 + 5), int(fi.get("case", 0)) + 1, res, problems)
        hit = [p for p, c in problems if c.get("case") == fi.get("case")]
        for p in hit:
            print("REPRODUCED:", p[:300])
        if hit:
            return 1
    res = C.Result(PROP, "quick")
    run("quick", res)
    hit = [d for d, r in res.violations if r.get("failing_input") and r["failing_input"].get("config") == fi.get("config")]
    for d in hit:
        print("REPRODUCED:", d[:300])
    return 1 if hit else 0
