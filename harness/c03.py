"""C03 — no-bias fixed point: an unbiased model (cm_hist == obs value for value) is left unchanged.

Decided by the theorems of lean/IbicusModel/Props/C03.lean about the shared layer-N model (Model/Debiasers.lean); the
model is tied to /repo on every run by tier A (LinearScaling / DeltaChange window functions regenerated and proved
equal to the model) and tier B (harness/debiasers_corr.py: real per-window code vs the executable model).  The
property's own oracle on the real code (`apply_location(obs, obs.copy(), F)` vs `F`, every window mode) is the
failing-input search: small budget on every run, 3x when a tie is broken.
"""
import datetime
import random
import warnings

import numpy as np

from harness import common as C
from harness import debiasers_corr as DC
from harness import probes

PROP = "C03"
TARGETS = ["IbicusModel.Props.C03"]
GEN = ["Debiasers"]
TARGETS += ["IbicusModel.Lemmas.GenDebWin"]  # tier A of the per-window transfer functions (CDFt, ECDFM, QDM, QM, SDM absolute): the audit imports it
GEN += ["DebWin"]  # Gen.DebWin: dataflow programs extracted by translator/extract_debiasers.py
TARGETS += ["IbicusModel.Props.Capstone"]  # capstone: C03 stated on the composition of the regenerated pieces (loop spec ∘ per-window program ∘ grid map); the audit imports it
GEN += ["Loops", "GridLoops", "DebWin", "Debiasers", "IsimipStep6"]  # the groups the capstone composes (lean_phase regenerates every transitively imported group anyway)
# the configurations of harness/debiasers_corr.CONFIGS whose window functions the C03 theorems are about
CORR_CONFIGS = ["LS-additive", "LS-multiplicative", "DC-additive", "DC-multiplicative", "QM-parametric-additive",
                "QM-parametric-multiplicative", "QM-parametric-no_detrending", "ECDFM",
                "QDM-absolute-linear_interpolation-nocensor", "QDM-absolute-step_function-censor-years",
                "QDM-relative-linear_interpolation-censor", "QDM-relative-linear_interpolation-nocensor-years",
                "CDFt-additive-linear_interpolation-linear-nossr", "CDFt-multiplicative-linear_interpolation-linear-nossr",
                "CDFt-no_shift-linear_interpolation-linear-nossr", "CDFt-additive-linear_interpolation-linear-nossr-years",
                "CDFt-additive-step_function-inverted_cdf-nossr",
                # stochastic singularity removal (Props.C03.cdft_ssr_fixed_point*): `cdftSteps true` / `cdftWindowYearsSSR`
                "CDFt-additive-linear_interpolation-linear-ssr", "CDFt-additive-linear_interpolation-linear-ssr-years"]


def correspondence(rng, names, n_each, tier, res, special):
    """tier B for the named configurations of harness/debiasers_corr (its public API): `n_each` cases per configuration,
    every third one on the property's own domain (`special(case)` rewrites the generated case, e.g. cm_hist := obs)"""
    from collections import Counter

    stats = {n: Counter() for n in DC.CONFIGS}
    lines, todo = [], []
    for name in names:
        config = DC.CONFIGS[name]
        for k in range(n_each):
            stream = "ties" if rng.random() < 0.15 else "main"
            case = DC.gen_case(rng, config, stream, tier)
            dom = "generic"
            if k % 3 == 0:
                case = special(dict(case), config)
                dom = "property-domain"
            params = DC.case_params(case)
            kind, value, u = DC.run_real(config, case["obs"], case["H"], case["F"], years=case["years"], **params)
            if len(u):
                case["u"] = [float(x) for x in u]
            lines.append(DC.driver_line(config, case["obs"], case["H"], case["F"], u=case.get("u"), years=case["years"], **params))
            todo.append((config, case, kind, value, stream))
            res.count(("corr", name, dom, stream, len(case["obs"]) // 8, len(case["F"]) // 8), True,
                      sample={"config": name, "domain": dom, "nO": len(case["obs"]), "nH": len(case["H"]), "nF": len(case["F"])})
    try:
        out = DC.run_driver_parallel(lines)
    except Exception as ex:  # noqa: BLE001
        return [{"config": "driver", "why": f"{type(ex).__name__}: {str(ex)[:500]}"}]
    mismatches = []
    for (config, case, kind, value, stream), line in zip(todo, out):
        res.cov["traces_validated_against_impl"] += 1
        mm = DC.compare(config, case, kind, value, line, stats)
        if mm is not None:
            mm["stream"] = stream
            mismatches.append(mm)
    res.extra.setdefault("ties_accepted", 0)
    res.extra["ties_accepted"] += sum(st["ties_elements"] for st in stats.values())
    res.extra["correspondence"] = {"per_config": {n: dict(st) for n, st in stats.items() if st["cases"]},
                                   "tolerance": "1e-9*(1+max(|inputs|,|model value|))"}
    return mismatches


def _hist_is_obs(case, config):
    """the property's domain: cm_hist equals obs value for value"""
    case["H"] = list(case["obs"])
    return case


# ------------------------------------------------------------------ data
def dates_from(start, n):
    return np.array([start + datetime.timedelta(days=k) for k in range(n)], dtype=object)


def whole_years(y0, ny):
    return dates_from(datetime.date(y0, 1, 1), (datetime.date(y0 + ny, 1, 1) - datetime.date(y0, 1, 1)).days)


def doy_of(dates):
    return np.array([d.timetuple().tm_yday for d in dates])


def tas_series(nprs, dates, mean, sd, amp=8.0, trend=0.0):
    """continuous (tie-free with probability one) temperature-like series in K"""
    doy = doy_of(dates)
    t = np.arange(dates.size) / 365.25
    return mean + amp * np.sin(2 * np.pi * doy / 365.25) + trend * t + sd * nprs.standard_normal(dates.size)


def pr_series(nprs, dates, scale, shape=2.0, amp=0.3, floor=0.0):
    """strictly positive continuous precipitation-like series (gamma), optional floor added"""
    doy = doy_of(dates)
    return floor + nprs.gamma(shape, scale, dates.size) * (1 + amp * np.sin(2 * np.pi * doy / 365.25))


def tie_free(*arrs):
    return all(np.unique(a).size == a.size for a in arrs)


SAMPLINGS = ["monthly", "dekad", "weekly", "pentad"]


def thin(dates, how):
    """a record coarser than daily: the 15th of every month, the 5th / 15th / 25th, every 7th / 5th day of the period"""
    if how == "monthly":
        return np.array([d for d in dates if d.day == 15], dtype=object)
    if how == "dekad":
        return np.array([d for d in dates if d.day in (5, 15, 25)], dtype=object)
    if how == "weekly":
        return dates[::7]
    if how == "pentad":
        return dates[::5]
    raise ValueError(how)


# ------------------------------------------------------------------ configurations of the oracle
def window_kw(mode):
    """mode: None (window-free) or (L, S)"""
    if mode is None:
        return dict(running_window_mode=False)
    return dict(running_window_mode=True, running_window_length=mode[0], running_window_step_length=mode[1])


def years_kw(ymode):
    if ymode is None:
        return dict(running_window_mode_over_years_of_cm_future=False)
    return dict(running_window_mode_over_years_of_cm_future=True, running_window_over_years_of_cm_future_length=ymode[0],
                running_window_over_years_of_cm_future_step_length=ymode[1])


def make(name, mode, ymode=None, **extra):
    """a real debiaser for a configuration name of this check"""
    import scipy.stats

    from ibicus.debias import CDFt, ECDFM, DeltaChange, LinearScaling, QuantileDeltaMapping, QuantileMapping

    kw = window_kw(mode)
    with warnings.catch_warnings():
        warnings.simplefilter("ignore")
        if name == "LS-additive":
            return LinearScaling(delta_type="additive", **kw)
        if name == "LS-multiplicative":
            return LinearScaling(delta_type="multiplicative", **kw)
        if name == "DC-additive":
            return DeltaChange(delta_type="additive", **kw)
        if name == "DC-multiplicative":
            return DeltaChange(delta_type="multiplicative", **kw)
        if name.endswith("-flux"):
            return make(name[:-5], mode, ymode, **extra)
        if name in ("QM-sfcWind", "QM-hurs"):  # iteratively fitted families via the documented defaults (gamma / beta)
            return QuantileMapping.from_variable(name[3:], **kw)
        if name.startswith(("QM-gamma-", "QM-beta-")):
            dist = scipy.stats.gamma if name.startswith("QM-gamma-") else scipy.stats.beta
            return QuantileMapping(distribution=dist, mapping_type="parametric", detrending=name.split("-", 2)[2], **kw)
        if name == "QDM-pr-for_precipitation":  # the explicit-threshold constructors build their own censored gamma
            return QuantileDeltaMapping.for_precipitation(float(extra["censor_thr"]), **kw, **years_kw(ymode))
        if name == "QDM-pr-from_variable":
            return QuantileDeltaMapping.from_variable("pr", censoring_threshold=float(extra["censor_thr"]), **kw, **years_kw(ymode))
        if name == "ECDFM-pr-censored":  # the censored-gamma precipitation model (Nelder-Mead fit) in a second debiaser family
            return ECDFM.for_precipitation(model_type="censored", censoring_threshold=float(extra["censor_thr"]), **kw)
        if name == "CDFt-SSR":  # the precipitation default: stochastic singularity removal
            return CDFt(delta_shift="additive", SSR=True, **kw, **years_kw(ymode))
        if name.startswith("QM-parametric-"):
            return QuantileMapping(distribution=scipy.stats.norm, mapping_type="parametric", detrending=name[len("QM-parametric-"):],
                                   cdf_threshold=float(extra.get("t", 1e-10)), **kw)
        if name == "ECDFM":
            return ECDFM(distribution=scipy.stats.norm, cdf_threshold=float(extra.get("t", 1e-10)), **kw)
        if name == "QDM-absolute":
            tkw = dict(cdf_threshold=float(extra["t"])) if "t" in extra else {}
            return QuantileDeltaMapping(distribution=scipy.stats.norm, trend_preservation="absolute", **tkw, **kw, **years_kw(ymode))
        if name == "QDM-relative":
            return QuantileDeltaMapping(distribution=scipy.stats.gamma, trend_preservation="relative",
                                        censor_values_to_zero=bool(extra.get("censor", False)),
                                        censoring_threshold=float(extra.get("censor_thr", 0.0)), **kw, **years_kw(ymode))
        if name.startswith("CDFt-"):
            parts = name.split("-")
            em, im = (parts[2], parts[3]) if len(parts) == 4 else ("linear_interpolation", "linear")
            return CDFt(delta_shift=parts[1], ecdf_method=em, iecdf_method=im, SSR=False, **kw, **years_kw(ymode))
    raise ValueError(name)


ORACLE_CONFIGS = ["LS-additive", "LS-multiplicative", "DC-additive", "DC-multiplicative", "QM-parametric-additive",
                  "QM-parametric-no_detrending", "QM-parametric-multiplicative", "ECDFM", "QDM-absolute", "QDM-relative",
                  "CDFt-additive", "CDFt-multiplicative", "CDFt-SSR", "QM-gamma-multiplicative", "QM-gamma-no_detrending",
                  "QM-beta-additive", "QM-sfcWind", "QM-hurs", "LS-multiplicative-flux", "DC-multiplicative-flux",
                  "QDM-pr-for_precipitation", "QDM-pr-from_variable"]
MULT = {"LS-multiplicative", "DC-multiplicative", "QM-parametric-multiplicative", "QDM-relative", "CDFt-multiplicative",
        "CDFt-SSR", "LS-multiplicative-flux", "DC-multiplicative-flux", "QDM-pr-for_precipitation", "QDM-pr-from_variable"}
HAS_YEARS = {"QDM-absolute", "QDM-relative", "CDFt-additive", "CDFt-multiplicative", "CDFt-SSR", "QDM-pr-for_precipitation",
             "QDM-pr-from_variable"}
QDM_PR = {"QDM-pr-for_precipitation", "QDM-pr-from_variable"}  # censored-gamma fit by Nelder-Mead: a few windows only
ITER_FIT = {"QM-gamma-multiplicative", "QM-gamma-no_detrending", "QM-beta-additive", "QM-sfcWind", "QM-hurs"}  # MLE by optimiser
# configurations judged by the large / sparse cases only (not in ORACLE_CONFIGS: the regular cases keep their PRNG stream)
EXTRA_CONFIGS = ["ECDFM-pr-censored"]
CENSORED_PR = QDM_PR | set(EXTRA_CONFIGS)  # data at or just above an explicit censoring threshold (recipe field `censor_thr`)
MULT |= set(EXTRA_CONFIGS)
FLUX = [1e-8, 1e-6, 1e-9, 1e-5]  # pr in kg m-2 s-1 has this magnitude


LARGE_AT = {"quick": (0,), "thorough": (0, 7, 19)}  # which occurrences of a CDFt configuration are "large sample" cases


def gen_case(rng, name, tier, j=1):
    """a recipe (JSON-able) for one oracle case (`j` = how often this configuration occurred before);
    `build(recipe)` turns it into arrays deterministically"""
    windowed = rng.random() < 0.55
    large = name.startswith("CDFt") and j in LARGE_AT.get(tier, (0,))
    if large:
        windowed = False  # one window with more than 10^4 values (>= 29 years of daily data)
    if windowed:
        S = rng.choice([1, 7, 15, 31, 61])
        L = max(S, rng.choice([31, 61, 91]))
        mode = [L, S]
        nyO, nyF = rng.randint(2, 4), rng.randint(1, 4 if tier == "quick" else 6)
        if S == 1 and name.startswith(("CDFt", "QDM")):
            nyO, nyF = 2, rng.randint(1, 2)  # 366 windows, each with a quantile pipeline: keep it small
        if name in ITER_FIT and S < 15:
            S = rng.choice([15, 31, 61])  # two optimiser fits per window
            mode = [max(S, L), S]
        if name in QDM_PR:
            S = rng.choice([31, 61, 91])
            mode = [max(S, L), S]
    else:
        mode = None
        nyO, nyF = rng.randint(1, 8), rng.randint(1, 8)
        if large:
            nyO, nyF = rng.randint(29, 32), rng.choice([rng.randint(3, 12), rng.randint(29, 32)])
    ymode = None
    if name in HAS_YEARS and rng.random() < 0.6:
        ymode = rng.choice([[17, 9], [5, 3], [3, 1], [1, 1], [9, 9]])
    if name in HAS_YEARS and j % 2 == 1 and not large:
        ymode = rng.choice([[17, 9], [5, 3], [9, 9], [9, 5]])  # every other case: year windows with a step > 1 (and year gaps, below)
    rec = dict(config=name, mode=mode, ymode=ymode, nyO=nyO, nyF=nyF, y0=rng.randint(1950, 2000), yF=rng.randint(2001, 2080),
               np_seed=rng.randint(0, 2**31 - 1), short=(not windowed and not large and rng.random() < 0.3),
               sd_ratio=rng.choice([0.5, 1.0, 1.0, 2.0]), shift=rng.choice([-6.0, -1.0, 0.0, 2.0, 10.0]), trend=rng.choice([0.0, 0.0, 0.5]))
    if name.endswith("-flux"):
        rec["flux"] = FLUX[j % len(FLUX)]
    if name in QDM_PR:
        rec["censor_thr"] = rng.choice([0.125, 0.5, 1.0])  # powers of two: x * q / q == x exactly
        rec["at_threshold"] = rng.choice([0, 1, 3])
    if ymode is not None and not large and (j % 2 == 1 or name in QDM_PR and j % 2 == 0):
        # a future period whose years are NOT consecutive: two time slices in one array, a missing year, every second year
        rec["year_gaps"] = rng.choice(["alternate", "decade", "drop-one", "two-slices"])
        rec["nyF"] = max(rec["nyF"], rng.randint(6, 12))
        if windowed and S == 1:
            rec["nyF"] = 4
    if name in ("ECDFM", "QDM-absolute") or name.startswith("QM-parametric"):
        # non-default cdf_threshold (the parameter has to reach every place that thresholds), with values in the clipped tails
        rec["t"] = [1e-3, 1e-6, 1e-10, 1e-2][j % 4]
        rec["outliers"] = rng.choice([1, 2, 5])
    # the time axes in every encoding the library accepts, mixed between the three series; windowed cases span a leap year
    rec["kinds"] = [probes.pick_kind(rng) for _ in range(3)]
    if windowed:
        if j % 2 == 0:  # deterministic share: numpy datetimes against python objects
            m8, ob = rng.choice(["M8D", "M8h", "M8s", "M8ns"]), rng.choice(["date", "datetime", "plain"])
            rec["kinds"] = rng.choice([[m8, ob, rng.choice([m8, ob])], [ob, m8, rng.choice([m8, ob])]])
        rec["y0"] = rec["y0"] - rec["y0"] % 4 - rng.randint(0, max(0, rec["nyO"] - 1))  # a leap year inside the obs period
        if (rec["y0"] + rec["nyO"] - 1) // 4 * 4 < rec["y0"] or ((rec["y0"] + rec["nyO"] - 1) // 4 * 4) % 100 == 0 and ((rec["y0"] + rec["nyO"] - 1) // 4 * 4) % 400 != 0:
            rec["y0"] = 1996
    if name == "QDM-relative":
        rec["censor"] = j % 2 == 0  # every other case with censor_values_to_zero (the precipitation default)
        # ... and then with cm_future values EXACTLY at the censoring threshold ("at or above" must survive)
        rec["at_threshold"] = rng.choice([1, 3, 10]) if rec["censor"] else 0
    return rec


# ---- quantifier "cm_future series of ANY LENGTH ... with and without running windows": the regular cases above are daily
# whole-year records, so every (day-of-year window x year window) chunk of cm_future holds >= 28 values and a window-free
# future >= 2.  The sparse cases cover the other end: a chunk / a whole future of exactly ONE value or of a handful (a single
# time step; a few consecutive steps; monthly / dekadal / weekly / pentad records with a single future year or with year
# windows of one year), while the calibration sample (obs == cm_hist) stays well populated (>= 8 years of the same axis).
# Guards (DESIGN 4, C03): * ECDFM is the one method that FITS A DISTRIBUTION TO cm_future: its chunks get at least
# SPARSE_MIN_FIT values (the normal fit of a one-value sample has scale 0, its cdf is undefined -- not a fixed-point matter);
# * DeltaChange calibrates on the model series (cm_hist == cm_future, played by `F`): a short model series is window-free
# only ("every calibration window is non-empty"); * day-of-year windows on a thin axis have step < length, so that the
# calibration window around every adjusted day contains the obs record of the same date (day of year +-1 across leap years).
SPARSE_FITS_FUTURE = {"ECDFM", "ECDFM-pr-censored"}
SPARSE_MIN_FIT = 8
SPARSE_SHAPES = ["one-step", "one-year", "few-steps", "year-chunks"]


def gen_sparse_case(rng, name, tier, j=0):
    """a recipe with a thin time axis and / or a very short future (see the comment above); same schema as `gen_case`.
    `j` selects the shape (callers rotate it so that every shape occurs for every family of debiasers)"""
    shape = SPARSE_SHAPES[j % 4]
    if shape == "year-chunks" and name not in HAS_YEARS:
        shape = "one-year"
    short = shape in ("one-step", "few-steps")
    windowed = not short or rng.random() < 0.5
    if name.startswith("DC-") and short:
        windowed = False
    sampling = rng.choice(SAMPLINGS + [None]) if short else rng.choice(SAMPLINGS + ["monthly", "monthly"])
    mode = None
    if windowed:
        L = rng.choice([31, 31, 61, 91]) if sampling == "monthly" else rng.choice([31, 61, 91])
        steps = [1, 7, 15, 31, 61] if (short or sampling == "monthly") else [7, 15, 31, 61]  # step 1 on a denser axis: 365 windows x year windows
        if name in ITER_FIT or name in CENSORED_PR:
            steps = [15, 31, 61]  # an optimiser fit (or two) per window
        mode = [L, rng.choice([st for st in steps if st < L])]
    rec = dict(config=name, mode=mode, ymode=None, nyO=rng.randint(8, 14), nyF=1, y0=rng.randint(1950, 1985), yF=rng.randint(2001, 2080),
               np_seed=rng.randint(0, 2**31 - 1), short=False, sd_ratio=rng.choice([0.5, 1.0, 2.0]), shift=rng.choice([-6.0, -1.0, 2.0, 10.0]),
               trend=0.0, sparse=shape, sampling=sampling, kinds=[probes.pick_kind(rng) for _ in range(3)])
    if (name in ITER_FIT or name in CENSORED_PR) and sampling == "monthly":
        rec["nyO"] = rng.randint(20, 30)  # an optimiser fit per window: enough values in it
    if shape == "one-step":
        rec["fut_steps"], rec["fut_start"] = 1, rng.randint(0, 400)
    elif shape == "few-steps":
        rec["fut_steps"], rec["fut_start"] = rng.randint(2, 5), rng.randint(0, 400)
    elif shape == "year-chunks":
        rec["nyF"] = rng.randint(3, 8)
        rec["ymode"] = rng.choice([[1, 1], [1, 1], [3, 1], [3, 3]])
    if name in HAS_YEARS and shape != "year-chunks" and rng.random() < 0.5:
        rec["ymode"] = rng.choice([[17, 9], [5, 3], [1, 1]])
    if name in SPARSE_FITS_FUTURE:
        if short:
            rec["fut_steps"] = rng.randint(SPARSE_MIN_FIT, 2 * SPARSE_MIN_FIT)
            if sampling:
                rec["mode"] = None
        else:  # a thin axis: a longer window / more future years, so that every window holds SPARSE_MIN_FIT values
            rec["nyF"] = rng.randint(6, 9)
            if rec["mode"]:
                rec["mode"] = [91, rec["mode"][1]] if sampling != "monthly" else None
    if name.endswith("-flux"):
        rec["flux"] = FLUX[j % len(FLUX)]
    if name in CENSORED_PR:
        rec["censor_thr"] = rng.choice([0.125, 0.5, 1.0])
        rec["at_threshold"] = rng.choice([0, 1])
    if name in ("ECDFM", "QDM-absolute") or name.startswith("QM-parametric"):
        rec["t"] = [1e-3, 1e-6, 1e-10, 1e-2][j % 4]
    if name == "QDM-relative":
        rec["censor"] = j % 2 == 0
        rec["at_threshold"] = 1 if rec["censor"] else 0
    return rec


# ---- quantifier "series of ANY LENGTH": the other end.  The regular cases fit at most 8 years of daily data at once (<= 2922
# values; a day-of-year window of <= 91 days x <= 4 years) -- only CDFt had window-free samples of > 10^4 values (LARGE_AT).
# The large cases give EVERY configuration (mean shifts, closed-form and optimiser fits, the censored / hurdle precipitation
# models, empirical quantile pipelines) single fits of 5 000 ... 22 000 values: window-free records of 14 - 60 years, or
# 45 - 60 years seen through a day-of-year window of 121 / 181 days, with cm_hist == obs.  A size-dependent branch of any
# estimator (subsampling, binning, capped grids, a different algorithm for long samples) shows here and nowhere else.
def gen_large_case(rng, name, tier, j=0):
    """a recipe whose single fits see thousands of values; same schema as `gen_case`"""
    windowed = rng.random() < 0.25
    if windowed:
        mode = [rng.choice([121, 181]), rng.choice([61, 91])]
        nyO, nyF = rng.randint(45, 60), rng.randint(2, 6)
    else:
        mode = None
        nyO = rng.choice([rng.randint(14, 20), rng.randint(29, 32), rng.randint(40, 60)])
        nyF = rng.choice([rng.randint(3, 12), rng.randint(14, 20), rng.randint(29, 40)])
    ymode = rng.choice([None, [17, 9], [9, 9], [5, 3]]) if name in HAS_YEARS else None
    if windowed and nyF < 6:
        ymode = None
    rec = dict(config=name, mode=mode, ymode=ymode, nyO=nyO, nyF=nyF, y0=rng.randint(1900, 1940), yF=rng.randint(2001, 2040),
               np_seed=rng.randint(0, 2**31 - 1), short=False, sd_ratio=rng.choice([0.5, 1.0, 2.0]), shift=rng.choice([-6.0, -1.0, 2.0, 10.0]),
               trend=rng.choice([0.0, 0.5]), large=True, kinds=[probes.pick_kind(rng) for _ in range(3)])
    if name.endswith("-flux"):
        rec["flux"] = FLUX[j % len(FLUX)]
    if name in CENSORED_PR:
        rec["censor_thr"] = rng.choice([0.125, 0.5, 1.0])
        rec["at_threshold"] = rng.choice([0, 1, 3])
    if name in ("ECDFM", "QDM-absolute") or name.startswith("QM-parametric"):
        rec["t"] = [1e-3, 1e-6, 1e-10, 1e-2][j % 4]
        rec["outliers"] = rng.choice([1, 2, 5])
    if name == "QDM-relative":
        rec["censor"] = j % 2 == 0
        rec["at_threshold"] = rng.choice([1, 3, 10]) if rec["censor"] else 0
    return rec


# ---- quantifier "for all ... CONFIGURATIONS ... with and without running windows" / "in every window mode" — and every CALL
# FORM of a well-formed call: the time arguments of `apply_location` / `apply` are OPTIONAL.  All cases above hand three
# explicit date arrays to `apply_location` (and the `apply` cases are window-free, where dates are not read at all), so the
# branch "running windows / year windows WITHOUT time information" — the library then infers the dates, documented as
# "assuming the first value in obs, cm_hist and cm_future always corresponds to a January 1st" — never ran.  The timeless cases
# omit time arrays (all three, or those of one role) in day-of-year-window and year-window mode, through `apply_location`
# and through the public `apply` (one-cell grid, time arrays as keyword arguments), on series whose length is NOT a whole
# number of years (400 ... 1400 days: where each inferred calendar starts and ends matters) and, when dates are given, on
# records that start on any day of the year.
# Guards (nothing beyond DESIGN 4, C03): the two series the statement equates value for value (obs / cm_hist; for DeltaChange
# cm_hist / cm_future) carry the SAME time information — both omitted or both given with the same dates (assumption "cm_hist
# has the dates of obs"); a given array is never paired with an omitted one inside that pair, so nothing depends on WHICH
# January 1st the library picks; every calibration window is non-empty (>= 400 consecutive days cover every day of the year).
TIMELESS_CONFIGS = ["DC-additive", "DC-multiplicative", "LS-additive", "LS-multiplicative", "QM-parametric-additive", "ECDFM",
                    "QDM-absolute", "QDM-relative", "CDFt-additive", "CDFt-multiplicative", "CDFt-SSR", "DC-multiplicative-flux"]
# (time_obs, time_cm_hist, time_cm_future) omitted?  DeltaChange: the model pair (cm_hist, cm_future) goes together;
# the others: the calibration pair (obs, cm_hist)
OMIT_DC = [[True, True, True], [False, True, True], [True, True, True], [True, False, False]]
OMIT_RW = [[True, True, True], [True, True, False], [True, True, True], [False, False, True]]


def gen_timeless_case(rng, name, tier, j=0):
    """a recipe whose call omits time information in a window mode (see the comment above); same schema as `gen_case`
    plus `omit`, `via`, day counts `nO` / `nF` and start offsets `offO` / `offF` (days after 1 January) of GIVEN axes"""
    dc = name.startswith("DC-")
    omit = list((OMIT_DC if dc else OMIT_RW)[j % 4])
    heavy = name in ITER_FIT or name in CENSORED_PR or name == "QDM-relative"  # an optimiser fit (or two) per window
    ymode = None
    if name in HAS_YEARS and rng.random() < 0.5:
        ymode = rng.choice([[17, 9], [5, 3], [3, 1], [1, 1]])
    windowed = not (ymode is not None and rng.random() < 0.4)  # window-free only with year windows (their own inference site)
    mode = None
    if windowed:
        steps = [31, 61] if heavy else ([7, 15, 31, 61] if name.startswith(("CDFt", "QDM", "QM", "ECDFM")) else [1, 7, 15, 31, 61])
        S = rng.choice(steps)
        mode = [max(S, rng.choice([31, 61, 91])), S]
    nO, nF = rng.randint(400, 1400), rng.randint(400, 1400)
    # the series of the calendar `dO` is obs; the one of `dF` is cm_future (DeltaChange: the unchanged model)
    inferO, inferF = omit[0], omit[2]
    rec = dict(config=name, mode=mode, ymode=ymode, nyO=nO // 365 + 1, nyF=nF // 365 + 1, nO=nO, nF=nF,
               y0=1950 if inferO else rng.randint(1951, 2000), yF=1950 if inferF else rng.randint(2001, 2080),
               offO=0 if inferO else rng.randint(0, 364), offF=0 if inferF else rng.randint(0, 364),
               np_seed=rng.randint(0, 2**31 - 1), short=False, sd_ratio=rng.choice([0.5, 1.0, 2.0]), shift=rng.choice([-6.0, -1.0, 2.0, 10.0]),
               trend=rng.choice([0.0, 0.5]), timeless=True, omit=omit, via=rng.choice(["apply_location", "apply"]),
               kinds=[probes.pick_kind(rng) for _ in range(3)])
    if name.endswith("-flux"):
        rec["flux"] = FLUX[j % len(FLUX)]
    if name in CENSORED_PR:
        rec["censor_thr"] = rng.choice([0.125, 0.5, 1.0])
        rec["at_threshold"] = rng.choice([0, 1, 3])
    if name in ("ECDFM", "QDM-absolute") or name.startswith("QM-parametric"):
        rec["t"] = [1e-3, 1e-6, 1e-10, 1e-2][j % 4]
    if name == "QDM-relative":
        rec["censor"] = j % 2 == 0
        rec["at_threshold"] = rng.choice([1, 3]) if rec["censor"] else 0
    return rec


def call_debiaser(deb, rec, a, b, c, times):
    """the call form of a recipe: `apply_location(obs, cm_hist, cm_future, time_obs, time_cm_hist, time_cm_future)` (default) or
    the public `apply` on a one-cell grid with the time arrays as keyword arguments; `None` entries of `times` are not passed"""
    if rec.get("via") == "apply":
        kw = {k: t for k, t in zip(("time_obs", "time_cm_hist", "time_cm_future"), times) if t is not None}
        out = np.asarray(deb.apply(a[:, None, None], b[:, None, None], c[:, None, None], progressbar=False, **kw))
        return out[:, 0, 0] if out.ndim == 3 and out.shape[1:] == (1, 1) else out
    if all(t is None for t in times):
        return deb.apply_location(a, b, c)
    return deb.apply_location(a, b, c, *times)


def build(rec):
    """-> dict(obs, F, dO, dF, extra) for a recipe"""
    nprs = np.random.RandomState(rec["np_seed"])
    dO, dF = whole_years(rec["y0"], rec["nyO"]), whole_years(rec["yF"], rec["nyF"])
    if rec.get("timeless"):
        # `nO` / `nF` consecutive days from any day of the year.  An axis that is NOT handed to the library starts on
        # 1950-01-01 (`y0` = 1950, `offO` = 0): the harness needs these dates only for the data's annual cycle and for
        # the NoClip guard of parametric QM, never for the verdict on the other debiasers
        dO = dates_from(datetime.date(rec["y0"], 1, 1) + datetime.timedelta(days=int(rec["offO"])), int(rec["nO"]))
        dF = dates_from(datetime.date(rec["yF"], 1, 1) + datetime.timedelta(days=int(rec["offF"])), int(rec["nF"]))
    if rec.get("year_gaps"):
        n, y0 = rec["nyF"], rec["yF"]
        ys = {"alternate": [y0 + 2 * k for k in range(n)], "decade": list(range(y0, y0 + n // 2)) + list(range(y0 + n // 2 + 10, y0 + n + 10)),
              "drop-one": [y for y in range(y0, y0 + n + 1) if y != y0 + n // 2],
              "two-slices": list(range(y0, y0 + n // 2)) + list(range(y0 + n // 2 + 23, y0 + n + 23))}[rec["year_gaps"]]
        dF = np.concatenate([whole_years(y, 1) for y in ys])
    if rec.get("short"):  # window-free: any lengths, down to 2
        nO, nF = int(nprs.randint(2, 40)), int(nprs.randint(2, 40))
        dO, dF = dO[:nO], dF[:nF]
    if rec.get("sampling"):  # thin time axes (gen_sparse_case): monthly / dekadal / weekly / pentad records instead of daily ones
        dO, dF = thin(dO, rec["sampling"]), thin(dF, rec["sampling"])
    if rec.get("fut_steps"):  # a future of `fut_steps` consecutive steps (1 = a single time step), anywhere in the period
        k = int(rec["fut_steps"])
        a = int(rec.get("fut_start", 0)) % max(1, dF.size - k + 1)
        dF = dF[a:a + k]
    extra = {}
    if rec["config"] in MULT:
        if rec["config"] == "QDM-relative":
            thr = 0.25
            obs = pr_series(nprs, dO, 3.0, floor=thr)
            F = pr_series(nprs, dF, 3.0 * rec["sd_ratio"] * 1.5, floor=thr)
            k_at = min(int(rec.get("at_threshold", 0)), F.size)
            if k_at:
                # the threshold is a power of two: x * q / q == x exactly in floating point, so the comparison with the
                # threshold inside the debiaser is not a matter of rounding
                F[nprs.choice(F.size, size=k_at, replace=False)] = thr
            extra = dict(censor=rec.get("censor", False), censor_thr=thr)
        elif rec["config"] in CENSORED_PR:
            # wet-day amounts at or just above the censoring threshold: the fitted censored gamma has mass below it
            thr = float(rec["censor_thr"])
            obs = thr + nprs.gamma(0.9, 5.0, dO.size) + 1e-3
            F = thr + nprs.gamma(0.9, 5.0 * rec["sd_ratio"] ** 0.5, dF.size) + 1e-3
            k_at = min(int(rec.get("at_threshold", 0)), F.size)
            if k_at:
                F[nprs.choice(F.size, size=k_at, replace=False)] = thr
            extra = dict(censor_thr=thr)
        elif rec["config"] == "CDFt-SSR":
            # strictly positive amounts (no exact zeros); a drier future whose smallest amounts lie below every obs amount
            obs = pr_series(nprs, dO, 3.0, floor=0.05)
            F = pr_series(nprs, dF, 3.0 * 0.3 * rec["sd_ratio"], floor=0.0)
            F = np.where(F > 0, F, 1e-3)
        else:
            obs = pr_series(nprs, dO, 3.0, floor=0.01)
            F = pr_series(nprs, dF, 3.0 * rec["sd_ratio"] * 1.5, floor=0.01)
            if rec.get("flux"):
                obs, F = obs * rec["flux"], F * rec["flux"]
    elif rec["config"] in ("QM-gamma-multiplicative", "QM-gamma-no_detrending", "QM-sfcWind"):
        obs = nprs.gamma(3.0, 1.5, dO.size) + 0.2
        F = nprs.gamma(3.0, 1.5 * rec["sd_ratio"] ** 0.5, dF.size) + 0.2
    elif rec["config"] in ("QM-beta-additive", "QM-hurs"):
        k100 = 100.0 if rec["config"] == "QM-hurs" else 1.0
        obs = k100 * (0.02 + 0.96 * nprs.beta(5.0, 2.0, dO.size))
        F = k100 * (0.02 + 0.96 * nprs.beta(5.0 * rec["sd_ratio"] ** 0.5, 2.0, dF.size))
    else:
        obs = tas_series(nprs, dO, 283.0, 3.0)
        F = tas_series(nprs, dF, 283.0 + rec["shift"], 3.0 * rec["sd_ratio"], trend=rec["trend"])
    if "t" in rec:
        extra = dict(extra, t=rec["t"])
        k_out = int(rec.get("outliers", 0))
        if k_out and rec["config"] not in MULT and F.size >= 100:
            # events 6.5 - 8 sigma from the mean: inside the clipped tails of a non-default threshold
            # (sized by the total spread of the series incl. its annual cycle; few enough not to inflate the fitted scale much)
            k_out = min(k_out, max(1, F.size // 400))
            idx = nprs.choice(F.size, size=k_out, replace=False)
            F[idx] = np.mean(F) + nprs.choice([-1.0, 1.0], size=k_out) * nprs.uniform(6.5, 8.0, size=k_out) * np.std(F)
    return dict(obs=obs, F=F, dO=dO, dF=dF, extra=extra)


# ------------------------------------------------------------------ the NoClip guard of parametric QM on the real code
def qm_guard(deb, obs, F, dO, dF, upper_margin=0.0):
    """(clip, roundtrip): `clip` is True where `threshold_cdf_vals` changes the cdf value of the (detrended) future value;
    `roundtrip[i] = |ppf(cdf(x_i; fit), fit) - x_i|` (re-trended) is what the distribution's own cdf / ppf pair loses with ONE
    fit of obs — the numerical floor of the identity.  Computed with the real distribution, the real detrending formula
    and, in running-window mode, the real window index sets."""
    t = deb.cdf_threshold

    def one(o, f):
        if deb.detrending == "additive":
            delta = np.mean(f) - np.mean(o)
            x = f - delta
        elif deb.detrending == "multiplicative":
            delta = np.mean(f) / np.mean(o)
            x = f / delta
        else:
            x = f
        fit = deb.distribution.fit(o)
        c = deb.distribution.cdf(x, *fit)
        back = deb.distribution.ppf(np.clip(c, t, 1 - t), *fit)
        back = back + delta if deb.detrending == "additive" else (back * delta if deb.detrending == "multiplicative" else back)
        return (c < t) | (c > 1 - max(t, upper_margin)), np.abs(back - f)

    if not deb.running_window_mode:
        return one(obs, F)
    from ibicus.utils import day_of_year

    with warnings.catch_warnings():
        warnings.simplefilter("ignore")
        doyO, doyF = day_of_year(dO), day_of_year(dF)
    mask = np.zeros(F.size, dtype=bool)
    rt = np.zeros(F.size)
    for c, idx in deb.running_window.use(doyF):
        iwO = deb.running_window.get_indices_vals_in_window(doyO, c)
        iwF = deb.running_window.get_indices_vals_in_window(doyF, c)
        m, r = one(obs[iwO], F[iwF])
        sel = np.isin(iwF, idx)
        mask[idx] = m[sel]
        rt[idx] = r[sel]
    return mask, rt


def qm_clip_mask(deb, obs, F, dO, dF, upper_margin=0.0):
    return qm_guard(deb, obs, F, dO, dF, upper_margin)[0]


# ------------------------------------------------------------------ the oracle
def run_case(rec):
    """returns (problem or None, info) for one recipe, on the real code"""
    data = build(rec)
    obs, F, dO, dF = data["obs"], data["F"], data["dO"], data["dF"]
    name = rec["config"]
    mode = tuple(rec["mode"]) if rec["mode"] else None
    ymode = tuple(rec["ymode"]) if rec["ymode"] else None
    deb = make(name, mode, ymode, **data["extra"])
    scale = float(max(np.max(np.abs(obs)), np.max(np.abs(F))))  # relative to the data's magnitude (pr fluxes are ~1e-6)
    # iteratively fitted families: both fits are the same call on equal data, so the identity holds to ~1e-12 relative on
    # the unchanged code (measured: <= 4e-13); 1e-9 leaves three orders of magnitude
    tol = (1e-9 if name in ITER_FIT else 1e-8) * scale
    info = {"n_obs": int(obs.size), "n_fut": int(F.size), "skipped_clipped": 0, "tie_free": tie_free(obs, F)}
    # the same calendar days, each series in its own time encoding (python dates, datetimes, cftime-like objects, datetime64[D/h/s/ns])
    kO, kH, kF = rec.get("kinds", ["date", "date", "date"])
    omit = list(rec.get("omit") or [False, False, False])  # timeless cases: which time arrays are NOT handed to the library
    with warnings.catch_warnings(), np.errstate(all="ignore"):
        warnings.simplefilter("ignore")
        if name.startswith("DC-"):
            # DeltaChange with an unchanged model (cm_future == cm_hist): returns obs.  `F` plays the model here.
            shown = [(dO, probes.present(dO, kO)), (dF, probes.present(dF, kH)), (dF, probes.present(dF, kF))]
            times = [None if om else sh for om, (_, sh) in zip(omit, shown)]
            out = call_debiaser(deb, rec, obs, F, F.copy(), times)
            want, what = obs, "obs"
        else:
            shown = [(dO, probes.present(dO, kO)), (dO, probes.present(dO, kH)), (dF, probes.present(dF, kF))]
            times = [None if om else sh for om, (_, sh) in zip(omit, shown)]
            out = call_debiaser(deb, rec, obs, obs.copy(), F, times)
            want, what = F, "cm_future"
    cal = []
    for (d, sh), om in zip(shown, omit):
        if om:
            continue
        probes.check_calendar(d, cal, what="calendar", presented=sh)
    if cal:  # reported (once per run) only when the property itself shows nothing on this input
        info["calendar"] = f"{cal[0][0]} (time encodings {rec.get('kinds')}, first date {dO[0]})"
    with warnings.catch_warnings(), np.errstate(all="ignore"):
        warnings.simplefilter("ignore")
        keep = np.ones(want.size, dtype=bool)
        if name.startswith("QM-parametric") or name in ITER_FIT:
            # ITER_FIT: also skip the ill-conditioned upper tail (1 - cdf < 1e-5: ppf(cdf(x)) loses digits there)
            gO, gF = dO, dF
            if any(omit) and deb.running_window_mode:
                # the NoClip guard is about the windows the library really forms: for an omitted time array take the dates
                # the library's own inference assigns (a guard only — the verdict on the kept values never reads them)
                try:
                    from ibicus.utils._utils import infer_and_create_time_arrays_if_not_given as _infer

                    gO, _, gF = _infer(obs, obs, F, *times)
                except Exception:  # noqa: BLE001  (helper renamed / changed: fall back to the documented calendar)
                    gO, gF = dO, dF
            clip, rt = qm_guard(deb, obs, F, gO, gF, upper_margin=1e-5 if name in ITER_FIT else 0.0)
            keep = ~clip
            if name in ITER_FIT:
                # scipy's cdf / ppf pair of a fitted beta / gamma is itself only accurate to ~1e-9 relative for some fitted
                # shapes: allow ten times what ONE fit loses (a second, different fit for obs loses 1e-7 ... 1e-5)
                tol = tol + 10.0 * np.where(np.isfinite(rt), rt, 0.0)
            info["skipped_clipped"] = int(clip.sum())
    if out.shape != want.shape:
        return f"{name}: output shape {out.shape} != {want.shape}", info
    err = np.abs(out - want)
    err[~np.isfinite(out)] = np.inf
    err = np.where(keep, err, 0.0)
    worst = int(np.argmax(err))
    info["max_err"] = float(err[worst])
    excess = err - tol
    worst = int(np.argmax(excess))
    if excess[worst] > 0:
        tw = float(tol[worst]) if isinstance(tol, np.ndarray) else tol
        nan = int((~np.isfinite(out)).sum())
        how = (f"{nan} steps of the output are NaN / unassigned (first: step {int(np.where(~np.isfinite(out))[0][0])}); " if nan else "")
        if rec.get("large"):
            how = f"large sample ({obs.size} values of obs, {F.size} of cm_future); " + how
        thin_axis = f", {rec['sparse']} future of {F.size} steps on a {rec.get('sampling') or 'daily'} axis" if rec.get("sparse") else ""
        if rec.get("timeless"):
            left_out = [a for a, om in zip(("time_obs", "time_cm_hist", "time_cm_future"), omit) if om]
            thin_axis += (f", called through {rec.get('via')} WITHOUT {' / '.join(left_out)} (dates inferred by the library), "
                          f"{obs.size} steps of obs and {F.size} of {'the model' if name.startswith('DC-') else 'cm_future'}")
        return (f"{name} (windows {mode}, year windows {ymode}, year gaps {rec.get('year_gaps')}, cdf_threshold {rec.get('t')}, time encodings "
                f"{rec.get('kinds')}{thin_axis}): {how}with {'cm_future == cm_hist' if what == 'obs' else 'cm_hist == obs'} the output differs from {what} by {err[worst]:.3g} "
                f"at step {worst} ({out[worst]!r} vs {want[worst]!r}; tolerance {tw:.3g}); {int((excess > 0).sum())} of {want.size} steps differ"), info
    return None, info


# ---- quantifier "for all obs (= cm_hist) and cm_future series of any length and DISTRIBUTION ... parametric QuantileMapping":
# every case above is a continuous, strictly positive (or Gaussian) series, and parametric QM ran with scipy norm / gamma / beta
# only.  Real precipitation is ZERO-INFLATED (exact zeros next to positive amounts) and the library's own parametric QM for
# it — the documented default `QuantileMapping.from_variable("pr")` and `for_precipitation(model_type="hurdle")`: P(X = 0) = p0,
# a gamma for the amounts, NO censoring threshold — never ran, in no magnitude.  The precipitation cases feed such series
# (10 - 70 % exact zeros, gamma amounts, a few distinct drizzle amounts far below the bulk, also in obs) in mm/day and as a
# flux in kg m-2 s-1 (x 1/86400 and smaller: wet amounts below 1e-8 next to exact zeros), through the hurdle constructors with
# and without cdf randomisation, multiplicative / no detrending, window-free and in running-window mode, via `apply_location`
# and the public `apply`.  Demanded: out == cm_future at every step — exact zeros stay 0, every strictly positive amount comes
# back unchanged up to rounding (there is no censoring threshold in these settings, so every value is inside the statement).
# Guards (DESIGN 4, C03, nothing new): NoClip — steps whose cdf value is moved by `threshold_cdf_vals` are skipped; "up to
# rounding" = 1e-9 * max|data| + ten times what the cdf / ppf round trip of ONE hurdle fit loses at that step.  Both are
# computed with an INDEPENDENT reference of the documented hurdle model (scipy gamma with floc = 0, written out below), never
# with the library's model: a tolerance derived from the code under test would absorb exactly the defect it should show.
PRECIP_CONFIGS = ["QMpr-from_variable", "QMpr-hurdle-norand-no_detrending", "QMpr-hurdle-rand-no_detrending",
                  "QMpr-hurdle-norand-multiplicative", "ECDFMpr-hurdle"]
PRECIP_UNITS = [1.0 / 86400, 1.0, 1e-1 / 86400, 1e-2 / 86400]  # kg m-2 s-1, mm/day, and fluxes of drier / scaled records


class _RefHurdle:
    """the documented hurdle model, independent of ibicus: P(X = 0) = p0, P(0 < X <= x) = p0 + (1 - p0) * Gamma(x), loc = 0"""

    @staticmethod
    def fit(data):
        import scipy.stats

        wet = data[data != 0]
        return (1 - wet.size / data.size, scipy.stats.gamma.fit(wet, floc=0))

    @staticmethod
    def cdf(x, p0, g):
        import scipy.stats

        return np.where(x == 0, p0, p0 + (1 - p0) * scipy.stats.gamma.cdf(x, *g))

    @staticmethod
    def ppf(q, p0, g):
        import scipy.stats

        return np.where(q > p0, scipy.stats.gamma.ppf((q - p0) / (1 - p0), *g), 0)


def make_precip(name, mode):
    from ibicus.debias import ECDFM, QuantileMapping

    kw = window_kw(mode)
    with warnings.catch_warnings():
        warnings.simplefilter("ignore")
        if name == "QMpr-from_variable":
            return QuantileMapping.from_variable("pr", **kw)
        if name == "ECDFMpr-hurdle":
            return ECDFM.for_precipitation(model_type="hurdle", **kw)
        if name.startswith("QMpr-hurdle-"):
            _, _, rand, detr = name.split("-", 3)
            return QuantileMapping.for_precipitation(model_type="hurdle", hurdle_model_randomization=(rand == "rand"), detrending=detr, **kw)
    raise ValueError(name)


def gen_precip_case(rng, name, tier, j=0):
    """a recipe for a zero-inflated precipitation case (see the comment above); `build_precip(recipe)` is deterministic"""
    windowed = rng.random() < 0.4
    mode = None
    if windowed:
        S = rng.choice([15, 31, 61])
        mode = [max(S, rng.choice([31, 61, 91])), S]
    return dict(config=name, precip=True, mode=mode, ymode=None, nyO=rng.randint(3, 8), nyF=rng.randint(1, 6), y0=rng.randint(1950, 2000),
                yF=rng.randint(2001, 2080), np_seed=rng.randint(0, 2**31 - 1), unit=PRECIP_UNITS[j % len(PRECIP_UNITS)],
                dry=rng.choice([0.1, 0.4, 0.7]), shape=rng.choice([0.6, 0.9, 1.5]), sd_ratio=rng.choice([0.5, 1.0, 2.0]),
                drizzle=rng.choice([3, 10, 25]), via=rng.choice(["apply_location", "apply"]), kinds=[probes.pick_kind(rng) for _ in range(3)])


def build_precip(rec):
    nprs = np.random.RandomState(rec["np_seed"])
    dO, dF = whole_years(rec["y0"], rec["nyO"]), whole_years(rec["yF"], rec["nyF"])
    u = float(rec["unit"])

    def series(dates, scale_mm):
        x = pr_series(nprs, dates, scale_mm, shape=float(rec["shape"]))
        x = np.where(nprs.uniform(size=dates.size) < float(rec["dry"]), 0.0, x)
        # distinct drizzle amounts: 1e-9 ... 9e-9 kg m-2 s-1 (about 1e-4 ... 8e-4 mm/day) in the record's unit
        idx = nprs.choice(dates.size, size=min(int(rec["drizzle"]) * max(1, dates.size // 365), dates.size // 8), replace=False)
        x[idx] = nprs.uniform(1e-9, 9e-9, idx.size) * 86400
        return x * u

    obs = series(dO, 6.0)
    F = series(dF, 6.0 * float(rec["sd_ratio"]))
    return dict(obs=obs, F=F, dO=dO, dF=dF)


def run_precip_case(rec):
    """returns (problem or None, info): hurdle-model debiasers on zero-inflated data, cm_hist == obs => out == cm_future"""
    import types

    data = build_precip(rec)
    obs, F, dO, dF = data["obs"], data["F"], data["dO"], data["dF"]
    name = rec["config"]
    mode = tuple(rec["mode"]) if rec["mode"] else None
    deb = make_precip(name, mode)
    scale = float(max(np.max(np.abs(obs)), np.max(np.abs(F))))
    info = {"n_obs": int(obs.size), "n_fut": int(F.size), "skipped_clipped": 0, "wet_below_1e-8": int(((F > 0) & (F < 1e-8)).sum()),
            "dry_steps": int((F == 0).sum())}
    kO, kH, kF = rec.get("kinds", ["date", "date", "date"])
    times = [probes.present(dO, kO), probes.present(dO, kH), probes.present(dF, kF)]
    with warnings.catch_warnings(), np.errstate(all="ignore"):
        warnings.simplefilter("ignore")
        np.random.seed(int(rec["np_seed"]) % 2**32)  # the cdf randomisation of dry days draws from the global generator
        out = np.asarray(call_debiaser(deb, rec, obs, obs.copy(), F, times if mode else [None, None, None]))
        tol = 1e-9 * scale
        keep = np.ones(F.size, dtype=bool)
        if name.startswith("QMpr-"):
            ref = types.SimpleNamespace(distribution=_RefHurdle, detrending=deb.detrending, cdf_threshold=deb.cdf_threshold,
                                        running_window_mode=deb.running_window_mode, running_window=getattr(deb, "running_window", None))
            clip, rt = qm_guard(ref, obs, F, dO, dF)
            keep = ~clip
            tol = tol + 10.0 * np.where(np.isfinite(rt), rt, 0.0)
            info["skipped_clipped"] = int(clip.sum())
    if out.shape != F.shape:
        return f"{name}: output shape {out.shape} != {F.shape}", info
    err = np.abs(out - F)
    err[~np.isfinite(out)] = np.inf
    err = np.where(keep, err, 0.0)
    excess = err - tol
    worst = int(np.argmax(excess))
    info["max_err"] = float(np.max(err))
    if excess[worst] > 0:
        tw = float(tol[worst]) if isinstance(tol, np.ndarray) else tol
        bad = excess > 0
        dried = int((bad & (F > 0) & (out == 0)).sum())
        wetted = int((bad & (F == 0) & (out != 0)).sum())
        return (f"{name} (zero-inflated precipitation, unit {rec['unit']:.3g} per mm/day, {info['dry_steps']} dry steps and {info['wet_below_1e-8']} wet "
                f"amounts below 1e-8 in cm_future, windows {mode}, via {rec.get('via')}, time encodings {rec.get('kinds')}): with cm_hist == obs the "
                f"output differs from cm_future by {err[worst]:.3g} at step {worst} ({out[worst]!r} vs {F[worst]!r}; tolerance {tw:.3g}); "
                f"{int(bad.sum())} of {F.size} steps differ, {dried} wet steps came back as 0, {wetted} dry steps came back wet"), info
    return None, info


# pairs other than the default one: the statement is NOT claimed for them (Props.C03.cdft_fixed_point's comment);
# the check records, as a supporting test, that the real code still behaves the way the comment says
def other_pairs_note(rng, res):
    nprs = np.random.RandomState(rng.randint(0, 2**31 - 1))
    obs, F = 283 + 3 * nprs.standard_normal(37), 285 + 4 * nprs.standard_normal(23)
    notes = {}
    for name in ("CDFt-additive-step_function-inverted_cdf", "CDFt-additive-linear_interpolation-hazen"):
        with warnings.catch_warnings():
            warnings.simplefilter("ignore")
            out = make(name, None, None).apply_location(obs, obs.copy(), F)
        notes[name] = float(np.max(np.abs(out - F)))
    res.extra["cdft_other_pairs_max_deviation_unequal_sizes"] = notes


# ------------------------------------------------------------------ the public `apply` on small grids, any input dtype
DTYPE_COMBOS = [("float64", "float64", "int32"), ("int64", "int64", "int64"), ("float64", "int32", "int64"),
                ("float32", "float32", "float32"), ("int32", "float64", "float64"), ("float64", "float64", "float64")]
# integer data is tied: only transfer functions that are continuous in the data (mean shifts, parametric maps)
APPLY_DEBIASERS = {"C03": ["LS-additive", "QM-parametric-additive", "ECDFM", "DC-additive"],
                   "C01": ["LS-additive", "QM-parametric-additive", "ECDFM", "DC-additive", "SDM-absolute"]}


def gen_apply_case(rng, prop, k):
    names = APPLY_DEBIASERS[prop]
    combo = DTYPE_COMBOS[k % len(DTYPE_COMBOS)]
    name = names[k % len(names)]
    if "float32" in combo and not name.startswith(("LS-", "DC-")):
        name = "LS-additive"  # single precision: only the mean shifts are judged (tolerance of float32 arithmetic)
    return dict(config=f"apply/{name}", prop=prop, debiaser=name, dtypes=list(combo), shape=rng.choice([[1, 1], [1, 2], [2, 1]]),
                n=rng.randint(200, 900), np_seed=rng.randint(0, 2**31 - 1), shift=rng.choice([-6.0, 2.0, 10.0]), parallel=False)


def run_apply_case(rec):
    """`debiaser.apply(obs, cm_hist, cm_future)` on a t x nx x ny grid with the given dtypes.  C03: cm_hist = obs value for
    value => out = cm_future; C01: cm_future = cm_hist value for value => observed mean per cell (DeltaChange: out = obs)"""
    nprs = np.random.RandomState(rec["np_seed"])
    prop, name = rec["prop"], rec["debiaser"]
    dtO, dtH, dtF = rec["dtypes"]
    nx, ny = rec["shape"]
    n = rec["n"]
    integer = any(d.startswith("int") for d in rec["dtypes"])
    cell = np.arange(nx * ny).reshape(1, nx, ny)

    def series(mean, sd):
        x = mean + 3.0 * cell + sd * nprs.standard_normal((n, nx, ny))  # every cell has its own climatology
        return np.round(x) if integer else x

    a, b = series(283.0, 3.0), series(283.0 + rec["shift"], 4.0)
    if name == "SDM-absolute":
        from ibicus.debias import ScaledDistributionMapping

        with warnings.catch_warnings():
            warnings.simplefilter("ignore")
            deb = ScaledDistributionMapping.from_variable("tas", running_window_mode=False)
    else:
        deb = make(name, None)
    single = "float32" in rec["dtypes"]
    dc = name.startswith("DC-")
    if prop == "C03" and not dc:
        obs, H, F = a.astype(dtO), a.astype(dtH), b.astype(dtF)
    else:  # C01, and DeltaChange in both checks: the model is unchanged
        obs, H, F = a.astype(dtO), b.astype(dtH), b.astype(dtF)
    with warnings.catch_warnings(), np.errstate(all="ignore"):
        warnings.simplefilter("ignore")
        kw = {}
        if rec.get("parallel"):
            kw = dict(parallel=True)
            if rec.get("nr_processes"):
                kw["nr_processes"] = int(rec["nr_processes"])  # absent = the library's default (4)
        out = deb.apply(obs, H, F, progressbar=False, **kw)
    scale = float(max(np.max(np.abs(a)), np.max(np.abs(b))))
    tol = (1e-5 if single else 1e-8) * scale
    where = f"apply/{name} dtypes (obs, cm_hist, cm_future) = {tuple(rec['dtypes'])}, grid {n}x{nx}x{ny}{', parallel' if rec.get('parallel') else ''}"
    info = {"n": n}
    if out.shape != F.shape and not dc:
        return f"{where}: output shape {out.shape}", info
    if dc:
        err = float(np.max(np.abs(out - a)))
        return (f"{where}: DeltaChange with an unchanged model does not return obs (max deviation {err:.3g})" if not err <= tol else None), info
    if prop == "C03":
        errs = np.abs(out - b)
        if name.startswith("QM-parametric"):  # values clipped by cdf_threshold are outside the statement (NoClip)
            for i in range(nx):
                for j in range(ny):
                    errs[qm_clip_mask(deb, a[:, i, j], b[:, i, j], None, None), i, j] = 0.0
        err = float(np.max(errs))
        info["max_err"] = err
        if not err <= tol:
            return f"{where}: with cm_hist == obs the output differs from cm_future by {err:.3g} (tolerance {tol:.3g})", info
        return None, info
    resid = np.abs(out.astype(float).mean(axis=0) - a.mean(axis=0))
    info["max_residual"] = float(resid.max())
    if not resid.max() <= tol:
        i, j = np.unravel_index(int(np.argmax(resid)), resid.shape)
        return (f"{where}: residual mean bias {float(resid.max()):.3g} in cell ({i}, {j}) (original bias "
                f"{float(b[:, i, j].mean() - a[:, i, j].mean()):+.3g}; tolerance {tol:.3g})"), info
    return None, info


def apply_cases(rng, tier, res, problems, prop, extra=()):
    recs = [gen_apply_case(rng, prop, k) for k in range(6 if tier == "quick" else 36)] + list(extra)
    for rec in recs:
        try:
            p, info = run_apply_case(rec)
        except Exception as ex:  # noqa: BLE001
            p, info = f"{rec['config']}: {type(ex).__name__}: {str(ex)[:200]}", {}
        res.count(("apply", rec["debiaser"], tuple(rec["dtypes"]), tuple(rec["shape"]), rec.get("parallel", False)), True)
        if p:
            problems.append((p, rec))


def utils_inverse_large(rng, tier, res, problems):
    """`ecdf(linear_interpolation)` and `iecdf(linear)` are inverse to each other on a tie-free sample
    (Lemmas.Stats.ecdfLin_iecdfLinear / iecdfLinear_ecdfLin) — also for samples of more than 10^4 values"""
    from ibicus.utils import ecdf, iecdf

    for n in ([11000] if tier == "quick" else [10002, 11000, 15000, 40000]) + [rng.randint(2, 3000)]:
        nprs = np.random.RandomState(rng.randint(0, 2**31 - 1))
        x = 283 + 6 * nprs.standard_normal(n)
        p = nprs.uniform(0, 1, 500)
        y = nprs.uniform(x.min(), x.max(), 500)
        with warnings.catch_warnings():
            warnings.simplefilter("ignore")
            e1 = float(np.max(np.abs(ecdf(x, iecdf(x, p, method="linear"), method="linear_interpolation") - p)))
            e2 = float(np.max(np.abs(iecdf(x, ecdf(x, y, method="linear_interpolation"), method="linear") - y)))
        res.count(("utils-inverse", n // 1000), True)
        if e1 > 1e-9 or e2 > 1e-8 * 300:
            problems.append((f"ibicus.utils ecdf(linear_interpolation) / iecdf(linear) are not inverse to each other on a tie-free sample of {n} values "
                             f"(max |ecdf(iecdf(p)) - p| = {e1:.3g}, max |iecdf(ecdf(y)) - y| = {e2:.3g})",
                             {"config": "utils-ecdf-iecdf", "n": n}))


def run(tier, res, force_search=False):
    rng = random.Random(C.seed() * 7919 + 103)
    res.rule = ("tier B: cases = (configuration, stream, three dyadic series) of harness/debiasers_corr; oracle: cases = (configuration, window mode, "
                "year-window mode, spans, spread ratio, shift, numpy seed) from one PRNG (VERIF_SEED); non-trivial when cm_future differs from obs in "
                "mean or spread; distinct = distinct (configuration, window mode, year-window mode, length classes)")
    res.trusted = C.BASE_TRUSTED + [
        "harness/families.py RatSigmoid implements Model.Family.ratSigmoid in numpy floats (tier B of the parametric window functions)",
        "scipy.stats.norm / gamma are assumed to satisfy LocScaleLaws (ppf(cdf(x)) = x, monotone); exercised by the oracle only",
        "the clip mask of parametric QuantileMapping is computed with the real distribution and the real window index sets (C07)",
    ]
    res.notes.append(
        "clauses decided by the oracle on the real code only (the value-level model cannot exhibit them): input dtype conversion in "
        "Debiaser._check_inputs_and_convert_if_possible (the model's values are rationals: there is no dtype; C14 models the check sequence), the "
        "process pool of apply(parallel=True) (chunking / scheduling; C05 models the write-back order), the time-axis encoding (datetime64 / date / "
        "cftime-like objects -> day of year, month, year is trusted calendar arithmetic: the model receives integer codes; probes.check_calendar "
        "compares them with python's datetime on every case), float rounding (tolerances), and a second, different fit of an iteratively "
        "fitted family for equal samples (Family.fit is a function in the model; qm_param_fixed_point_general states exactly that)")
    res.assumptions = [
        "exact rational arithmetic in the theorems; 'up to rounding' is the oracle tolerance 1e-8*max(1,|values|) and the 1e-9 tolerance of the correspondence",
        "tie-free obs and cm_future for CDFt (continuous draws); parametric QM: only values whose cdf lies in [cdf_threshold, 1-cdf_threshold] (NoClip)",
        "QDM relative: positive data at or above the censoring threshold; multiplicative settings: mean(obs) != 0",
        "every calibration window is non-empty (np.mean([]) / a fit of an empty sample is NaN / raises in the code; the theorems carry obs != [])",
        "CDFt with SSR: strictly positive series (no exact zeros), any random draws; gamma / beta families: ppf(cdf(x)) = x on the support is assumed",
        "cm_hist has the dates of obs (it equals obs value for value); calibration series cover whole years in running-window mode",
    ]

    lean_ok = C.lean_phase(res, PROP, GEN, TARGETS)

    # ---- tier B: the window functions of the model against the real per-window code
    n_corr = 6 if tier == "quick" else 60
    mism = correspondence(rng, CORR_CONFIGS, n_corr, tier, res, _hist_is_obs)
    if mism:
        res.tie_broken.append(f"correspondence DrvDebiasers: {len(mism)} mismatches, first: {str(mism[0])[:800]}")
        res.extra["mismatches"] = mism[:10]

    # ---- the property's oracle on the real code
    n_or = 2 * len(ORACLE_CONFIGS) if tier == "quick" else 24 * len(ORACLE_CONFIGS)
    if force_search or not lean_ok or mism:
        n_or *= 3
    problems, skipped, compared = [], 0, 0
    for k in range(n_or):
        name = ORACLE_CONFIGS[k % len(ORACLE_CONFIGS)]
        rec = gen_case(rng, name, tier, k // len(ORACLE_CONFIGS))
        try:
            p, info = run_case(rec)
        except Exception as ex:  # noqa: BLE001
            p, info = f"{name}: {type(ex).__name__}: {str(ex)[:200]}", {}
        skipped += info.get("skipped_clipped", 0)
        compared += info.get("n_fut", 0)
        nontrivial = rec["shift"] != 0.0 or rec["sd_ratio"] != 1.0 or name in MULT
        res.count((name, str(rec["mode"]), str(rec["ymode"]), info.get("n_obs", 0) // 200, info.get("n_fut", 0) // 200), nontrivial,
                  sample={k2: rec[k2] for k2 in ("config", "mode", "ymode", "nyO", "nyF")})
        if p:
            problems.append((p, rec))
        elif info.get("calendar") and not any(r.get("config") == "calendar" for _, r in problems):
            problems.append(("time axis handed to the debiaser: " + info["calendar"], dict(rec, config="calendar", case_config=name)))
    # ... and on thin time axes / very short futures (a chunk of cm_future of exactly one value, ...): `gen_sparse_case`.
    # Its own PRNG stream, so that the regular cases above are the same as before for a given VERIF_SEED.
    import time as _time

    t_sp = _time.time()
    rng_sp = random.Random(C.seed() * 7919 + 104)
    n_sp = (2 if tier == "quick" else 8) * (3 if (force_search or not lean_ok or mism) else 1)
    one_value_chunks = n_sparse_run = 0
    for r in range(n_sp):
        for i, name in enumerate(ORACLE_CONFIGS + EXTRA_CONFIGS):
            if tier == "quick" and r % 2 == 1 and (name in ITER_FIT or name in CENSORED_PR or name == "QDM-relative"):
                continue  # two optimiser fits per window: every other round only (quick wall time)
            rec = gen_sparse_case(rng_sp, name, tier, r + i + C.seed())
            try:
                p, info = run_case(rec)
            except Exception as ex:  # noqa: BLE001  (an exception of the code under test is a violation carrying the recipe)
                p, info = f"{name} (sparse case {rec['sparse']}, sampling {rec['sampling']}, windows {rec['mode']}, year windows {rec['ymode']}): {type(ex).__name__}: {str(ex)[:200]}", {}
            skipped += info.get("skipped_clipped", 0)
            compared += info.get("n_fut", 0)
            one_value_chunks += rec["sparse"] == "one-step"
            n_sparse_run += 1
            res.count(("sparse", name, rec["sparse"], str(rec["sampling"]), str(rec["mode"]), str(rec["ymode"])), True,
                      sample={k2: rec[k2] for k2 in ("config", "sparse", "sampling", "mode", "ymode", "nyO", "nyF")})
            if p:
                problems.append((p, rec))
    # ... and with single fits of 5 000 - 22 000 values for every configuration: `gen_large_case` (own PRNG stream)
    t_lg = _time.time()
    rng_lg = random.Random(C.seed() * 7919 + 105)
    n_lg = (1 if tier == "quick" else 4) * (3 if (force_search or not lean_ok or mism) else 1)
    for r in range(n_lg):
        for i, name in enumerate(ORACLE_CONFIGS + EXTRA_CONFIGS):
            rec = gen_large_case(rng_lg, name, tier, r + i + C.seed())
            try:
                p, info = run_case(rec)
            except Exception as ex:  # noqa: BLE001
                p, info = f"{name} (large sample, windows {rec['mode']}, year windows {rec['ymode']}, {rec['nyO']} years of obs): {type(ex).__name__}: {str(ex)[:200]}", {}
            skipped += info.get("skipped_clipped", 0)
            compared += info.get("n_fut", 0)
            res.count(("large", name, str(rec["mode"]), str(rec["ymode"]), info.get("n_obs", 0) // 2000, info.get("n_fut", 0) // 2000), True,
                      sample={k2: rec[k2] for k2 in ("config", "mode", "ymode", "nyO", "nyF")})
            if p:
                problems.append((p, rec))
    wall_lg = round(_time.time() - t_lg, 2)
    # ... and WITHOUT time information in running-window / year-window mode (the dates are inferred by the library), through
    # `apply_location` and the public `apply`, on series that are not whole years long: `gen_timeless_case` (own PRNG stream).
    # DeltaChange (the clause "returns obs unchanged when cm_future equals cm_hist") occurs twice per round, so that every
    # run holds a DeltaChange call whose model pair has no dates.
    t_tl = _time.time()
    rng_tl = random.Random(C.seed() * 7919 + 106)
    n_tl = (2 if tier == "quick" else 6) * (3 if (force_search or not lean_ok or mism) else 1)
    tl_names = TIMELESS_CONFIGS if tier == "quick" else ORACLE_CONFIGS + EXTRA_CONFIGS
    n_timeless = 0
    for r in range(n_tl):
        for i, name in enumerate(list(tl_names) + ["DC-additive", "DC-multiplicative"]):
            rec = gen_timeless_case(rng_tl, name, tier, r + C.seed() + (1 if i >= len(tl_names) else 0))
            try:
                p, info = run_case(rec)
            except Exception as ex:  # noqa: BLE001  (an exception of the code under test is a violation carrying the recipe)
                left_out = [a for a, om in zip(("time_obs", "time_cm_hist", "time_cm_future"), rec["omit"]) if om]
                p, info = (f"{name} (windows {rec['mode']}, year windows {rec['ymode']}, called through {rec['via']} without {' / '.join(left_out)}, "
                           f"{rec['nO']} / {rec['nF']} steps): {type(ex).__name__}: {str(ex)[:200]}"), {}
            skipped += info.get("skipped_clipped", 0)
            compared += info.get("n_fut", 0)
            n_timeless += 1
            res.count(("timeless", name, str(rec["mode"]), str(rec["ymode"]), str(rec["omit"]), rec["via"]), True,
                      sample={k2: rec[k2] for k2 in ("config", "mode", "ymode", "omit", "via", "nO", "nF")})
            if p:
                problems.append((p, rec))
    # ... and on zero-inflated precipitation (exact zeros next to positive amounts, mm/day and flux magnitudes) through the
    # hurdle-model constructors of parametric QuantileMapping (the documented `pr` default): `gen_precip_case` (own PRNG stream)
    t_pr = _time.time()
    rng_pr = random.Random(C.seed() * 7919 + 107)
    n_pr = (4 if tier == "quick" else 12) * (3 if (force_search or not lean_ok or mism) else 1)
    n_precip = wet_tiny = 0
    for r in range(n_pr):
        for i, name in enumerate(PRECIP_CONFIGS):
            rec = gen_precip_case(rng_pr, name, tier, r + i + C.seed())
            try:
                p, info = run_precip_case(rec)
            except Exception as ex:  # noqa: BLE001  (an exception of the code under test is a violation carrying the recipe)
                p, info = (f"{name} (zero-inflated precipitation, unit {rec['unit']:.3g}, windows {rec['mode']}, via {rec['via']}): "
                           f"{type(ex).__name__}: {str(ex)[:200]}"), {}
            skipped += info.get("skipped_clipped", 0)
            compared += info.get("n_fut", 0)
            n_precip += 1
            wet_tiny += info.get("wet_below_1e-8", 0)
            res.count(("precip", name, str(rec["mode"]), f"{rec['unit']:.3g}", rec["dry"], rec["via"]), True,
                      sample={k2: rec[k2] for k2 in ("config", "mode", "unit", "dry", "shape", "via", "nyO", "nyF")})
            if p:
                problems.append((p, rec))
    res.extra["oracle_precip"] = {"cases": n_precip, "wet_amounts_below_1e-8_compared": wet_tiny, "wall_s": round(_time.time() - t_pr, 2),
                                  "what": "hurdle-model parametric QM / ECDFM on zero-inflated precipitation (exact zeros + gamma amounts + distinct "
                                          "drizzle) in mm/day and kg m-2 s-1; tolerance from an independent reference of the hurdle model"}
    res.extra["oracle_timeless"] = {"cases": n_timeless, "wall_s": round(_time.time() - t_tl, 2),
                                    "what": "running-window / year-window mode with time arrays omitted (inferred dates), via apply_location and apply, "
                                            "400 - 1400 steps (not whole years), given axes starting on any day of the year"}
    res.extra["oracle_large"] = {"cases": n_lg * len(ORACLE_CONFIGS + EXTRA_CONFIGS), "wall_s": wall_lg,
                                 "what": "every configuration with single fits of 5 000 - 22 000 values (14 - 60 years window-free, or 45 - 60 years in a 121 / 181 day window)"}
    res.extra["oracle_sparse"] = {"cases": n_sparse_run, "single_step_futures": one_value_chunks, "wall_s": round(_time.time() - t_sp, 2),
                                  "what": "thin time axes (monthly / dekad / weekly / pentad) and futures of 1-5 steps: chunks of cm_future down to ONE value"}
    res.extra["oracle"] = {"cases": n_or, "steps_compared": compared, "qm_steps_skipped_as_clipped": skipped, "tolerance": "1e-8*max(1,|values|)"}
    try:
        other_pairs_note(rng, res)
    except Exception as ex:  # noqa: BLE001
        problems.append((f"CDFt (non-default ecdf / iecdf pair) raises {type(ex).__name__} on well-formed input: {str(ex)[:200]}", {"config": "cdft-other-pairs"}))
    try:
        utils_inverse_large(rng, tier, res, problems)
    except Exception as ex:  # noqa: BLE001  (a real-code exception on well-formed input is a finding, not a harness crash)
        problems.append((f"ibicus.utils.ecdf / iecdf raise {type(ex).__name__} on a tie-free sample: {str(ex)[:200]}", {"config": "utils-ecdf-iecdf"}))
    # ... and through the process pool, also with fewer cells than worker processes (default nr_processes = 4)
    par = [dict(config="apply/LS-additive/parallel", prop=PROP, debiaser=deb_name, dtypes=["float64"] * 3, shape=shape, n=rng.randint(100, 400),
                np_seed=rng.randint(0, 2**31 - 1), shift=rng.choice([-6.0, 2.0, 10.0]), parallel=True, nr_processes=nproc)
           for deb_name, shape, nproc in [("LS-additive", [1, 1], None), ("ECDFM", [1, 3], None), ("DC-additive", [2, 3], 2)]
           + ([("QM-parametric-additive", [3, 4], 16), ("LS-additive", [2, 2], 3)] if tier != "quick" else [])]
    apply_cases(rng, tier, res, problems, PROP, extra=par)

    seen = set()
    for p, rec in problems:
        key = rec["config"]
        if key in seen:
            continue
        seen.add(key)
        res.violations.append((p, {"property": PROP, "failing_input": rec, "problem": p, "signature": {"config": rec["config"]}}))
    if res.tie_broken and not problems:
        res.violations.append(("proof obligation / correspondence no longer checks: " + "; ".join(res.tie_broken)[:600],
                               {"property": PROP, "failing_input": None, "broken": res.tie_broken}))
    return res


def replay(data):
    rec = data.get("failing_input")
    if not rec:
        print("replay: no failing input recorded (broken tie):", data.get("broken"))
        return 1
    if str(rec.get("config", "")).startswith("apply/"):
        p, info = run_apply_case(rec)
        print("replay", rec["config"], "->", p or "property holds on this input", info)
        return 1 if p else 0
    if rec.get("config") == "calendar":
        p, info = run_case(dict(rec, config=rec["case_config"]))
        p = p or info.get("calendar")
        print("replay calendar ->", p or "property holds on this input")
        return 1 if p else 0
    if rec.get("config") == "utils-ecdf-iecdf":
        import random as _r

        probs = []
        utils_inverse_large(_r.Random(0), "thorough", C.Result(PROP, "quick"), probs)
        print("replay utils ecdf/iecdf ->", probs[0][0] if probs else "property holds")
        return 1 if probs else 0
    try:
        p, info = run_precip_case(rec) if rec.get("precip") else run_case(rec)
    except Exception as ex:  # noqa: BLE001  (the recorded problem of such an input IS the exception of the code under test)
        p, info = f"{type(ex).__name__}: {str(ex)[:200]}", {}
    print("replay", rec["config"], "->", p or "property holds on this input", info)
    return 1 if p else 0
