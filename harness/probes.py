"""
Probe debiasers (subclasses of the real classes whose per-window function is an exactly computable
integer probe) and helpers that run the *real* apply_location / apply through them.
"""
import datetime
import warnings

import attrs
import numpy as np

from harness import common as C


def _classes():
    from ibicus.debias import CDFt, DeltaChange, ISIMIP, QuantileDeltaMapping
    from ibicus.debias._running_window_debiaser import RunningWindowDebiaser

    @attrs.define(slots=False)
    class ProbeRW(RunningWindowDebiaser):
        @classmethod
        def from_variable(cls, variable, **kwargs):
            return cls(**kwargs)

        def apply_on_window(self, obs, cm_hist, cm_future, **kwargs):
            return cm_future + obs.sum() + 2 * cm_hist.sum() + 3 * cm_future.sum()

    @attrs.define(slots=False)
    class ProbeDC(DeltaChange):
        def _apply_on_within_year_window(self, obs, cm_hist, cm_future):
            return obs + 5 * obs.sum() + 2 * cm_hist.sum() + 3 * cm_future.sum()

    @attrs.define(slots=False)
    class ProbeISIMIP(ISIMIP):
        def _apply_on_window(self, obs_hist, cm_hist, cm_future, years_obs_hist=None, years_cm_hist=None, years_cm_future=None):
            return cm_future + obs_hist.sum() + 2 * cm_hist.sum() + 3 * cm_future.sum()

    @attrs.define(slots=False)
    class ProbeCDFt(CDFt):
        def _apply_debiasing_steps(self, obs, cm_hist, cm_future):
            return cm_future + 7 * cm_future.sum()

    @attrs.define(slots=False)
    class ProbeQDM(QuantileDeltaMapping):
        def _get_obs_and_cm_hist_fits(self, obs, cm_hist):
            return (0.0, 1.0), (0.0, 1.0)

        def _apply_debiasing_steps(self, cm_future, fit_obs, fit_cm_hist):
            return cm_future + 7 * cm_future.sum()

    return ProbeRW, ProbeDC, ProbeISIMIP, ProbeCDFt, ProbeQDM


_CACHE = {}


def classes():
    if "c" not in _CACHE:
        _CACHE["c"] = _classes()
    return _CACHE["c"]


def indep_doy(dates):
    """day of year computed independently of ibicus (datetime), for python date objects"""
    return np.array([d.timetuple().tm_yday for d in dates], dtype=int)


class PlainDate:
    """a date type WITHOUT .timetuple (like cftime's): .year/.month/.day, constructor (y, m, d), subtraction -> timedelta.
    ibicus.utils.day_of_year supports such types through `type(x)(year, 1, 1)` and `(x - first).days + 1`."""
    __slots__ = ("_d",)

    def __init__(self, y, m, d):
        self._d = datetime.date(int(y), int(m), int(d))

    year = property(lambda s: s._d.year)
    month = property(lambda s: s._d.month)
    day = property(lambda s: s._d.day)

    def __sub__(self, other):
        return self._d - other._d

    def __repr__(self):
        return f"PlainDate({self._d})"


DATE_KINDS = ("date", "date", "datetime", "datetime_tz", "M8D", "M8h", "M8s", "M8ns", "plain")


def present(dates, kind):
    """the same calendar days in another of the time-array encodings the library accepts (the harness keeps the python
    date objects for its own, independent calendar arithmetic)"""
    if kind == "date":
        return dates
    if kind == "datetime":
        return np.array([datetime.datetime(d.year, d.month, d.day, 12 if i % 2 else 0, 30 if i % 3 else 0) for i, d in enumerate(dates)], dtype=object)
    if kind == "datetime_tz":
        # timezone-aware stamps: local midnight east of UTC / late evening west of UTC (the calendar day is the LOCAL date)
        east = datetime.timezone(datetime.timedelta(hours=2))
        west = datetime.timezone(datetime.timedelta(hours=-5))
        return np.array([datetime.datetime(d.year, d.month, d.day, 0, 0, tzinfo=east) if i % 2 == 0
                         else datetime.datetime(d.year, d.month, d.day, 23, 0, tzinfo=west) for i, d in enumerate(dates)], dtype=object)
    if kind == "plain":
        return np.array([PlainDate(d.year, d.month, d.day) for d in dates], dtype=object)
    unit = kind[2:]
    a = np.array([np.datetime64(d.isoformat()) for d in dates], dtype="datetime64[D]").astype(f"datetime64[{unit}]")
    if unit != "D":
        a = a + np.timedelta64(13, "h").astype(f"timedelta64[{unit}]")  # 13:00, so that truncation to the day matters
    return a


def storage_perm(rng, n):
    """a storage order for a series of n steps: chronological, reversed, shuffled, or interior blocks swapped with the
    first and the last step left in place (so the end points still look like a consecutive daily axis)"""
    kind = rng.choice(["none", "none", "reverse", "shuffle", "inner-blocks"])
    idx = list(range(n))
    if n < 4 or kind == "none":
        return "none", np.array(idx, dtype=int)
    if kind == "reverse":
        return kind, np.array(idx[::-1], dtype=int)
    if kind == "shuffle":
        rng.shuffle(idx)
        return kind, np.array(idx, dtype=int)
    a = rng.randint(1, n - 3)
    b = rng.randint(a + 1, n - 2)
    c = rng.randint(b, n - 2)
    return kind, np.array(idx[:a] + idx[b:c + 1] + idx[a:b] + idx[c + 1:], dtype=int)


def pick_kind(rng):
    return rng.choice(DATE_KINDS)


def check_calendar(dates, problems, what="calendar", presented=None):
    """the library's day_of_year / month / year must agree with the calendar (the model receives these integer codes);
    `presented` = the same days in the encoding actually handed to the library"""
    from ibicus.utils import day_of_year, month, year

    if len(dates) == 0:
        return
    shown = dates if presented is None else presented
    with warnings.catch_warnings():
        warnings.simplefilter("ignore")
        try:
            got = (np.asarray(day_of_year(shown)), np.asarray(month(shown)), np.asarray(year(shown)))
        except Exception as ex:  # noqa: BLE001
            problems.append((f"ibicus.utils day_of_year/month/year raise {type(ex).__name__} on a supported time encoding ({type(shown[0]).__name__}, dtype {getattr(shown, 'dtype', None)}): {str(ex)[:100]}",
                             {"what": what + "/raises", "first": str(dates[0]), "n": int(len(dates)), "encoding": str(getattr(shown, 'dtype', type(shown[0]).__name__))}))
            return
    want = (indep_doy(dates), np.array([d.month for d in dates]), np.array([d.year for d in dates]))
    for name, g, w in zip(("day_of_year", "month", "year"), got, want):
        if g.shape != w.shape or (g != w).any():
            k = int(np.where(g != w)[0][0]) if g.shape == w.shape else 0
            problems.append((f"ibicus.utils.{name} disagrees with the calendar: {dates[k]} -> {g[k] if g.shape == w.shape else g.shape} (calendar: {w[k]})",
                             {"what": what + "/" + name, "date": str(dates[k]), "first": str(dates[0]), "n": int(len(dates)),
                              "encoding": str(getattr(shown, "dtype", "")) + "/" + type(shown[0]).__name__}))
            return


CENTURY_YEARS = (1900, 2100)


BOUNDARY_MD = ((1, 1), (1, 31), (2, 28), (3, 1), (5, 31), (6, 1), (8, 31), (9, 1), (11, 30), (12, 1), (12, 30), (12, 31))


def calendar_correspondence(rng, tier, res, problems=None):
    """tier B for Model.Calendar: the library's day_of_year / month / year / season and the calendar it infers for omitted
    time arrays (create_array_of_consecutive_dates / infer_and_create_time_arrays_if_not_given) against the model (driver
    DrvCalendar), on random and boundary dates in every time encoding the library accepts.  Returns the mismatches."""
    from ibicus.utils import (create_array_of_consecutive_dates, day_of_year, infer_and_create_time_arrays_if_not_given,
                              month, season, year)

    n_rand = 60 if tier == "quick" else 400
    dates = []
    for y in (1900, 2000, 2100, 2024, 2023, rng.randint(1601, 2400), rng.randint(1950, 2100)):
        for (m, d) in BOUNDARY_MD:
            dates.append(datetime.date(y, m, d))
        if y % 4 == 0 and (y % 100 != 0 or y % 400 == 0):
            dates.append(datetime.date(y, 2, 29))
    for _ in range(n_rand):
        dates.append(datetime.date(rng.randint(1601, 2400), 1, 1) + datetime.timedelta(days=rng.randint(0, 364)))
    lines, expect = [], []
    with warnings.catch_warnings():
        warnings.simplefilter("ignore")
        for kind in sorted(set(DATE_KINDS)):
            pool = [d for d in dates if 1700 <= d.year <= 2250] if kind == "M8ns" else dates  # (datetime64[ns] spans 1678..2262)
            raw = np.array(pool if kind in ("date", "M8D") else rng.sample(pool, min(len(pool), 40)), dtype=object)
            shown = present(raw, kind)
            if problems is not None:
                check_calendar(raw, problems, what="calendar", presented=shown)  # (the failing-input search of this tie)
            try:
                got = list(zip(np.asarray(day_of_year(shown)).tolist(), np.asarray(month(shown)).tolist(),
                               np.asarray(year(shown)).tolist(), np.asarray(season(shown)).tolist()))
            except Exception as ex:  # noqa: BLE001
                got = [("error " + type(ex).__name__,) * 4] * len(raw)
            for d0, (gd, gm, gy, gs) in zip(raw, got):
                lines.append(f"date {d0.year} {d0.month} {d0.day}")
                ylen = 366 if (d0.year % 4 == 0 and (d0.year % 100 != 0 or d0.year % 400 == 0)) else 365
                # month / year are echoed from the input by the model: a wrong month()/year() of the library shows as a mismatch
                expect.append(("date/" + kind, str(d0), f"ok {gd} {gs} {ylen}" if (gm, gy) == (d0.month, d0.year) else f"month/year {gm} {gy}"))
                res.count(("calendar", kind, d0.month, d0.day in (1, 28, 29, 30, 31), ylen), True)
        # consecutive days: the array constructor the library uses for inferred calendars
        for _ in range(6 if tier == "quick" else 40):
            start = rng.choice(dates)
            n = rng.choice([1, 2, 59, 60, 366, 367, rng.randint(1, 800)])
            arr = create_array_of_consecutive_dates(n, start_date=np.datetime64(start.isoformat()))
            lines.append(f"run {n} {start.year} {start.month} {start.day}")
            expect.append(("run", f"{n} from {start}", ",".join(f"{d.year}-{d.month}-{d.day}:{int(k)}" for d, k in zip(arr, day_of_year(arr))) if n else "-"))
        for n in (1, 365, 366, 731, rng.randint(2, 1500)):
            o = np.zeros(n)
            tO, tH, tF = infer_and_create_time_arrays_if_not_given(o, o[: max(1, n // 2)], o[: max(1, n // 3)])
            for nn, arr in ((n, tO), (max(1, n // 2), tH), (max(1, n // 3), tF)):
                lines.append(f"inferred {nn}")
                expect.append(("inferred", str(nn), ",".join(f"{d.year}-{d.month}-{d.day}:{int(k)}" for d, k in zip(arr, day_of_year(arr)))))
        for _ in range(10 if tier == "quick" else 60):
            y, k = rng.randint(1601, 2400), rng.randint(1, 365)
            d0 = datetime.date(y, 1, 1) + datetime.timedelta(days=k - 1)
            lines.append(f"ofdoy {y} {k}")
            expect.append(("ofdoy", f"{y} {k}", f"{d0.month} {d0.day}"))
    mismatches = []
    try:
        out = C.run_driver("DrvCalendar", lines)
        for (what, case, exp), got in zip(expect, out):
            res.cov["traces_validated_against_impl"] += 1
            if exp != got:
                mismatches.append({"op": what, "case": case, "impl": exp[:200], "model": got[:200]})
    except (C.DriverError, Exception) as ex:  # noqa: BLE001
        mismatches.append({"op": "driver", "case": "", "impl": "", "model": f"{type(ex).__name__}: {str(ex)[:300]}"})
    return mismatches


def dates_from(start, n):
    return np.array([start + datetime.timedelta(days=k) for k in range(n)], dtype=object)


def small_span(rng, maxn):
    year = rng.randint(1960, 2080) if rng.random() > 0.12 else rng.choice(CENTURY_YEARS) - rng.choice([0, 0, 1])
    start = datetime.date(year, 1, 1) + datetime.timedelta(days=rng.randint(0, 365))
    n = rng.choice([rng.randint(1, 30), rng.randint(31, 200), rng.randint(201, maxn)])
    return dates_from(start, n)


def fmt_out(x):
    return "ok " + (",".join("none" if not np.isfinite(v) else str(int(v)) for v in x) if len(x) else "-")


def run_real(fn):
    with warnings.catch_warnings():
        warnings.simplefilter("ignore")
        try:
            return fmt_out(fn())
        except Exception as ex:  # noqa: BLE001
            return "error " + type(ex).__name__


def expected_by_assignment(kind, probe, deb, o, h, f, dO, dH, dF):
    """what apply_location must return if every step is written once, by the window `use` assigns it to: computed from
    the REAL window classes and the probe window function only (independent of the Lean model)"""
    from ibicus.utils import RunningWindowOverYears, day_of_year, month, year

    with warnings.catch_warnings():
        warnings.simplefilter("ignore")
        if kind in ("rw", "isimip_rw", "dc"):
            w = deb.running_window
            dyO, dyH, dyF = day_of_year(dO), day_of_year(dH), day_of_year(dF)
            tgt_doy, tgt = (dyO, o) if kind == "dc" else (dyF, f)
            out = np.full(tgt.size, np.nan)
            count = np.zeros(tgt.size, dtype=int)
            for c, idx in w.use(tgt_doy):
                iO, iH, iF = (w.get_indices_vals_in_window(d, c) for d in (dyO, dyH, dyF))
                res_w = probe(o[iO], h[iH], f[iF])
                iT = iO if kind == "dc" else iF
                out[idx] = res_w[np.isin(iT, idx)]
                count[idx] += 1
            return out, count
        if kind == "isimip_months":
            mO, mH, mF = month(dO), month(dH), month(dF)
            out = np.full(f.size, np.nan)
            count = np.zeros(f.size, dtype=int)
            for m in range(1, 13):
                out[mF == m] = probe(o[mO == m], h[mH == m], f[mF == m])
                count[mF == m] += 1
            return out, count
        # year windows
        yrs = year(dF)
        w = deb.running_window_over_years_of_cm_future
        out = np.full(f.size, np.nan)
        count = np.zeros(f.size, dtype=int)
        for ya, yw in w.use(yrs):
            mw, ma = np.isin(yrs, yw), np.isin(yrs, ya)
            out[ma] = probe(None, None, f[mw])[np.isin(yrs[mw], ya)]
            count[ma] += 1
        return out, count


PROBE_FN = {
    "rw": lambda o, h, x: x + o.sum() + 2 * h.sum() + 3 * x.sum(),
    "isimip_rw": lambda o, h, x: x + o.sum() + 2 * h.sum() + 3 * x.sum(),
    "isimip_months": lambda o, h, x: x + o.sum() + 2 * h.sum() + 3 * x.sum(),
    "dc": lambda o, h, x: o + 5 * o.sum() + 2 * h.sum() + 3 * x.sum(),
    "cdft_years": lambda o, h, x: x + 7 * x.sum(),
    "qdm_years": lambda o, h, x: x + 7 * x.sum(),
}


def check_assignment(kind, deb, exp, o, h, f, dO, dH, dF, case, problems):
    """compare the real apply_location (already formatted in `exp`) with the assignment-based expectation"""
    if exp.startswith("error"):
        return
    try:
        want, count = expected_by_assignment(kind, PROBE_FN[kind], deb, o, h, f, dO, dH, dF)
    except Exception:  # noqa: BLE001  (the window classes themselves failing is reported elsewhere)
        return
    if (count != 1).any():
        return  # an inexact cover is reported by the cover oracle
    got = fmt_out(want)
    if got != exp:
        a, b = exp[3:].split(","), got[3:].split(",")
        bad = [i for i, (x, y) in enumerate(zip(a, b)) if x != y]
        dates = dO if kind == "dc" else dF
        dates = [getattr(d, "_d", d) for d in dates]
        problems.append((f"{kind}: {len(bad)} time steps hold a value that was not computed by the window they are assigned to "
                         f"(written by another window, or more than once); first {dates[bad[0]] if bad else '?'}",
                         {"what": "apply_location-assignment/" + kind, **case}))


def skeleton_cases(rng, n, tier, res, problems):
    """real apply_location of the probe debiasers vs Model.Skeleton (driver DrvWindows)"""
    from ibicus.utils import day_of_year, month, year

    ProbeRW, ProbeDC, ProbeISIMIP, ProbeCDFt, ProbeQDM = classes()
    lines, expect = [], []
    maxn = 500 if tier == "quick" else 900
    kind_count = {}
    for k in range(n):
        kind = ["rw", "dc", "isimip_rw", "isimip_months", "cdft_years", "qdm_years"][k % 6]
        dO, dH, dF = small_span(rng, maxn), small_span(rng, maxn), small_span(rng, maxn)
        S = rng.choice([1, 3, 5, 9, 31, rng.randint(1, 60)])
        shape_draw, order_draw = rng.random(), rng.random()
        forced_which = None
        nth = kind_count[kind] = kind_count.get(kind, 0) + 1
        if kind in ("rw", "dc", "isimip_rw") and nth <= 4:
            # the first occurrences of each loop are scheduled, not left to chance: turn of the year, then aligned calendars
            # (cm_hist/cm_future, obs/cm_hist, all three), chronological storage
            shape_draw, order_draw = (0.0, 1.0) if nth == 1 else (0.5, 1.0)
            forced_which = {2: "HF", 3: "OH" if kind != "dc" else "OF", 4: "OHF"}.get(nth)
        if shape_draw < 0.45 and kind in ("rw", "dc", "isimip_rw"):
            # deliberately: the corrected series runs over a turn of the year (both ends of the day-of-year range present,
            # first / last windows next to each other circularly) with a step > 1
            yy = rng.randint(1960, 2080)
            startX = datetime.date(yy, 1, 1) + datetime.timedelta(days=rng.randint(300, 364))
            dX = dates_from(startX, rng.choice([rng.randint(40, 120), rng.randint(366, maxn)]))
            if kind == "dc":
                dO = dX
            else:
                dF = dX
            S = rng.choice([5, 9, 15, 31, 7, 13])
        L = S + rng.choice([0, 0, 2, rng.randint(0, 40)])
        if 0.45 <= shape_draw < 0.85 and kind in ("rw", "dc", "isimip_rw"):
            # deliberately: two (or all three) series of EQUAL length starting on the same calendar day of different years,
            # so that their leap days sit at different positions (index sets must not be shared between series)
            nn = rng.randint(1500, 2000)  # more than four years: the day-of-year axes of the aligned series really differ (a 31 Dec of a leap year)
            y1 = rng.choice([1981, 1979, 2051, 1997])
            y2 = y1 + rng.choice([1, 2, 3, 70])
            m0, d0 = rng.randint(1, 12), rng.randint(1, 28)
            which = rng.choice(["HF", "HF", "OH", "OF", "OHF", "OHF"])
            which = forced_which or which
            if "O" in which:
                dO = dates_from(datetime.date(y1, m0, d0), nn)
            if "H" in which:
                dH = dates_from(datetime.date(y2 if "O" in which else y1, m0, d0), nn)
            if "F" in which:
                dF = dates_from(datetime.date(y2 + 1 if which == "OHF" else y2, m0, d0), nn)
        # storage order: the time steps of a series need not be stored chronologically
        orders = []
        if order_draw < 0.34:
            (kO, pO), (kH, pH), (kF, pF) = storage_perm(rng, dO.size), storage_perm(rng, dH.size), storage_perm(rng, dF.size)
            dO, dH, dF = dO[pO], dH[pH], dF[pF]
            orders = [kO, kH, kF]
        nprs = np.random.RandomState(rng.randint(0, 2**31 - 1))
        o = nprs.randint(-9, 10, dO.size).astype(float)
        h = nprs.randint(-9, 10, dH.size).astype(float)
        f = nprs.randint(-9, 10, dF.size).astype(float)
        enc = pick_kind(rng)
        case = {"kind": "skeleton-" + kind, "L": L, "S": S, "startF": str(dF[0]), "nF": int(dF.size), "nO": int(dO.size), "nH": int(dH.size), "time_encoding": enc, "storage_order": orders}
        rawO, rawH, rawF = dO, dH, dF
        if kind not in ("cdft_years", "qdm_years"):
            # the same days in one of the time encodings the library accepts; the calendar is checked independently
            dO, dH, dF = present(rawO, enc), present(rawH, enc), present(rawF, enc)
            for raw, shown in ((rawO, dO), (rawH, dH), (rawF, dF)):
                check_calendar(raw, problems, what="skeleton/calendar", presented=shown)
        with warnings.catch_warnings():
            warnings.simplefilter("ignore")
            doyO, doyH, doyF = day_of_year(dO), day_of_year(dH), day_of_year(dF)
        Ln, Sn = L + (L % 2 == 0), S + (S % 2 == 0)
        if kind == "rw":
            deb = ProbeRW(running_window_mode=True, running_window_length=L, running_window_step_length=S)
            exp = run_real(lambda: deb.apply_location(o, h, f, dO, dH, dF))
            lines.append(f"applyrw {Ln} {Sn} {C.ilist(doyO)} {C.ilist(doyH)} {C.ilist(doyF)} {C.ilist(o)} {C.ilist(h)} {C.ilist(f)}")
        elif kind == "dc":
            deb = ProbeDC(delta_type="additive", running_window_mode=True, running_window_length=L, running_window_step_length=S)
            exp = run_real(lambda: deb.apply_location(o, h, f, dO, dH, dF))
            lines.append(f"applydc {Ln} {Sn} {C.ilist(doyO)} {C.ilist(doyH)} {C.ilist(doyF)} {C.ilist(o)} {C.ilist(h)} {C.ilist(f)}")
        elif kind == "isimip_rw":
            deb = ProbeISIMIP.from_variable("tas", running_window_mode=True, running_window_length=L, running_window_step_length=S)
            exp = run_real(lambda: deb.apply_location(o, h, f, dO, dH, dF))
            lines.append(f"applyrw {Ln} {Sn} {C.ilist(doyO)} {C.ilist(doyH)} {C.ilist(doyF)} {C.ilist(o)} {C.ilist(h)} {C.ilist(f)}")
        elif kind == "isimip_months":
            deb = ProbeISIMIP.from_variable("tas", running_window_mode=False)
            exp = run_real(lambda: deb.apply_location(o, h, f, dO, dH, dF))
            lines.append(f"applymonths {C.ilist(month(dO))} {C.ilist(month(dH))} {C.ilist(month(dF))} {C.ilist(o)} {C.ilist(h)} {C.ilist(f)}")
        else:
            # year windows only (no seasonal window): long future series over several years
            # even and odd lengths / steps alike (an even one is bumped to the next odd number by the window object,
            # while the debiaser keeps the raw attribute), and spans of several steps
            YL, YS = rng.choice([(17, 9), (3, 1), (1, 1), (5, 3), (17, 8), (16, 8), (4, 2), (6, 6), (9, 4),
                                 (rng.randint(1, 12), rng.randint(1, 6)), (rng.randint(1, 12), 2 * rng.randint(1, 4))])
            if YS > YL:
                YL, YS = YS, YL
            yrs = rng.choice([rng.randint(1, 12), rng.randint(2, 5) * (YS + 1) + rng.randint(0, YS)])
            start = datetime.date(rng.randint(1960, 2080), rng.randint(1, 12), rng.randint(1, 28))
            # spread over years: take every ~10th day
            dF = dates_from(start, 366 * yrs)[:: rng.randint(5, 23)]
            kF, pF = storage_perm(rng, dF.size) if order_draw < 0.5 else ("none", np.arange(dF.size))
            dF = dF[pF]
            case["storage_order"] = [kF]
            f = nprs.randint(-9, 10, dF.size).astype(float)
            case.update({"YL": YL, "YS": YS, "nF": int(dF.size), "startF": str(dF[0])})
            rawF = dF
            dO, dH, dF = present(rawO, enc), present(rawH, enc), present(rawF, enc)
            check_calendar(rawF, problems, what="skeleton/calendar", presented=dF)
            cls = ProbeCDFt if kind == "cdft_years" else ProbeQDM
            kw = dict(running_window_mode=False, running_window_mode_over_years_of_cm_future=True,
                      running_window_over_years_of_cm_future_length=YL, running_window_over_years_of_cm_future_step_length=YS)
            deb = cls.from_variable("tas", **kw)
            exp = run_real(lambda: deb.apply_location(o, h, f, dO, dH, dF))
            YLn, YSn = YL + (YL % 2 == 0), YS + (YS % 2 == 0)
            lines.append(f"applyyears {YLn} {YSn} {C.ilist(year(dF))} {C.ilist(f)}")
        expect.append(("skeleton:" + kind, case, exp))
        check_assignment(kind, deb, exp, o, h, f, dO, dH, dF, case, problems)
        if "none" in exp and not exp.startswith("error"):
            problems.append((f"{kind}: real apply_location left {exp.count('none')} time steps unassigned (NaN under the hook)",
                             {"what": "apply_location/" + kind, **case}))
        res.count(("skel", kind, L, S, int(dF.size)), True, sample=case if k < 6 else None)
    return lines, expect


def tas_like(nprs, dates, mean, sd):
    doy = np.array([d.timetuple().tm_yday for d in dates])
    return mean + 8 * np.sin(2 * np.pi * doy / 365.25) + sd * nprs.standard_normal(dates.size)


def window_debiasers(L, S, years_kw=None):
    """the eight debiasers in running-window mode with tas settings"""
    import scipy.stats

    from ibicus.debias import (CDFt, DeltaChange, ECDFM, ISIMIP, LinearScaling, QuantileDeltaMapping,
                               QuantileMapping, ScaledDistributionMapping)

    kw = dict(running_window_mode=True, running_window_length=L, running_window_step_length=S)
    ykw = years_kw or {}
    return {
        "LinearScaling": lambda: LinearScaling.from_variable("tas", **kw),
        "DeltaChange": lambda: DeltaChange.from_variable("tas", **kw),
        "QuantileMapping": lambda: QuantileMapping.from_variable("tas", **kw),
        "ScaledDistributionMapping": lambda: ScaledDistributionMapping.from_variable("tas", **kw),
        "ECDFM": lambda: ECDFM.from_variable("tas", distribution=scipy.stats.norm, **kw),
        "CDFt": lambda: CDFt.from_variable("tas", **kw, **ykw),
        "QuantileDeltaMapping": lambda: QuantileDeltaMapping.from_variable("tas", **kw, **ykw),
        "ISIMIP": lambda: ISIMIP.from_variable("tas", **kw),
    }


def pr_like(nprs, dates, wet=0.45, scale=4.0, shape=0.8):
    """precipitation-like series (mm/day): exact zeros on dry days, gamma amounts with a seasonal cycle on wet days"""
    doy = np.array([d.timetuple().tm_yday for d in dates])
    amounts = nprs.gamma(shape, scale, dates.size) * (1 + 0.5 * np.sin(2 * np.pi * doy / 365.25)) + 0.11
    return np.where(nprs.random_sample(dates.size) < wet, amounts, 0.0)


def window_debiasers_extra(L, S, years_kw=None):
    """further DETERMINISTIC running-window configurations (no random step): multiplicative scaling, the relative SDM, the
    censored-gamma precipitation model (Nelder-Mead fit), other distributions, ISIMIP variables without randomisation.
    name -> (factory, data kind)"""
    import scipy.stats

    from ibicus.debias import (ECDFM, ISIMIP, DeltaChange, LinearScaling, QuantileDeltaMapping, QuantileMapping,
                               ScaledDistributionMapping)

    kw = dict(running_window_mode=True, running_window_length=L, running_window_step_length=S)
    ykw = years_kw or {}
    return {
        "LinearScaling-pr": (lambda: LinearScaling.from_variable("pr", **kw), "pr"),
        "DeltaChange-pr": (lambda: DeltaChange.from_variable("pr", **kw), "pr"),
        "ScaledDistributionMapping-pr": (lambda: ScaledDistributionMapping.from_variable("pr", **kw), "pr"),
        # the censored-gamma model randomises values below its censoring threshold: on all-wet data ("pr_wet") no draw is used
        # and the configuration is deterministic
        "QuantileDeltaMapping-pr": (lambda: QuantileDeltaMapping.from_variable("pr", **kw, **ykw), "pr_wet"),
        "QuantileMapping-pr-censored": (lambda: QuantileMapping.for_precipitation(model_type="censored", **kw), "pr_wet"),
        "ECDFM-pr-censored": (lambda: ECDFM.for_precipitation(model_type="censored", **kw), "pr_wet"),
        "QuantileMapping-gamma": (lambda: QuantileMapping.from_variable("tas", distribution=scipy.stats.gamma, detrending="no_detrending", **kw), "tas"),
        "ISIMIP-psl": (lambda: ISIMIP.from_variable("psl", **kw), "tas"),
        "ISIMIP-rlds": (lambda: ISIMIP.from_variable("rlds", **kw), "tas"),
    }


def debiasers_finite(rng, n, res, problems):
    """the property's consequence on the real debiasers: finite output at every step for finite input"""
    for k in range(n):
        nprs = np.random.RandomState(rng.randint(0, 2**31 - 1))
        year0 = rng.randint(1960, 2080)
        start = datetime.date(year0, 1, 1) + datetime.timedelta(days=rng.choice([0, 0, rng.randint(1, 364)]))
        nyears = rng.choice([1, 2, 3, 5])
        nF = rng.choice([365 * nyears + rng.randint(0, 1), rng.randint(60, 364), 365 * nyears + rng.randint(2, 200)])
        # the series being corrected has the arbitrary calendar span; the two calibration series cover
        # whole years (well-formed input: no calibration window is empty)
        dX = dates_from(start, nF)
        dFull1 = dates_from(datetime.date(year0 - 30, 1, 1), 365 * 3 + 1)
        dFull2 = dates_from(datetime.date(year0 - 10, 1, 1), 365 * 4 + 1)
        S = rng.choice([1, 7, 15, 31, 61, rng.randint(2, 91)])
        L = max(S, 15, rng.choice([31, 61, 91, S]))  # >= 15 samples per window: enough to fit a distribution
        ysl = rng.choice([1, 1, 2, 4])
        ykw = dict(running_window_over_years_of_cm_future_length=max(ysl, rng.choice([17, 3, 1, 4])),
                   running_window_over_years_of_cm_future_step_length=ysl)
        debs = window_debiasers(L, S, ykw)
        names = list(debs) if k % 3 == 0 else rng.sample(list(debs), 3)
        for name in names:
            if name == "DeltaChange":
                dO, dH, dF = dX, dFull1, dFull2
            else:
                dO, dH, dF = dFull1, dFull2, dX
            o, h, f = tas_like(nprs, dO, 283, 3), tas_like(nprs, dH, 285, 4), tas_like(nprs, dF, 287, 4)
            enc = pick_kind(rng)
            case = {"what": "debiaser/" + name, "L": L, "S": S, "start": str(dX[0]), "n": int(nF), "seed": C.seed(), "time_encoding": enc}
            dO, dH, dF = present(dO, enc), present(dH, enc), present(dF, enc)
            with warnings.catch_warnings():
                warnings.simplefilter("ignore")
                try:
                    out = debs[name]().apply_location(o, h, f, dO, dH, dF)
                except Exception as ex:  # noqa: BLE001
                    problems.append((f"{name}: {type(ex).__name__}: {str(ex)[:120]}", case))
                    continue
            exp_n = o.size if name == "DeltaChange" else f.size
            res.count(("deb", name, L, S, nF), True)
            if out.shape != (exp_n,) or not np.isfinite(out).all():
                nbad = int((~np.isfinite(out)).sum()) if out.shape == (exp_n,) else -1
                problems.append((f"{name}: {nbad} non-finite / unassigned output steps for finite input", case))


def leap_day_windows(rng, res, problems):
    """one-day seasonal windows: day 366 exists in leap years only, so the CDFt / QDM loop over the years of the
    future period sees the year set {y0 + 4k}.  Series consist of the last three days of each year."""
    from ibicus.debias import CDFt, LinearScaling, QuantileDeltaMapping

    def last_days(y0, ny):
        return np.array([datetime.date(y, 12, d) for y in range(y0, y0 + ny) for d in (29, 30, 31)], dtype=object)

    nprs = np.random.RandomState(rng.randint(0, 2**31 - 1))
    y0 = rng.choice([1960, 1972, 2001, 2040])
    dO, dH, dF = last_days(y0 - 40, 36), last_days(y0 - 40, 36), last_days(y0, rng.choice([36, 41, 48]))
    o, h, f = 270 + 3 * nprs.standard_normal(dO.size), 272 + 4 * nprs.standard_normal(dH.size), 274 + 4 * nprs.standard_normal(dF.size)
    kw = dict(running_window_mode=True, running_window_length=1, running_window_step_length=1)
    for name, mk in {
        "CDFt": lambda: CDFt.from_variable("tas", **kw),
        "CDFt-17/9": lambda: CDFt.from_variable("tas", running_window_over_years_of_cm_future_length=17, running_window_over_years_of_cm_future_step_length=9, **kw),
        "QuantileDeltaMapping": lambda: QuantileDeltaMapping.from_variable("tas", running_window_over_years_of_cm_future_length=9, running_window_over_years_of_cm_future_step_length=3, **kw),
        "LinearScaling": lambda: LinearScaling.from_variable("tas", **kw),
    }.items():
        case = {"what": "debiaser/" + name + "/leap-day", "first_year": int(dF[0].year), "n_years": int(dF.size // 3), "L": 1, "S": 1}
        with warnings.catch_warnings():
            warnings.simplefilter("ignore")
            try:
                out = mk().apply_location(o, h, f, dO, dH, dF)
            except Exception as ex:  # noqa: BLE001
                problems.append((f"{name}: {type(ex).__name__}: {str(ex)[:120]}", case))
                continue
        res.count(("leap", name, case["first_year"], case["n_years"]), True)
        if out.shape != f.shape or not np.isfinite(out).all():
            bad = np.where(~np.isfinite(out))[0]
            problems.append((f"{name}: {bad.size} unassigned / non-finite steps with one-day windows (first {dF[bad[0]]})", case))


# ------------------------------------------------------------------ C07: the smallest window samples (round 5)
# Quantifier of C07 covered here: "every admissible window length / step length" (in particular ONE-day and ONE-year
# windows), "all consecutive year ranges and the leap-year-only year sets that a one-day window on day 366 selects"
# (in particular the sets of ONE or TWO leap years that a future period of a few years holds), "all series lengths"
# (one to three steps, one step per year ...) -- together: the windows whose sample of the corrected series consists
# of a single time step (or two or three).  A window is never too small to be assigned: whatever the size of its
# sample, the steps it adjusts must be written, by it, once.
def _composed_classes():
    """probe subclasses of the two debiasers that run the loop over year windows INSIDE the loop over day-of-year
    windows; the per-window value depends on all three window samples, so that a wrong sample is visible"""
    if "composed" not in _CACHE:
        from ibicus.debias import CDFt, QuantileDeltaMapping

        @attrs.define(slots=False)
        class ProbeCDFt2(CDFt):
            def _apply_debiasing_steps(self, obs, cm_hist, cm_future):
                return cm_future + obs.sum() + 2 * cm_hist.sum() + 7 * cm_future.sum()

        @attrs.define(slots=False)
        class ProbeQDM2(QuantileDeltaMapping):
            def _get_obs_and_cm_hist_fits(self, obs, cm_hist):
                return (obs.sum(),), (cm_hist.sum(),)

            def _apply_debiasing_steps(self, cm_future, fit_obs, fit_cm_hist):
                return cm_future + fit_obs[0] + 2 * fit_cm_hist[0] + 7 * cm_future.sum()

        _CACHE["composed"] = {"CDFt": ProbeCDFt2, "QuantileDeltaMapping": ProbeQDM2}
    return _CACHE["composed"]


def composed_expected(deb, o, h, f, rawO, rawH, rawF):
    """what apply_location of a (day-of-year windows x year windows) debiaser must return if every step is written once,
    by the pair (day window, year window) that `use` / `use` assign it to, from samples that contain it.  Computed from the
    REAL window classes, the probe function and the harness's own calendar.
    Returns (values, number of writes per step, smallest year-window sample met, membership problems)"""
    # (the window objects exist only when their mode is on)
    w, wy = getattr(deb, "running_window", None), getattr(deb, "running_window_over_years_of_cm_future", None)
    yF = np.array([d.year for d in rawF], dtype=int)
    notes = []
    with warnings.catch_warnings():
        warnings.simplefilter("ignore")
        if deb.running_window_mode:
            dyO, dyH, dyF = indep_doy(rawO), indep_doy(rawH), indep_doy(rawF)
            outer = [(idx, [w.get_indices_vals_in_window(d, c) for d in (dyO, dyH, dyF)]) for c, idx in w.use(dyF)]
        else:
            outer = [(np.arange(f.size), [np.arange(o.size), np.arange(h.size), np.arange(f.size)])]
        out = np.full(f.size, np.nan)
        count = np.zeros(f.size, dtype=int)
        smallest = int(f.size)
        for idx, (iO, iH, iF) in outer:
            base = o[iO].sum() + 2 * h[iH].sum()
            fw, yw = f[iF], yF[iF]
            if not np.isin(idx, iF).all():
                notes.append("a day-of-year window adjusts steps that are not in its own sample")
            if deb.running_window_mode_over_years_of_cm_future:
                res_w = np.full(fw.size, np.nan)
                cnt_w = np.zeros(fw.size, dtype=int)
                for ya, yin in wy.use(yw):
                    mw, ma = np.isin(yw, yin), np.isin(yw, ya)
                    if not np.isin(ya, yin).all():
                        notes.append("a year window adjusts years that are not in its own sample")
                    res_w[ma] = (fw[mw] + base + 7 * fw[mw].sum())[np.isin(yw[mw], ya)]
                    cnt_w[ma] += 1
                    smallest = min(smallest, int(mw.sum()))
            else:
                res_w, cnt_w = fw + base + 7 * fw.sum(), np.ones(fw.size, dtype=int)
                smallest = min(smallest, int(fw.size))
            sel = np.isin(iF, idx)
            out[idx] = res_w[sel]
            count[idx] += cnt_w[sel]
    return out, count, smallest, notes


def gen_small_sample_series(rng):
    """corrected series whose windows hold very few steps: (kind, python dates)"""
    kind = rng.choice(["daily-years", "daily-years", "year-ends", "sparse", "tiny", "subannual"])
    y0 = rng.randint(1960, 2090) if rng.random() > 0.15 else rng.choice(CENTURY_YEARS) - rng.choice([0, 1, 3])
    if kind == "daily-years":
        # whole (or nearly whole) years of daily data over a FEW years: day 366 is present in 0, 1 or 2 of them
        ny = rng.randint(1, 8)
        start = datetime.date(y0, 1, 1) + datetime.timedelta(days=rng.choice([0, 0, rng.randint(1, 364)]))
        dates = dates_from(start, 365 * ny + rng.choice([0, 1, 2, rng.randint(0, 60)]))
        if rng.random() < 0.6:
            # the same, restricted to the last months of the year (fewer windows to run; day 366 is still there)
            m0 = rng.randint(9, 12)
            dates = dates[np.array([d.month >= m0 for d in dates])] if any(d.month >= m0 for d in dates) else dates
    elif kind == "year-ends":
        ny, k = rng.randint(1, 12), rng.randint(1, 4)
        dates = np.array([datetime.date(y, 12, 31) - datetime.timedelta(days=j) for y in range(y0, y0 + ny) for j in reversed(range(k))], dtype=object)
        if rng.random() < 0.4:  # and the first days of the following year
            dates = np.array(sorted(set(dates.tolist()) | {datetime.date(y + 1, 1, 1 + j) for y in range(y0, y0 + ny) for j in range(rng.randint(1, 2))}), dtype=object)
    elif kind == "sparse":
        # one to three steps per year
        ny = rng.randint(1, 10)
        dates = np.array(sorted({datetime.date(y, 1, 1) + datetime.timedelta(days=rng.randint(0, 364)) for y in range(y0, y0 + ny) for _ in range(rng.randint(1, 3))}), dtype=object)
    elif kind == "tiny":
        dates = dates_from(datetime.date(y0, 1, 1) + datetime.timedelta(days=rng.randint(0, 365)), rng.randint(1, 3))
    else:
        dates = dates_from(datetime.date(y0, 1, 1) + datetime.timedelta(days=rng.randint(0, 365)), rng.randint(20, 200))
    return kind, dates


def composed_window_cases(rng, n, res, problems):
    """the REAL apply_location / apply_on_window of CDFt and QuantileDeltaMapping (probe value functions) with the loop over
    year windows running inside the loop over day-of-year windows, on series whose windows hold very few steps:
    every step assigned (finite under the NaN hook), once, with the value of the window pair it is assigned to"""
    cls = _composed_classes()
    for k in range(n):
        name = ("CDFt", "QuantileDeltaMapping")[k % 2]
        kind, rawF = gen_small_sample_series(rng)
        rawO, rawH = small_span(rng, 500), small_span(rng, 500)
        if rng.random() < 0.5:  # calibration series covering whole years
            rawO = dates_from(datetime.date(rng.randint(1950, 2000), 1, 1), 365 * rng.randint(1, 3) + 1)
        L = rng.choice([1, 1, 1, 2, 3, 5, rng.randint(1, 31)])
        S = rng.choice([1, L, rng.randint(1, L)])
        YL, YS = rng.choice([(1, 1), (1, 1), (2, 1), (3, 1), (3, 3), (17, 9), (5, 2), (4, 4), (rng.randint(1, 9), rng.randint(1, 9))])
        if YS > YL:
            YL, YS = YS, YL
        day_mode = rng.random() < 0.8
        year_mode = (not day_mode) or rng.random() < 0.85
        if k < 4:
            # scheduled, not left to chance: one-day windows on a daily series holding exactly ONE leap year (day 366 once), and
            # one-day windows with one-year windows on two whole years -- every year window then holds a single step
            first = rng.choice([2001, 2041, 1897, 2097, 1961])
            kind, rawF = "daily-years", dates_from(datetime.date(first, 1, 1), 365 * (6 if k < 2 else 2) + (1 if k < 2 else 0))
            if k != C.seed() % 4:  # one of the four on the whole years, the others on their last quarter (fewer windows to run)
                rawF = rawF[np.array([d.month >= 10 for d in rawF])]
            L, S, day_mode, year_mode = 1, 1, True, True
            if k >= 2:
                YL, YS = 1, 1
            else:
                YL, YS = rng.choice([(17, 9), (3, 1)])
        kF, pF = storage_perm(rng, rawF.size) if rng.random() < 0.3 else ("none", np.arange(rawF.size))
        rawF = rawF[pF]
        nprs = np.random.RandomState(rng.randint(0, 2**31 - 1))
        o = nprs.randint(-9, 10, rawO.size).astype(float)
        h = nprs.randint(-9, 10, rawH.size).astype(float)
        f = nprs.randint(-9, 10, rawF.size).astype(float)
        enc = pick_kind(rng)
        dO, dH, dF = present(rawO, enc), present(rawH, enc), present(rawF, enc)
        kw = dict(running_window_mode=day_mode, running_window_length=L, running_window_step_length=S,
                  running_window_mode_over_years_of_cm_future=year_mode,
                  running_window_over_years_of_cm_future_length=YL, running_window_over_years_of_cm_future_step_length=YS)
        case = {"what": "composed-windows/" + name, "series": kind, "startF": str(min(rawF)), "nF": int(rawF.size),
                "years_F": [int(min(rawF).year), int(max(rawF).year)], "storage_order": kF,
                "startO": str(rawO[0]), "nO": int(rawO.size), "startH": str(rawH[0]), "nH": int(rawH.size),
                "time_encoding": enc, "case_index": k, "seed": C.seed(), **{a: (bool(b) if isinstance(b, bool) else int(b)) for a, b in kw.items()}}
        check_calendar(rawF, problems, what="composed-windows/calendar", presented=dF)
        with warnings.catch_warnings():
            warnings.simplefilter("ignore")
            try:
                deb = cls[name].from_variable("tas", **kw)
                out = np.asarray(deb.apply_location(o, h, f, dO, dH, dF), dtype=float)
            except Exception as ex:  # noqa: BLE001
                problems.append((f"{name}: {type(ex).__name__}: {str(ex)[:120]} (probe value function; finite well-formed input)", case))
                continue
        try:
            want, count, smallest, notes = composed_expected(deb, o, h, f, rawO, rawH, rawF)
        except Exception as ex:  # noqa: BLE001  (the window classes themselves failing on these year / day lists)
            problems.append((f"{name}: the window classes raise {type(ex).__name__} on the window samples of this series: {str(ex)[:100]}", case))
            continue
        res.count(("composed", name, kind, L, S, YL if year_mode else 0, YS if year_mode else 0, day_mode, min(smallest, 3)), True,
                  sample={**case, "smallest_year_window_sample": smallest} if k < 6 else None)
        dates = [d for d in rawF]
        if out.shape != f.shape:
            problems.append((f"{name}: result of shape {out.shape} for a series of {f.size} steps", case))
            continue
        if not np.isfinite(out).all():
            bad = np.where(~np.isfinite(out))[0]
            problems.append((f"{name}: {bad.size} of {f.size} time steps are never assigned (NaN under the hook) although every step belongs to a window; "
                             f"first {dates[bad[0]]} (smallest window sample of the series: {smallest} step(s))", case))
            continue
        for note in sorted(set(notes)):
            problems.append((f"{name}: {note}", case))
        if (count != 1).any():
            bad = np.where(count != 1)[0]
            problems.append((f"{name}: {bad.size} time steps are assigned {sorted(set(count[bad].tolist()))} times by the window classes (first {dates[bad[0]]})", case))
            continue
        if (out != want).any():
            bad = np.where(out != want)[0]
            problems.append((f"{name}: {bad.size} time steps hold a value that was not computed by the (day window, year window) pair they are "
                             f"assigned to; first {dates[bad[0]]}: {out[bad[0]]} instead of {want[bad[0]]}", case))


def debiasers_small_samples(rng, n, res, problems):
    """the property's consequence (a finite value at every step) on the REAL debiasers at the small end of the admissible
    window lengths: one-day (or few-day) windows over a future period of a few years, so that a window of the corrected
    series holds as many steps as the period has years -- and a single step on day 366 when the period holds one leap year,
    or in every year window of length one.
    Guards (well-formed input): the two calibration series cover 20 whole years (every one-day window holds >= 5 values to
    fit / rank, day 366 included); a debiaser that fits a parametric distribution to the corrected series' own window sample
    (ScaledDistributionMapping, ECDFM) is only run when every such sample holds >= 5 steps."""
    for k in range(n):
        nprs = np.random.RandomState(rng.randint(0, 2**31 - 1))
        y0 = rng.randint(1960, 2080)
        if k % 2 == 0:
            # exactly one leap year among 3..7 whole years; default year windows or short ones
            y0 = y0 - y0 % 4 + 1
            ny = rng.randint(4, 7)
            L, S = rng.choice([(1, 1), (1, 1), (2, 1)])
            ykw = rng.choice([{}, dict(running_window_over_years_of_cm_future_length=3, running_window_over_years_of_cm_future_step_length=1)])
        else:
            ny = rng.randint(1, 8)
            L, S = rng.choice([(1, 1), (1, 1), (3, 1), (3, 3), (5, 5)])
            ysl = rng.choice([1, 1, 3])
            ykw = dict(running_window_over_years_of_cm_future_length=ysl * rng.choice([1, 1, 3]), running_window_over_years_of_cm_future_step_length=ysl)
        dX = dates_from(datetime.date(y0, 1, 1), (datetime.date(y0 + ny, 1, 1) - datetime.date(y0, 1, 1)).days)
        if k % 2 == 0:
            # the last months of each of these years only (a quarter of the windows to run; the calendar span is arbitrary)
            m0 = rng.choice([10, 11, 12])
            dX = dX[np.array([d.month >= m0 for d in dX])]
        dCal = dates_from(datetime.date(y0 - 24, 1, 1), (datetime.date(y0 - 4, 1, 1) - datetime.date(y0 - 24, 1, 1)).days)
        debs = window_debiasers(L, S, ykw)
        # the smallest sample of the corrected series a window holds (harness's own calendar; circular distance L//2 about a present day)
        doyX = indep_doy(dX)
        per_day = np.bincount(doyX, minlength=368)[1:367]
        smallest = int(min(sum(per_day[(d - 1 + j) % 366] for j in range(-(L // 2), L // 2 + 1)) for d in set(doyX.tolist())))
        names = ["LinearScaling", "DeltaChange", "QuantileMapping", "CDFt", "QuantileDeltaMapping"]
        if smallest >= 5:
            names += ["ScaledDistributionMapping", "ECDFM"]
        if k == 0:
            names.append("ISIMIP")
        elif k % 2 == 1:
            names = rng.sample(names, 3)
        for name in names:
            if name == "DeltaChange":
                dO, dH, dF = dX, dCal, dCal
            else:
                dO, dH, dF = dCal, dCal, dX
            o, h, f = tas_like(nprs, dO, 283, 3), tas_like(nprs, dH, 285, 4), tas_like(nprs, dF, 287, 4)
            enc = pick_kind(rng)
            case = {"what": "debiaser-small-samples/" + name, "L": L, "S": S, "year_windows": {a.split("future_")[1]: int(b) for a, b in ykw.items()},
                    "corrected_series": f"{dX[0]} .. {dX[-1]} daily, {dX.size} steps from month {min(d.month for d in dX)} on", "calibration_series": f"{dCal[0]} .. {dCal[-1]} daily",
                    "smallest_window_sample": smallest, "case_index": k, "seed": C.seed(), "time_encoding": enc}
            dO, dH, dF = present(dO, enc), present(dH, enc), present(dF, enc)
            with warnings.catch_warnings():
                warnings.simplefilter("ignore")
                try:
                    out = np.asarray(debs[name]().apply_location(o, h, f, dO, dH, dF))
                except Exception as ex:  # noqa: BLE001
                    problems.append((f"{name}: {type(ex).__name__}: {str(ex)[:120]}", case))
                    continue
            res.count(("deb-small", name, L, S, ny, smallest), True, sample=case if k < 2 else None)
            if out.shape != (dX.size,) or not np.isfinite(out).all():
                bad = np.where(~np.isfinite(out))[0] if out.shape == (dX.size,) else np.array([0])
                problems.append((f"{name}: {bad.size if out.shape == (dX.size,) else -1} of {dX.size} output steps non-finite / unassigned for finite input "
                                 f"(first {dX[bad[0]]}; smallest window sample {smallest} step(s))", case))


# ------------------------------------------------------------------ C07: leap-year-only year sets through ALL eight debiasers (round 7)
# Quantifier of C07 covered here: "all consecutive year ranges AND the leap-year-only year sets that a one-day window on day
# 366 selects" x "all debiasers that use the windows (LinearScaling, DeltaChange, QuantileMapping, SDM, ECDFM, CDFt, QDM,
# ISIMIP)".  A one-day window on day 366 hands EVERY per-window computation a sample whose years are NOT consecutive
# ({y0 + 4k}; a gap of 8 across 1900 / 2100) -- in each of the three series.  Earlier cases ran such samples through CDFt /
# QDM / LinearScaling only, or (ISIMIP) only with a single leap year in the corrected series and by chance of the (L, S) draw;
# whatever a debiaser does per window WITH THE YEARS of its sample (ISIMIP: trend removal / restoration per year in steps 3
# and 7, for every variable that detrends, with and without the significance test, with a significant and an insignificant
# trend; CDFt / QDM: the loop over year windows) must cope with year sets that have gaps: the steps of day 366 are assigned
# like all others, once, and the run returns a finite value at every step.
def leap_year_sets_all_debiasers(rng, n, res, problems):
    """Guards (well-formed input, as DESIGN.md §4 C07): the two calibration series cover >= 20 years (so the window on day 366
    holds >= 4 values, 5 away from a century year); SDM / ECDFM, which fit a distribution to the corrected series' own window
    sample, run only when that sample holds >= 5 steps on every day present."""
    import scipy.stats

    from ibicus.debias import ECDFM, ISIMIP

    def year_ends(y0, ny, kd, m0):
        if m0 is not None:  # whole last months, daily
            return np.array([d for y in range(y0, y0 + ny) for d in dates_from(datetime.date(y, m0, 1), (datetime.date(y + 1, 1, 1) - datetime.date(y, m0, 1)).days)], dtype=object)
        return np.array([datetime.date(y, 12, d) for y in range(y0, y0 + ny) for d in range(32 - kd, 32)], dtype=object)

    def first_year(ny):
        if rng.random() < 0.3:  # the period straddles a century year that is not a leap year (gap of 8 in the leap-year set)
            return rng.choice(CENTURY_YEARS) - rng.randint(1, max(1, ny - 2))
        return rng.randint(1950, 2090)

    for k in range(n):
        nprs = np.random.RandomState(rng.randint(0, 2**31 - 1))
        kd, m0 = rng.choice([(1, None), (2, None), (3, None), (3, None), (0, 12)])
        nyX = rng.choice([rng.randint(8, 12), rng.randint(8, 48), rng.randint(20, 48)])
        nyA, nyB = rng.randint(20, 44), rng.randint(20, 44)
        dX, dA, dB = (year_ends(first_year(ny), ny, kd, m0) for ny in (nyX, nyA, nyB))
        doyX = indep_doy(dX)
        smallest = int(np.bincount(doyX)[np.unique(doyX)].min())  # steps of the corrected series in its smallest one-day window
        leap_years_X = sorted({d.year for d, q in zip(dX, doyX) if q == 366})
        slope = rng.choice([0.0, 0.02, 0.3])  # K per year: trend insignificant / borderline / significant in the regression on annual means
        ysl = rng.choice([1, 2, 3, 9])
        ykw = dict(running_window_over_years_of_cm_future_length=ysl * rng.choice([1, 2, 3]), running_window_over_years_of_cm_future_step_length=ysl)
        kw = dict(running_window_mode=True, running_window_length=1, running_window_step_length=1)
        debs = dict(window_debiasers(1, 1, ykw))
        debs["ISIMIP-psl"] = lambda: ISIMIP.from_variable("psl", **kw)
        debs["ISIMIP-rlds"] = lambda: ISIMIP.from_variable("rlds", **kw)
        debs["ISIMIP-tas-no-significance-test"] = lambda: ISIMIP.from_variable("tas", detrending_with_significance_test=False, **kw)
        debs["ISIMIP-tas-no-detrending"] = lambda: ISIMIP.from_variable("tas", detrending=False, **kw)
        debs["ECDFM-t"] = lambda: ECDFM.from_variable("tas", distribution=scipy.stats.norm, **kw)
        names = [nm for nm in debs if smallest >= 5 or not nm.startswith(("ScaledDistributionMapping", "ECDFM"))]
        if k >= 2:
            names = [nm for nm in names if nm.startswith("ISIMIP")] + rng.sample([nm for nm in names if not nm.startswith("ISIMIP")], 3)
        for name in names:
            if name == "DeltaChange":
                dO, dH, dF = dX, dA, dB
            else:
                dO, dH, dF = dA, dB, dX

            def series(dates, mean, sd):
                return tas_like(nprs, dates, mean, sd) + slope * np.array([d.year - dates[0].year for d in dates], dtype=float)

            o, h, f = series(dO, 283, 3), series(dH, 285, 4), series(dF, 287, 4)
            enc = pick_kind(rng)
            case = {"what": "debiaser-leap-year-sets/" + name, "L": 1, "S": 1, "year_windows": {a.split("future_")[1]: int(b) for a, b in ykw.items()},
                    "series_shape": f"last {kd} day(s) of each year" if m0 is None else f"month {m0} of each year, daily",
                    "obs_years": f"{dO[0].year}..{dO[-1].year}", "cm_hist_years": f"{dH[0].year}..{dH[-1].year}", "cm_future_years": f"{dF[0].year}..{dF[-1].year}",
                    "leap_years_of_corrected_series": leap_years_X, "trend_per_year": slope, "case_index": k, "seed": C.seed(), "time_encoding": enc}
            n_out = dX.size
            dO, dH, dF = present(dO, enc), present(dH, enc), present(dF, enc)
            with warnings.catch_warnings():
                warnings.simplefilter("ignore")
                try:
                    out = np.asarray(debs[name]().apply_location(o, h, f, dO, dH, dF))
                except Exception as ex:  # noqa: BLE001
                    problems.append((f"{name}: {type(ex).__name__}: {str(ex)[:120]} -- no value is returned for any time step (one-day windows; the window on day 366 "
                                     f"holds the leap years only, a window on day 364 / 365 of year-end series the other years only)", case))
                    continue
            res.count(("deb-leap-sets", name, kd, m0, len(leap_years_X), tuple(leap_years_X[:1]), slope), True, sample=case if k < 1 else None)
            if out.shape != (n_out,) or not np.isfinite(out).all():
                bad = np.where(~np.isfinite(out))[0] if out.shape == (n_out,) else np.array([0])
                problems.append((f"{name}: {bad.size if out.shape == (n_out,) else -1} of {n_out} output steps non-finite / unassigned for finite input "
                                 f"(first {dX[bad[0]]}, day of year {int(doyX[bad[0]])})", case))
