/- Line-protocol driver for the window kernels and skeletons (C05–C08, C13). Imports `Model/` only. -/
import IbicusModel.Model.Proto
import IbicusModel.Model.Skeleton

open Proto Model.Windows Model.Skeleton

def ints? := parseList? parseInt?

def probeRW : WinFn Int := fun o h x _ _ _ =>
  .ok (x.map (fun v => v + o.sum + 2 * h.sum + 3 * x.sum))

def probeDC : WinFn Int := fun o h x _ _ _ =>
  .ok (o.map (fun v => v + 5 * o.sum + 2 * h.sum + 3 * x.sum))

def probeYear : YearFn Int := fun x _ => .ok (x.map (fun v => v + 7 * x.sum))

def showRes (r : Except String (List (Option Int))) : String :=
  match r with
  | .ok l => "ok " ++ showOptList toString l
  | .error e => "error " ++ e

def step (line : String) : String :=
  match line.splitOn " " with
  | ["postinit", l, s] => match parseInt? l, parseInt? s with
      | some l, some s => (match postInit l s with
          | .ok (a, b) => s!"ok {a} {b}"
          | .error e => "error " ++ e)
      | _, _ => "bad-op"
  | ["centers", s, doy] => match parseInt? s, ints? doy with
      | some s, some d => showList toString (centers s d)
      | _, _ => "bad-op"
  | ["use", s, doy] => match parseInt? s, ints? doy with
      | some s, some d => showList toString (useCenters s d)
      | _, _ => "bad-op"
  | ["slices", l, s, dO, dH, dF] =>
      -- per centre of `use`: c ; adjust idx ; window idx obs ; window idx hist ; window idx fut   (joined by `|`)
      match parseInt? l, parseInt? s, ints? dO, ints? dH, ints? dF with
      | some l, some s, some dO, some dH, some dF =>
          "|".intercalate ((useCenters s dF).map (fun c =>
            s!"{c};{showList toString (idxAdjust s dF c)};{showList toString (idxWindow l dO c)};{showList toString (idxWindow l dH c)};{showList toString (idxWindow l dF c)}"))
      | _, _, _, _, _ => "bad-op"
  | ["adjust", s, c, doy] => match parseInt? s, parseInt? c, ints? doy with
      | some s, some c, some d => showList toString (idxAdjust s d c)
      | _, _, _ => "bad-op"
  | ["window", l, c, doy] => match parseInt? l, parseInt? c, ints? doy with
      | some l, some c, some d => showList toString (idxWindow l d c)
      | _, _, _ => "bad-op"
  | ["ycenters", s, ys] => match parseInt? s, ints? ys with
      | some s, some y => showList toString (yearCenters s y)
      | _, _ => "bad-op"
  | ["yadj", s, c] => match parseInt? s, parseInt? c with
      | some s, some c => showList toString (yearsAdjusted s c)
      | _, _ => "bad-op"
  | ["ywin", l, c] => match parseInt? l, parseInt? c with
      | some l, some c => showList toString (yearsInWindow l c)
      | _, _ => "bad-op"
  | ["applyrw", l, s, dO, dH, dF, o, h, f] =>
      match parseInt? l, parseInt? s, ints? dO, ints? dH, ints? dF, ints? o, ints? h, ints? f with
      | some l, some s, some dO, some dH, some dF, some o, some h, some f =>
          showRes (applyLocationRW probeRW l s dO dH dF o h f)
      | _, _, _, _, _, _, _, _ => "bad-op"
  | ["applydc", l, s, dO, dH, dF, o, h, f] =>
      match parseInt? l, parseInt? s, ints? dO, ints? dH, ints? dF, ints? o, ints? h, ints? f with
      | some l, some s, some dO, some dH, some dF, some o, some h, some f =>
          showRes (applyLocationDC probeDC l s dO dH dF o h f)
      | _, _, _, _, _, _, _, _ => "bad-op"
  | ["applymonths", mO, mH, mF, o, h, f] =>
      match ints? mO, ints? mH, ints? mF, ints? o, ints? h, ints? f with
      | some mO, some mH, some mF, some o, some h, some f =>
          showRes (applyLocationMonths probeRW mO mH mF o h f)
      | _, _, _, _, _, _ => "bad-op"
  | ["applyyears", l, s, ys, f] =>
      match parseInt? l, parseInt? s, ints? ys, ints? f with
      | some l, some s, some ys, some f => showRes (applyYears probeYear l s ys f)
      | _, _, _, _ => "bad-op"
  | _ => "bad-op"

def main : IO Unit := do loop (← IO.getStdin) step
