/- Line-protocol driver for the bias / trend evaluation formulas (C20) at one location. Imports `Model/` only.
   Columns are rational lists over time; metrics are `higher:t`, `lower:t`, `between:a:b`, `outside:a:b`;
   results are `ok <rat>` or `error <name>` (`div0` = non-finite in the real code). -/
import IbicusModel.Model.Proto
import IbicusModel.Model.Stats
import IbicusModel.Model.Evaluate

open Proto Model.Evaluate

def rats? := parseList? parseRat?
def ints? := parseList? parseInt?

def metric? (s : String) : Option Metric :=
  match s.splitOn ":" with
  | ["higher", t] => (parseRat? t).map .higher
  | ["lower", t] => (parseRat? t).map .lower
  | ["between", a, b] => do let a ← parseRat? a; let b ← parseRat? b; pure (.between a b)
  | ["outside", a, b] => do let a ← parseRat? a; let b ← parseRat? b; pure (.outside a b)
  | _ => none

/-- `np.quantile(x, q, axis=0)` (default method `linear`) on one column -/
def Q (x : List Rat) (q : Rat) : Rat := Model.Stats.quantileLinear (Model.Stats.sortQ x) q

def P (m : Metric) (x : List Rat) (_ : List Int) : Rat := m.prob x

def showR (r : Except String Rat) : String :=
  match r with
  | .ok q => "ok " ++ showRat q
  | .error e => "error " ++ e

def res? (s : String) : Option (Except String Rat) :=
  match s.splitOn ":" with
  | ["ok", v] => (parseRat? v).map .ok
  | ["error", e] => some (.error e)
  | _ => none

def step (line : String) : String :=
  match line.splitOn " " with
  | ["mmean", bt, o, c] => match rats? o, rats? c with
      | some o, some c => showR (marginalMeanBias o c bt) | _, _ => "bad-op"
  | ["mq", bt, q, o, c] => match parseRat? q, rats? o, rats? c with
      | some q, some o, some c => showR (marginalQuantileBias Q q o c bt) | _, _, _ => "bad-op"
  | ["mmet", "percentage", m, o, c] => match metric? m, rats? o, rats? c with
      | some m, some o, some c => showR (marginalMetricsBias (P m) o c [] []) | _, _, _ => "bad-op"
  | ["mmet", "absolute", m, o, c] => match metric? m, rats? o, rats? c with
      | some m, some o, some c => showR (.ok (marginalMetricsAbsoluteBias (P m) o c [] [])) | _, _, _ => "bad-op"
  | ["days", m, ys, x] => match metric? m, ints? ys, rats? x with
      | some m, some ys, some x => showR (.ok (meanYearlyExceedances ys (m.instances x)))
      | _, _, _ => "bad-op"
  | ["yearly", m, ys, x] => match metric? m, ints? ys, rats? x with
      | some m, some ys, some x => showList toString (yearlyExceedances ys (m.instances x))
      | _, _, _ => "bad-op"
  | ["legacydays", m, ys, x] => match metric? m, ints? ys, rats? x with
      | some m, some ys, some x => showList toString (legacyYearlyExceedances ys (m.instances x))
      | _, _, _ => "bad-op"
  | ["tbmean", tt, rv, rf, bv, bf] => match rats? rv, rats? rf, rats? bv, rats? bf with
      | some rv, some rf, some bv, some bf => showR (meanTrendBias tt rv rf bv bf) | _, _, _, _ => "bad-op"
  | ["tbq", tt, q, rv, rf, bv, bf] => match parseRat? q, rats? rv, rats? rf, rats? bv, rats? bf with
      | some q, some rv, some rf, some bv, some bf => showR (quantileTrendBias Q tt q rv rf bv bf) | _, _, _, _, _ => "bad-op"
  | ["tbmet", tt, m, rv, rf, bv, bf] => match metric? m, rats? rv, rats? rf, rats? bv, rats? bf with
      | some m, some rv, some rf, some bv, some bf => showR (metricsTrendBias (P m) tt rv rf bv bf [] []) | _, _, _, _, _ => "bad-op"
  | ["tmean", tt, bv, bf] => match rats? bv, rats? bf with
      | some bv, some bf => showR (meanTrend tt bv bf) | _, _ => "bad-op"
  | ["tq", tt, q, bv, bf] => match parseRat? q, rats? bv, rats? bf with
      | some q, some bv, some bf => showR (quantileTrend Q tt q bv bf) | _, _, _ => "bad-op"
  | ["tmet", tt, m, bv, bf] => match metric? m, rats? bv, rats? bf with
      | some m, some bv, some bf => showR (metricsTrend (P m) tt bv bf [] []) | _, _, _ => "bad-op"
  | ["chi", m1, m2, x1, x2] => match metric? m1, metric? m2, rats? x1, rats? x2 with
      | some m1, some m2, some x1, some x2 => showR (chi (m1.instances x1) (m2.instances x2)) | _, _, _, _ => "bad-op"
  | ["chipct", m1, m2, x1, x2] => match metric? m1, metric? m2, rats? x1, rats? x2 with
      | some m1, some m2, some x1, some x2 => showR (chiPercent (m1.instances x1) (m2.instances x2)) | _, _, _, _ => "bad-op"
  | ["daysm", col, m, yc, yo, xc, xo] => match metric? m, ints? yc, ints? yo, rats? xc, rats? xo with
      | some m, some yc, some yo, some xc, some xo =>
          let d := daysMetrics yc (m.instances xc) yo (m.instances xo)
          (match col with
           | "CM" => showR (.ok d.1) | "Obs" => showR (.ok d.2.1) | "Bias" => showR (.ok d.2.2) | _ => "bad-op")
      | _, _, _, _, _ => "bad-op"
  | ["frame", nk, n] => match nk.toNat?, n.toNat? with
      | some nk, some n =>
          showList (fun r => toString r.1 ++ "." ++ r.2.1) (frameRows (List.range nk) n (fun j => toString j) (fun _ _ => ()))
      | _, _ => "bad-op"
  | ["cov", x, y] => match rats? x, rats? y with
      | some x, some y => showRat (cov x y) ++ ";" ++ showRat (cov x x) ++ ";" ++ showRat (cov y y) | _, _ => "bad-op"
  | ["mse", a, b] => match rats? a, rats? b with
      | some a, some b => showR (mse a b) | _, _ => "bad-op"
  | "grid" :: rs => match rs.mapM res? with
      | some rs =>
          (match gridEval (List.range rs.length) (fun k => rs.getD k (.error "bad")) with
           | .error e => "raise " ++ e
           | .ok out => "values " ++ showList (fun p => match p.2 with | .ok q => showRat q | .error _ => "none") out)
      | none => "bad-op"
  | _ => "bad-op"

def main : IO Unit := do loop (← IO.getStdin) step
