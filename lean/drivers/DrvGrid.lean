/- Line-protocol driver for the grid map (C05, C13). Imports `Model/` only.

   grid <deb|dc> <serial|par> <failsafe 0|1> <nx> <ny> <To> <Th> <Tf> <obs> <hist> <fut> <sched>
        obs / hist / fut: flat C-order integer lists of the `(T, nx, ny)` arrays; sched: completion order of the
        pool's tasks (positions into the argument list), `-` for serial
        -> `ok <flat C-order output, nan = failsafe NaN, unset = never written>` | `error <class>`
   ndindex <nx> <ny> / pairs <nx> <ny>  -> `i:j,i:j,…`
   gridkw <deb|dc> <serial|par> <failsafe> <nx> <ny> <To> <Th> <Tf> <obs> <hist> <fut> <sched> <shift>
        the same through `debiaserApplyKw` / `deltaChangeApplyKw` with the keyword argument `shift`
   gridst <serial|par> <failsafe> <nx> <ny> <To> <Th> <Tf> <obs> <hist> <fut> <s0> <k> <sched>
        the counting probe (instance state = number of calls so far, added to the result; NOT pure) through
        `applySerialSt` / `applyParallelSt` with chunk size k and completion order `sched` of the chunks
        -> `ok <flat output> state <s>` | `error <class>`
   chunks <k> <n>  -> lengths of `chunksOf k (range n)`;   defchunk <n> <p> -> `defaultChunksize n p`
-/
import IbicusModel.Model.Proto
import IbicusModel.Model.Grid

open Proto Model.Grid

def ints? := parseList? parseInt?
def nats? (s : String) : Option (List Nat) := (ints? s).map (fun l => l.map Int.toNat)

/-- position-weighted checksum of a column -/
def wsum (x : List Int) : Int := ((List.range x.length).zip x).foldl (fun acc p => acc + ((p.1 : Int) + 1) * p.2) 0

/-- the probe location function of `harness/gridprobes.py` (`encode`): markers in the first element of the driving column
    select the failure modes (91–95, 98, 99: exceptions of various shapes — only the class name is observable here, the error
    value is abstract in the model), otherwise an encoding of the three columns plus the keyword argument `shift` -/
def probeShift (shift : Int) (drive : List Int) (a b : List Int) : Except String (List Int) :=
  match drive.head? with
  | some 99 => .error "ProbeError"
  | some 98 => .error "ProbeError2"
  | some 95 => .error "AssertionError"
  | some 94 => .error "ProbeError"
  | some 93 => .error "ProbeError2"
  | some 92 => .error "StrRaises"
  | some 91 => .error "ProbeError"
  | some 97 => .ok (List.replicate (drive.length + 1) 0)
  | some 96 => .ok [7]
  | _ => .ok (drive.map (fun v => 1000000 * v + 1000 * wsum a + wsum b + shift))

def probe (drive : List Int) (a b : List Int) : Except String (List Int) := probeShift 0 drive a b

def probeDebKw : LocFnKw Int Int String := fun shift o h x => probeShift shift x o h
def probeDCKw : LocFnKw Int Int String := fun shift o h x => probeShift shift o h x

/-- the counting probe of `harness/gridprobes.CountingProbe`: the number of calls so far is added to the result, and
    incremented by every call (also by one that raises) -/
def counting (obs hist fut : Arr3 Int) : StCell Int Int String :=
  fun s c => (probeShift s (slice fut c.1 c.2) (slice obs c.1 c.2) (slice hist c.1 c.2), s + 1)

def probeDeb : LocFn Int String := fun o h x => probe x o h
def probeDC : LocFn Int String := fun o h x => probe o h x

def unflat (T nx ny : Nat) (l : List Int) : Arr3 Int :=
  (List.range T).map (fun t => (List.range nx).map (fun i => ((l.drop ((t * nx + i) * ny)).take ny)))

def showVal : Elem Int → String
  | none => "unset"
  | some .nan => "nan"
  | some (.val v) => toString v

def showErr : Err String → String
  | .cell e => e
  | .broadcast => "ValueError"
  | .index => "IndexError"
  | .incomplete => "Incomplete"

def showRes (r : Except (Err String) (Arr3 (Elem Int))) : String :=
  match r with
  | .ok a => "ok " ++ showList showVal (a.flatten.flatten)
  | .error e => "error " ++ showErr e

def showResSt (r : Except (Err String) (Arr3 (Elem Int) × Int)) : String :=
  match r with
  | .ok (a, s) => "ok " ++ showList showVal (a.flatten.flatten) ++ " state " ++ toString s
  | .error e => "error " ++ showErr e

def showCells (l : List Cell) : String := showList (fun c => s!"{c.1}:{c.2}") l

def step (line : String) : String :=
  match line.splitOn " " with
  | ["grid", kind, mode, fs, nx, ny, tO, tH, tF, o, h, f, sched] =>
      match nx.toNat?, ny.toNat?, tO.toNat?, tH.toNat?, tF.toNat?, ints? o, ints? h, ints? f, nats? sched with
      | some nx, some ny, some tO, some tH, some tF, some o, some h, some f, some sched =>
          if o.length ≠ tO * nx * ny ∨ h.length ≠ tH * nx * ny ∨ f.length ≠ tF * nx * ny then "bad-op" else
          let obs := unflat tO nx ny o
          let hist := unflat tH nx ny h
          let fut := unflat tF nx ny f
          let failsafe := fs == "1"
          let m? : Option Mode := if mode == "serial" then some .serial else if mode == "par" then some (.parallel sched) else none
          match m?, kind with
          | some m, "deb" => showRes (debiaserApply probeDeb failsafe obs hist fut nx ny m)
          | some m, "dc" => showRes (deltaChangeApply probeDC failsafe obs hist fut nx ny m)
          | _, _ => "bad-op"
      | _, _, _, _, _, _, _, _, _ => "bad-op"
  | ["gridkw", kind, mode, fs, nx, ny, tO, tH, tF, o, h, f, sched, shift] =>
      match nx.toNat?, ny.toNat?, tO.toNat?, tH.toNat?, tF.toNat?, ints? o, ints? h, ints? f, nats? sched, parseInt? shift with
      | some nx, some ny, some tO, some tH, some tF, some o, some h, some f, some sched, some shift =>
          if o.length ≠ tO * nx * ny ∨ h.length ≠ tH * nx * ny ∨ f.length ≠ tF * nx * ny then "bad-op" else
          let obs := unflat tO nx ny o
          let hist := unflat tH nx ny h
          let fut := unflat tF nx ny f
          let m? : Option Mode := if mode == "serial" then some .serial else if mode == "par" then some (.parallel sched) else none
          match m?, kind with
          | some m, "deb" => showRes (debiaserApplyKw probeDebKw shift (fs == "1") obs hist fut nx ny m)
          | some m, "dc" => showRes (deltaChangeApplyKw probeDCKw shift (fs == "1") obs hist fut nx ny m)
          | _, _ => "bad-op"
      | _, _, _, _, _, _, _, _, _, _ => "bad-op"
  | ["gridst", mode, fs, nx, ny, tO, tH, tF, o, h, f, s0, k, sched] =>
      match nx.toNat?, ny.toNat?, tO.toNat?, tH.toNat?, tF.toNat?, ints? o, ints? h, ints? f, parseInt? s0, k.toNat?, nats? sched with
      | some nx, some ny, some tO, some tH, some tF, some o, some h, some f, some s0, some k, some sched =>
          if o.length ≠ tO * nx * ny ∨ h.length ≠ tH * nx * ny ∨ f.length ≠ tF * nx * ny then "bad-op" else
          let st := counting (unflat tO nx ny o) (unflat tH nx ny h) (unflat tF nx ny f)
          if mode == "serial" then showResSt (applySerialSt st (fs == "1") tF nx ny s0)
          else if mode == "par" then showResSt (applyParallelSt st (fs == "1") tF nx ny s0 k sched)
          else "bad-op"
      | _, _, _, _, _, _, _, _, _, _, _ => "bad-op"
  | ["chunks", k, n] => match k.toNat?, n.toNat? with
      | some k, some n => showList toString ((chunksOf k (List.range n)).map List.length)
      | _, _ => "bad-op"
  | ["defchunk", n, p] => match n.toNat?, p.toNat? with
      | some n, some p => toString (defaultChunksize n p)
      | _, _ => "bad-op"
  | ["ndindex", nx, ny] => match nx.toNat?, ny.toNat? with
      | some nx, some ny => showCells (ndindex nx ny)
      | _, _ => "bad-op"
  | ["pairs", nx, ny] => match nx.toNat?, ny.toNat? with
      | some nx, some ny => showCells (pairIndices nx ny)
      | _, _ => "bad-op"
  | _ => "bad-op"

def main : IO Unit := do loop (← IO.getStdin) step
