/-
  Line-protocol driver for `Model/Isimip.lean` (correspondence `harness/isimip_corr.py`, check `ISI`).
  All parametric fits go through the rational test-double family `Model.Isimip.ratSigmoid`.

  cfg token (17 fields, `;` separated):
    trend;npqm;detrending;lower_bound;lower_threshold;upper_bound;upper_threshold;impute;sigtest;only_within;
    freq;ela;ks;ecdf;iecdf;mode;rice[;scale_by_annual_cycle;window_length_annual_cycle]
  (bools `0|1`; bounds `-inf|inf|num/den`; trend `additive|multiplicative|mixed|bounded`; mode `normal|isimipv3.0`)
  oracle token: `sigO sigH sigF ksGood` as four bits, e.g. `0011`.
  function oracles (cos, logit, expit) are sent as tables `inputs outputs` (the recorded float arguments and
  results of the real call); the driver evaluates them by nearest recorded argument.
  Output: `ok …` | `error <name>`; a trailing flag list names near-discontinuities (see `flags` below).
-/
import IbicusModel.Model.Proto
import IbicusModel.Model.Isimip
import IbicusModel.Model.IsimipSession

open Proto Model.Stats Model.Isimip

def rats? := parseList? parseRat?
def ints? := parseList? parseInt?

def bool? : String → Option Bool
  | "0" => some false | "1" => some true | _ => none

def ext? : String → Option ExtRat
  | "-inf" => some .negInf
  | "inf" => some .posInf
  | s => (parseRat? s).map .fin

def ecdfM? : String → Option EcdfMethod
  | "step_function" => some .step
  | "linear_interpolation" => some .linear
  | _ => none

def iecdfM? : String → Option IecdfMethod
  | "inverted_cdf" => some .inverted_cdf
  | "averaged_inverted_cdf" => some .averaged_inverted_cdf
  | "closest_observation" => some .closest_observation
  | "interpolated_inverted_cdf" => some .interpolated_inverted_cdf
  | "hazen" => some .hazen
  | "weibull" => some .weibull
  | "linear" => some .linear
  | "median_unbiased" => some .median_unbiased
  | "normal_unbiased" => some .normal_unbiased
  | _ => none

def trend? : String → Option TrendMethod
  | "additive" => some .additive | "multiplicative" => some .multiplicative
  | "mixed" => some .mixed | "bounded" => some .bounded | _ => none

def mode? : String → Option NpqmMode
  | "normal" => some .normal | "isimipv3.0" => some .isimipv30 | _ => none

def cfg17? (l : List String) : Option Cfg :=
  match l with
  | [tm, npqm, detr, lb, lt, ub, ut, imp, sigt, only, freq, ela, ks, em, im, mode, rice] => do
    pure { trendMethod := ← trend? tm, nonparametricQm := ← bool? npqm, detrending := ← bool? detr,
           lowerBound := ← ext? lb, lowerThreshold := ← ext? lt, upperBound := ← ext? ub, upperThreshold := ← ext? ut,
           imputeMissingValues := ← bool? imp, detrendingWithSignificanceTest := ← bool? sigt,
           trendTransferOnlyWithinThreshold := ← bool? only, biasCorrectFrequencies := ← bool? freq,
           eventLikelihoodAdjustment := ← bool? ela, ksTest := ← bool? ks, ecdfMethod := ← ecdfM? em,
           iecdfMethod := ← iecdfM? im, modeNpqm := ← mode? mode, riceOrWeibull := ← bool? rice }
  | _ => none

/-- 17 fields, optionally followed by `scale_by_annual_cycle_of_upper_bounds;window_length_annual_cycle_of_upper_bounds` -/
def cfg? (s : String) : Option Cfg :=
  let l := s.splitOn ";"
  if l.length = 19 then do
    let c ← cfg17? (l.take 17)
    pure { c with scaleByAnnualCycle := ← bool? (l.getD 17 ""), windowLengthAnnualCycle := ← (l.getD 18 "").toNat? }
  else cfg17? l

def optRats? (s : String) : Option (List (Option Rat)) :=
  parseList? (fun t => if t = "none" then some none else (parseRat? t).map some) s

/-- a function oracle from a recorded table: value at the nearest recorded argument (`scale` converts the model's
    argument into the unit of the recorded one) -/
def tableFn (scale : Rat) (ins outs : List Rat) (t : Rat) : Rat :=
  let x := t * scale
  match ins.zip outs with
  | [] => 0
  | p :: ps => (ps.foldl (fun best q => if Py.absQ (q.1 - x) < Py.absQ (best.1 - x) then q else best) p).2

/-- `np.pi / 8` as the float numpy uses -/
def piOver8 : Rat := (884279719003555 : Rat) / 2251799813685248

def orc? (bits : String) (cosI cosO : List Rat) : Option Oracles :=
  match bits.toList with
  | [a, b, c, d] =>
    let f := fun (ch : Char) => ch == '1'
    some { sigO := f a, sigH := f b, sigF := f c, ksGood := f d, cosPi8 := tableFn piOver8 cosI cosO }
  | _ => none

def out (l : List Rat) : String := showList showRat l

def branchName : Branch → String
  | .allToBounds => "allToBounds" | .noPseudoObs => "noPseudoObs" | .npqm => "npqm"
  | .noneBetween => "noneBetween" | .tooFew => "tooFew" | .fitFailed => "fitFailed"
  | .ksRejected => "ksRejected" | .parametric => "parametric" | .parametricEla => "parametricEla"

def err (e : String) : String := "error " ++ e

/-! ### near-discontinuity flags (the float code may legitimately fall on either side) -/

def eps : Rat := 1 / 100000000000

/-- a computed value sits on a finite threshold -/
def nearThr (c : Cfg) (v : Rat) : Bool :=
  (match c.lowerThreshold with | .fin t => decide (Py.absQ (v - t) ≤ eps * (1 + Py.absQ t)) | _ => false) ||
  (match c.upperThreshold with | .fin t => decide (Py.absQ (v - t) ≤ eps * (1 + Py.absQ t)) | _ => false)

/-- values that were changed by a computation (`new ≠ old`) and sit on a threshold -/
def flagThr (c : Cfg) (old new : List Rat) : Bool :=
  (old.zip new).any (fun p => p.1 != p.2 && nearThr c p.2)

/-- equal computed values whose inputs differ (the sort order of the float values is then arbitrary) -/
def flagCtie (old new : List Rat) : Bool :=
  let s := (new.zip old).mergeSort (fun a b => decide (a.1 ≤ b.1))
  (s.zip s.tail).any (fun p => p.1.1 == p.2.1 && p.1.2 != p.2.2)

/-- `round(n·P)` at an exact half, for the two counts of step 6 -/
def flagHalf (c : Cfg) (obs H F : List Rat) : Bool :=
  (c.hasLowerThreshold && Model.IsimipFreq.nrTie c.biasCorrectFrequencies (maskBeyondLower c obs) (maskBeyondLower c H) (maskBeyondLower c F)) ||
  (c.hasUpperThreshold && Model.IsimipFreq.nrTie c.biasCorrectFrequencies (maskBeyondUpper c obs) (maskBeyondUpper c H) (maskBeyondUpper c F))

/-- `np.isclose(q_cm_hist, q_obs_hist)` of the bounded transfer within `eps` of its tolerance -/
def flagIsclose (c : Cfg) (obs H F : List Rat) : Bool :=
  if c.trendMethod != .bounded then false else
  let (o, h) := if c.trendTransferOnlyWithinThreshold then (valuesBetween c obs, valuesBetween c H) else (obs, H)
  if o.length = 0 || h.length = 0 || F.length = 0 then false else
  let p := ecdf c.ecdfMethod o o
  let qH := iecdf c.iecdfMethod h p
  (o.zip qH).any (fun t =>
    let tol := (1 : Rat) / 100000000 + (1 : Rat) / 100000 * Py.absQ t.1
    decide (Py.absQ (Py.absQ (t.2 - t.1) - tol) ≤ eps * (1 + Py.absQ t.1)))

/-- step 2: equal valid values (their ranks, hence the places of the imputed values, are then the sort's choice;
    equal *interpolated* ranks are handled by the harness' canonicalisation) -/
def flagStep2 (x : List (Option Rat)) : Bool :=
  let valid := x.filterMap id
  decide (valid.length ≥ 2) && decide (valid.length < x.length) && decide (valid.eraseDups.length ≠ valid.length)

/-- step 1: equal scaled values that come from different (value, day of year) pairs — equal in exact arithmetic, an ulp
    apart (or not) in floats -/
def flagScaleTie (vals : List Rat) (doy : List Int) (scaled : List Rat) : Bool :=
  let s := (scaled.zip (vals.zip doy)).mergeSort (fun a b => decide (a.1 ≤ b.1))
  (s.zip s.tail).any (fun p => p.1.1 == p.2.1 && p.1.2 != p.2.2)

def showFlags (fs : List (String × Bool)) : String :=
  let l := (fs.filter (·.2)).map (·.1)
  if l.isEmpty then "-" else ",".intercalate l

def showStep6 (r : Step6Out) : String :=
  s!"{r.nL} {r.nU} {branchName r.branch} {if r.premapped then 1 else 0} {out r.result}"

def elaOracles (o : Oracles) (li lo ei eo : List Rat) (l10 : Rat) : Oracles :=
  { o with logit := tableFn 1 li lo, expit := tableFn 1 ei eo, log10 := l10 }

/-! ### C10: settings of a re-used object after attribute re-assignments (`Model.IsimipSession`) -/

def showExt : ExtRat → String
  | .negInf => "-inf" | .posInf => "inf" | .fin q => showRat q

def showBool (b : Bool) : String := if b then "1" else "0"

def showTrend : TrendMethod → String
  | .additive => "additive" | .multiplicative => "multiplicative" | .mixed => "mixed" | .bounded => "bounded"

def showEcdf : EcdfMethod → String
  | .step => "step_function" | .linear => "linear_interpolation"

def showIecdf : IecdfMethod → String
  | .inverted_cdf => "inverted_cdf" | .averaged_inverted_cdf => "averaged_inverted_cdf"
  | .closest_observation => "closest_observation" | .interpolated_inverted_cdf => "interpolated_inverted_cdf"
  | .hazen => "hazen" | .weibull => "weibull" | .linear => "linear" | .median_unbiased => "median_unbiased"
  | .normal_unbiased => "normal_unbiased"

def showMode : NpqmMode → String
  | .normal => "normal" | .isimipv30 => "isimipv3.0"

/-- the 19-field cfg token (inverse of `cfg?`) -/
def showCfg (c : Cfg) : String :=
  ";".intercalate [showTrend c.trendMethod, showBool c.nonparametricQm, showBool c.detrending, showExt c.lowerBound,
    showExt c.lowerThreshold, showExt c.upperBound, showExt c.upperThreshold, showBool c.imputeMissingValues,
    showBool c.detrendingWithSignificanceTest, showBool c.trendTransferOnlyWithinThreshold, showBool c.biasCorrectFrequencies,
    showBool c.eventLikelihoodAdjustment, showBool c.ksTest, showEcdf c.ecdfMethod, showIecdf c.iecdfMethod,
    showMode c.modeNpqm, showBool c.riceOrWeibull, showBool c.scaleByAnnualCycle, toString c.windowLengthAnnualCycle]

/-- one block `lb,lt,ub,ut,npqm,rice`, each `_` (left alone) or a value -/
def assign? (s : String) : Option Model.IsimipSession.Assign :=
  let opt {α} (p : String → Option α) (t : String) : Option (Option α) := if t = "_" then some none else (p t).map some
  match s.splitOn "," with
  | [lb, lt, ub, ut, npqm, rice] => do
    pure { lowerBound := ← opt ext? lb, lowerThreshold := ← opt ext? lt, upperBound := ← opt ext? ub,
           upperThreshold := ← opt ext? ut, nonparametricQm := ← opt bool? npqm, riceOrWeibull := ← opt bool? rice }
  | _ => none

def step (line : String) : String :=
  match line.splitOn " " with
  | ["assigncfg", c, blocks] =>
    match cfg? c, (if blocks = "-" then some [] else (blocks.splitOn "|").mapM assign?) with
    | some c, some as => "ok " ++ showCfg (Model.IsimipSession.cfgAfter c as)
    | _, _ => "bad-op"
  | ["step3", c, bits, obs, H, F, yO, yH, yF] =>
    match cfg? c, orc? bits [] [], rats? obs, rats? H, rats? F, ints? yO, ints? yH, ints? yF with
    | some c, some o, some obs, some H, some F, some yO, some yH, some yF =>
      let r := step3 c o obs H F yO yH yF
      s!"ok {out r.1} {out r.2.1} {out r.2.2.1} {out r.2.2.2}"
    | _, _, _, _, _, _, _, _ => "bad-op"
  | ["step4", c, obs, H, F, lo, lh, lf, uo, uh, uf] =>
    match cfg? c, rats? obs, rats? H, rats? F, rats? lo, rats? lh, rats? lf, rats? uo, rats? uh, rats? uf with
    | some c, some obs, some H, some F, some lo, some lh, some lf, some uo, some uh, some uf =>
      match step4 c { lowO := lo, lowH := lh, lowF := lf, upO := uo, upH := uh, upF := uf } obs H F with
      | .ok r => s!"ok {out r.1} {out r.2.1} {out r.2.2}"
      | .error e => err e
    | _, _, _, _, _, _, _, _, _, _ => "bad-op"
  | ["step5", c, obs, H, F, ci, co] =>
    match cfg? c, rats? obs, rats? H, rats? F, rats? ci, rats? co with
    | some c, some obs, some H, some F, some ci, some co =>
      match orc? "0001" ci co with
      | some o =>
        match step5 c o obs H F with
        | .ok r => s!"ok {out r} {showFlags [("isclose", flagIsclose c obs H F)]}"
        | .error e => err e
      | none => "bad-op"
    | _, _, _, _, _, _ => "bad-op"
  | ["step6", c, bits, obs, oF, H, F, li, lo, ei, eo, l10] =>
    match cfg? c, orc? bits [] [], rats? obs, rats? oF, rats? H, rats? F, rats? li, rats? lo, rats? ei, rats? eo, parseRat? l10 with
    | some c, some o, some obs, some oF, some H, some F, some li, some lo, some ei, some eo, some l10 =>
      match step6Full c ratSigmoid (elaOracles o li lo ei eo l10) obs oF H F with
      | .ok r => s!"ok {showStep6 r} {showFlags [("half", flagHalf c obs H F)]}"
      | .error e => err e
    | _, _, _, _, _, _, _, _, _, _, _ => "bad-op"
  | ["step7", c, F, tr] =>
    match cfg? c, rats? F, rats? tr with
    | some c, some F, some tr => s!"ok {out (step7 c F tr)}"
    | _, _, _ => "bad-op"
  | ["window", c, bits, obs, H, F, yO, yH, yF, lo, lh, lf, uo, uh, uf, io, ih, iff, ci, co, li, lo', ei, eo, l10] =>
    match cfg? c, optRats? obs, optRats? H, optRats? F, ints? yO, ints? yH, ints? yF with
    | some c, some obsM, some HM, some FM, some yO, some yH, some yF =>
      match rats? lo, rats? lh, rats? lf, rats? uo, rats? uh, rats? uf, rats? ci, rats? co with
      | some lo, some lh, some lf, some uo, some uh, some uf, some ci, some co =>
        match orc? bits ci co, rats? li, rats? lo', rats? ei, rats? eo, parseRat? l10, rats? io, rats? ih, rats? iff with
        | some o, some li, some lo', some ei, some eo, some l10, some io, some ih, some iff =>
          let o := elaOracles o li lo' ei eo l10
          let d : Draws := { lowO := lo, lowH := lh, lowF := lf, upO := uo, upH := uh, upF := uf,
                             impO := io, impH := ih, impF := iff }
          -- the pipeline stage by stage (for the flags and the step-6 trace), cross-checked against `applyOnWindowImpute`
          let staged : Except String (Step6Out × List Rat × String) := do
            let (obs, H, F) ← step2 c d obsM HM FM
            let (o3, h3, f3, tr) := step3 c o obs H F yO yH yF
            let (o4, h4, f4) ← step4 c d o3 h3 f3
            let oF ← step5 c o o4 h4 f4
            let r ← step6Full c ratSigmoid o o4 oF h4 f4
            let flags := showFlags [
              ("half", flagHalf c o4 h4 f4),
              ("isclose", flagIsclose c o4 h4 f4),
              ("thr", flagThr c obs o3 || flagThr c H h3 || flagThr c F f3 || flagThr c o4 oF),
              ("ctie", flagCtie F f3),
              ("ctie2", c.imputeMissingValues && (flagStep2 obsM || flagStep2 HM || flagStep2 FM))]
            pure (r, step7 c r.result tr, flags)
          match staged, applyOnWindowImpute c ratSigmoid o d obsM HM FM yO yH yF with
          | .ok (r, res, flags), .ok res' =>
            if res == res' then s!"ok {out res} {r.nL} {r.nU} {branchName r.branch} {if r.premapped then 1 else 0} {flags}"
            else "selfcheck-fail"
          | .error e, .error e' => if e == e' then err e else "selfcheck-fail"
          | _, _ => "selfcheck-fail"
        | _, _, _, _, _, _, _, _, _ => "bad-op"
      | _, _, _, _, _, _, _, _ => "bad-op"
    | _, _, _, _, _, _, _ => "bad-op"
  | ["step2", c, x, u] =>
    match cfg? c, optRats? x, rats? u with
    | some c, some x, some u =>
      match step2Impute c x u with
      | .ok r =>
        s!"ok {out r} {showFlags [("ctie", flagStep2 x)]}"
      | .error e => err e
    | _, _, _ => "bad-op"
  | ["step1", c, obs, H, F, dO, dH, dF] =>
    match cfg? c, rats? obs, rats? H, rats? F, ints? dO, ints? dH, ints? dF with
    | some c, some obs, some H, some F, some dO, some dH, some dF =>
      match step1 c obs H F dO dH dF with
      | .ok (o, h, f, cyc) => s!"ok {out o} {out h} {out f} {match cyc with | some l => out l | none => "none"}"
      | .error e => err e
    | _, _, _, _, _, _, _ => "bad-op"
  | ["applyloc", mode, c, L, S, dO, dH, dF, mO, mH, mF, yO, yH, yF, obs, H, F] =>
    -- `apply_location` for configurations that need no oracle and no draw (default `Oracles` / `Draws`)
    match cfg? c, parseInt? L, parseInt? S, ints? dO, ints? dH, ints? dF, ints? mO, ints? mH, ints? mF with
    | some c, some L, some S, some dO, some dH, some dF, some mO, some mH, some mF =>
      match ints? yO, ints? yH, ints? yF, rats? obs, rats? H, rats? F with
      | some yO, some yH, some yF, some obs, some H, some F =>
        let r := if mode = "rw" then applyLocationRW c ratSigmoid (fun _ => {}) (fun _ => {}) L S dO dH dF yO yH yF obs H F
                 else applyLocationMonths c ratSigmoid (fun _ => {}) (fun _ => {}) mO mH mF dO dH dF yO yH yF obs H F
        let tie := match step1 c obs H F dO dH dF with
          | .ok (o1, h1, f1, _) => c.scaleByAnnualCycle && (flagScaleTie obs dO o1 || flagScaleTie H dH h1 || flagScaleTie F dF f1)
          | .error _ => false
        match r with
        | .ok v => s!"ok {showOptList showRat v} {showFlags [("ctie", tie)]}"
        | .error e => err e
      | _, _, _, _, _, _ => "bad-op"
    | _, _, _, _, _, _, _, _, _ => "bad-op"
  | ["applylocorc", mode, c, bits, L, S, dO, dH, dF, mO, mH, mF, yO, yH, yF, obs, H, F] =>
    -- `apply_location` with per-window oracle decisions (C06: `detrending = True` on shuffled storage): `bits` is a
    -- comma-separated list of oracle tokens, one per window in loop order (centres of `useCenters` / months 1..12);
    -- the oracles are keyed by the index list of the future window, as in `Model.Isimip.winFn`
    match cfg? c, parseInt? L, parseInt? S, ints? dO, ints? dH, ints? dF, ints? mO, ints? mH, ints? mF with
    | some c, some L, some S, some dO, some dH, some dF, some mO, some mH, some mF =>
      match ints? yO, ints? yH, ints? yF, rats? obs, rats? H, rats? F with
      | some yO, some yH, some yF, some obs, some H, some F =>
        let keys : List (List Nat) :=
          if mode = "rw" then (Model.Windows.useCenters S dF).map (Model.Windows.idxWindow L dF)
          else (Py.arange1 1 13).map (fun m => Py.whereTrue (mF.map (fun x => decide (x = m))))
        let os := (bits.splitOn ",").filterMap (fun b => orc? b [] [])
        if os.length ≠ keys.length then "badkeys" else
        let tbl := keys.zip os
        let orcF : List Nat → Oracles := fun ix =>
          match tbl.find? (fun p => p.1 == ix) with | some p => p.2 | none => {}
        let r := if mode = "rw" then applyLocationRW c ratSigmoid orcF (fun _ => {}) L S dO dH dF yO yH yF obs H F
                 else applyLocationMonths c ratSigmoid orcF (fun _ => {}) mO mH mF dO dH dF yO yH yF obs H F
        -- a rank tie among the detrended future values of some window: numpy's choice inside the tie group is arbitrary
        let tie := match step1 c obs H F dO dH dF with
          | .ok (_, _, f1, _) => keys.any (fun k =>
              let v := (step3RemoveTrend c ((orcF k).sigF) (Model.Skeleton.take f1 k) (Model.Skeleton.take yF k)).1
              c.detrending && v.eraseDups.length ≠ v.length)
          | .error _ => false
        match r with
        | .ok v => s!"ok {showOptList showRat v} {showFlags [("ctie", tie)]}"
        | .error e => err e
      | _, _, _, _, _, _ => "bad-op"
    | _, _, _, _, _, _, _, _, _ => "bad-op"
  | ["step8", c, F, cyc, dF] =>
    match cfg? c, rats? F, (if cyc = "none" then some none else (rats? cyc).map some), ints? dF with
    | some c, some F, some cyc, some dF =>
      match step8 c F cyc dF with
      | .ok r => s!"ok {out r}"
      | .error e => err e
    | _, _, _, _ => "bad-op"
  | _ => "bad-op"

def main : IO Unit := do loop (← IO.getStdin) step
