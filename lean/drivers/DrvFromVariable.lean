/- Line-protocol driver for `Model/FromVariable.lean` (C04: construction sequences). Imports `Model/` only.

   session <code|alias> <general> <table> <before> <var> <kwargs>
        general / kwargs: `k=v;k=v` (`-` = empty); table: `var:k=v;k=v|var:…` (`-` = empty; a variable may have an empty dict `var:`);
        before: comma separated variables constructed first (`-` = none), without keyword arguments
        -> `ok k=v;k=v` (sorted by key) | `none` (no default settings: ValueError)
-/
import IbicusModel.Model.Proto
import IbicusModel.Model.FromVariable

open Proto Model.FromVariable

def dict? (s : String) : Option Settings :=
  if s = "-" ∨ s = "" then some [] else
  (s.splitOn ";").mapM (fun kv => match kv.splitOn "=" with
    | [k, v] => some (k, v)
    | _ => none)

def table? (s : String) : Option (List (String × Settings)) :=
  if s = "-" then some [] else
  (s.splitOn "|").mapM (fun e => match e.splitOn ":" with
    | [v, d] => (dict? d).map (fun d => (v, d))
    | _ => none)

def showDict (d : Settings) : String :=
  let srt := d.mergeSort (fun p q => decide (p.1 ≤ q.1))
  if srt.isEmpty then "-" else ";".intercalate (srt.map (fun p => p.1 ++ "=" ++ p.2))

def step (line : String) : String :=
  match line.splitOn " " with
  | ["session", which, g, t, before, v, kw] =>
    match dict? g, table? t, dict? kw with
    | some g, some t, some kw =>
      let table : String → Option Settings := fun x => (t.find? (fun p => p.1 == x)).map (·.2)
      let bs : List Call := if before = "-" then [] else (before.splitOn ",").map (fun b => { var := b })
      let st := if which = "alias" then aliasingStep table else fromVariableStep table
      match session st g bs { var := v, kwargs := kw } with
      | some p => "ok " ++ showDict p
      | none => "none"
    | _, _, _ => "bad-op"
  | _ => "bad-op"

def main : IO Unit := do
  let h ← IO.getStdin
  loop h step
