/- Line-protocol driver for the derived-variable conversions (C18). Imports `Model/` only.
   Every operation is element-wise on flattened arrays; `none` = the model's `"div0"` (real code: inf/NaN). -/
import IbicusModel.Model.Proto
import IbicusModel.Model.Convert

open Proto Model.Convert

def rats? := parseList? parseRat?

def showE (r : Except String Rat) : String :=
  match r with
  | .ok q => showRat q
  | .error _ => "none"

def outQ (l : List Rat) : String := showList showRat l
def outE (l : List (Except String Rat)) : String := showList showE l

def sameLen (a b c : List Rat) : Bool := a.length == b.length && b.length == c.length

def fn? : String → Option Fn
  | "get_tasrange" => some .tasrange | "get_tasskew" => some .tasskew | "get_tasrange_tasskew" => some .rangeskew
  | "get_tasmin" => some .tasmin | "get_tasmax" => some .tasmax | "get_tasmin_tasmax" => some .minmax
  | "get_prsnratio" => some .prsnratio | "get_prsn" => some .prsn | "get_pr" => some .pr
  | _ => none

def step? (s : String) : Option Step :=
  match s.splitOn "." with
  | ["c", f] => (fn? f).map .call
  | ["m", "shift_t", c] => (parseRat? c).map (fun c => .mod (.shiftT c))
  | ["m", "scale_t", c] => (parseRat? c).map (fun c => .mod (.scaleT c))
  | ["m", "perturb_tas", c] => (parseRat? c).map (fun c => .mod (.perturbTas c))
  | ["m", "swap_content_rs", c] => (parseRat? c).map (fun c => .mod (.scaleRS c))
  | ["m", "scale_pr", c] => (parseRat? c).map (fun c => .mod (.scalePr c))
  | _ => none

def step (line : String) : String :=
  match line.splitOn " " with
  | ["seq", t, a, b, r, s, p, n, q, script] =>
      match rats? t, rats? a, rats? b, rats? r, rats? s, rats? p, rats? n, rats? q, (script.splitOn ";").mapM step? with
      | some t, some a, some b, some r, some s, some p, some n, some q, some sc =>
          "|".intercalate ((run ⟨t, a, b, r, s, p, n, q⟩ sc).map (fun outs => ";".intercalate (outs.map outE)))
      | _, _, _, _, _, _, _, _, _ => "bad-op"
  | ["tasrange", a, b] => match rats? a, rats? b with
      | some a, some b => if a.length == b.length then outQ (map2 getTasrange a b) else "bad-op"
      | _, _ => "bad-op"
  | ["tasskew", t, a, b] => match rats? t, rats? a, rats? b with
      | some t, some a, some b => if sameLen t a b then outE (map3 getTasskew t a b) else "bad-op"
      | _, _, _ => "bad-op"
  | ["tasmin", t, r, s] => match rats? t, rats? r, rats? s with
      | some t, some r, some s => if sameLen t r s then outQ (map3 getTasmin t r s) else "bad-op"
      | _, _, _ => "bad-op"
  | ["tasmax", t, r, s] => match rats? t, rats? r, rats? s with
      | some t, some r, some s => if sameLen t r s then outQ (map3 getTasmax t r s) else "bad-op"
      | _, _, _ => "bad-op"
  | ["tasminmax", t, r, s] => match rats? t, rats? r, rats? s with
      | some t, some r, some s =>
          if sameLen t r s then
            let l := map3 getTasminTasmax t r s
            outQ (l.map (·.1)) ++ ";" ++ outQ (l.map (·.2))
          else "bad-op"
      | _, _, _ => "bad-op"
  | ["rangeskew", t, a, b] => match rats? t, rats? a, rats? b with
      | some t, some a, some b =>
          if sameLen t a b then
            let l := map3 getTasrangeTasskew t a b
            -- the real function computes the range even where the skew is undefined
            outQ (map2 getTasrange a b) ++ ";" ++ outE (l.map (fun r => r.map (·.2)))
          else "bad-op"
      | _, _, _ => "bad-op"
  | ["helper", r, m] => match rats? r, rats? m with
      | some r, some m => if r.length == m.length then outQ (map2 tasmaxFromTasminAndRange r m) else "bad-op"
      | _, _ => "bad-op"
  | ["prsnratio", p, s] => match rats? p, rats? s with
      | some p, some s => if p.length == s.length then outE (map2 getPrsnratio p s) else "bad-op"
      | _, _ => "bad-op"
  | ["pr", s, q] => match rats? s, rats? q with
      | some s, some q => if s.length == q.length then outE (map2 getPr s q) else "bad-op"
      | _, _ => "bad-op"
  | ["prsn", p, q] => match rats? p, rats? q with
      | some p, some q => if p.length == q.length then outQ (map2 getPrsn p q) else "bad-op"
      | _, _ => "bad-op"
  | _ => "bad-op"

def main : IO Unit := do loop (← IO.getStdin) step
