/- Line-protocol driver for the threshold metrics (`Model/Metrics.lean`, C19). Imports `Model/` only.

   all <ty> <T> <I> <J> <data> <grp|none> <years|none> <spec0> <spec1|-> <minlen> <labels|none>
       -> `inst=… | filt=… | prob=… | years=… | annual=… | spells=… | extent=… | clusters=… | pct=… | annualv=… | intensity=… | alias=…`
          or `error ValueError`
   spell <bits>      -> the literal numpy expression          rle <bits> -> the recursive run-length encoder
   unique <ints>     -> np.unique
   fromq <ty> <0|1 time-scoped> <g|l> <T> <I> <J> <data> <grp|none> <q0> <q1> -> `spec0 | spec1` or `error ValueError`
   qcount <sample> <q> -> `Q above below floor tie`
   allperm <perm> <the arguments of all> -> `all` on the arrays re-stored with `reindex perm` (storage-order theorems)
   xfilt <ty> <xs: rat|nan|inf|-inf> <los> <his> -> `bits | np.where(mask, xs, 0) | 1 if finite`   (extended values)
   season <months> -> season codes (`none` for a non-month)
   seq <T> <I> <J> <ty> <spec0> <spec1|-> <grp|none> <data> <op>… -> outputs of the `E` ops joined by `/`
       ops: E | Y@<ty> | H@<spec0>@<spec1|-> | W@<data> | S@<c> | G@<grp|none>     (one metric object used repeatedly)
   data: T·I·J rationals in C order.  spec: `o:g:v`, `o:l:v,…`, `t:g:k=v;…`, `t:l:k=v,…;…`. -/
import IbicusModel.Model.Proto
import IbicusModel.Model.Metrics

open Proto Model.Metrics

def rats? := parseList? parseRat?
def ints? := parseList? parseInt?
def nats? (s : String) : Option (List Nat) := parseList? (fun t => t.toNat?) s

def tyOf? : String → Option ThType
  | "higher" => some .higher
  | "lower" => some .lower
  | "between" => some .between
  | "outside" => some .outside
  | _ => none

def gridOf (a : Array Rat) (I J : Nat) : Data := fun t i j => a.getD ((t * I + i) * J + j) 0
def natGridOf (a : Array Nat) (I J : Nat) : Nat → Nat → Nat → Nat := fun t i j => a.getD ((t * I + i) * J + j) 0
def seriesOf (a : Array Int) : Nat → Int := fun t => a.getD t 0

def parseThr (loc v : String) (J : Nat) : Option Thr :=
  if loc = "g" then (parseRat? v).map .glob
  else if loc = "l" then (rats? v).map (fun l => let a := l.toArray; Thr.loc (fun i j => a.getD (i * J + j) 0))
  else none

def parseSpec (s : String) (J : Nat) : Option Spec :=
  match s.splitOn ":" with
  | ["o", loc, v] => (parseThr loc v J).map .overall
  | ["t", loc, body] => do
      let entries := if body = "-" then [] else body.splitOn ";"
      let kv ← entries.mapM (fun e => match e.splitOn "=" with
        | [k, v] => do
            let k ← parseInt? k
            let v ← parseThr loc v J
            pure (k, v)
        | _ => none)
      pure (.grouped (fun key => (kv.find? (fun p => p.1 == key)).map (fun p => p.2)))
  | _ => none

def tab3 {α} (T I J : Nat) (f : Nat → Nat → Nat → α) : List α :=
  (List.range T).flatMap (fun t => (List.range I).flatMap (fun i => (List.range J).map (fun j => f t i j)))

def tab2 {α} (I J : Nat) (f : Nat → Nat → α) : List α :=
  (List.range I).flatMap (fun i => (List.range J).map (fun j => f i j))

def showOpt (o : Option Rat) : String := match o with | some v => showRat v | none => "nan"

def showThr (I J : Nat) : Thr → String
  | .glob v => showRat v
  | .loc g => showList showRat (tab2 I J g)

def showSpec (lc : String) (keys : List Int) (I J : Nat) : Spec → String
  | .overall v => "o:" ++ lc ++ ":" ++ showThr I J v
  | .grouped f =>
    let es := keys.filterMap (fun k => (f k).map (fun v => toString k ++ "=" ++ showThr I J v))
    "t:" ++ lc ++ ":" ++ (if es.isEmpty then "-" else ";".intercalate es)

def bits? (s : String) : Option (List Bool) :=
  if s = "-" then some [] else s.toList.mapM (fun c => if c = '1' then some true else if c = '0' then some false else none)

def runAll (ty : ThType) (T I J : Nat) (x : Data) (grp : Option (Nat → Int)) (yr : Option (Nat → Int))
    (s0 s1 : Spec) (minLen : Int) (lab : Option (Nat → Nat → Nat → Nat)) : String :=
  let met : Metric := ⟨ty, s0, s1⟩
  match mask met x grp T with
  | .error e => "error " ++ e
  | .ok m0 =>
    -- tabulate the mask once (the model's functions are evaluated many times per entry)
    let ma := (tab3 T I J m0).toArray
    let m : Mask := fun t i j => ma.getD ((t * I + i) * J + j) false
    let instS := String.join ((tab3 T I J (inst m)).map toString)
    let filtS := showList showRat (tab3 T I J (filt x m))
    let probS := showList showRat (tab2 I J (prob m T))
    let (yearsS, annualS, annualvS) := match yr with
      | none => ("skip", "skip", "skip")
      | some yr =>
        let ys := unique (yearList yr T)
        (showList toString ys,
         showList toString (ys.flatMap (fun y => tab2 I J (annualCount m yr T y))),
         showList showRat (ys.flatMap (fun y => tab2 I J (annualValue x m yr T y))))
    let spellS := match spellLengths m T I J minLen with
      | none => "error IndexError"
      | some l => showList toString l
    let extS := showList showRat (spatialExtent m T I J)
    let cluS := match lab with
      | none => "skip"
      | some lab => showList toString (clusterSizes m lab T I J)
    let pctS := ",".intercalate ((tab2 I J (percent x m T)).map showOpt)
    let intS := ",".intercalate ((tab2 I J (intensity x m T)).map showOpt)
    -- the store model with the code's current behaviour (a fresh result buffer)
    let h : Heap := ⟨[x]⟩
    let r := filterStore false h 0 m
    let unchanged := (tab3 T I J (r.1.get 0)) == (tab3 T I J x)
    let aliasS := (if r.2 = 0 then "aliased" else "fresh") ++ (if unchanged then "-unchanged" else "-modified")
    s!"inst={instS} | filt={filtS} | prob={probS} | years={yearsS} | annual={annualS} | spells={spellS} | extent={extS} | clusters={cluS} | pct={pctS} | annualv={annualvS} | intensity={intS} | alias={aliasS}"

def optSeries (s : String) : Option (Option (Nat → Int)) :=
  if s = "none" then some none else (ints? s).map (fun l => some (seriesOf l.toArray))

def xval? (s : String) : Option XVal :=
  if s = "nan" then some .nan else if s = "inf" then some .pinf else if s = "-inf" then some .ninf
  else (parseRat? s).map .fin

def showX : XVal → String
  | .fin q => showRat q
  | .nan => "nan"
  | .pinf => "inf"
  | .ninf => "-inf"

def runAllArgs (perm : Option (List Nat)) (ty t i j data grp yrs s0 s1 ml labs : String) : String :=
  match tyOf? ty, t.toNat?, i.toNat?, j.toNat?, rats? data, optSeries grp, optSeries yrs, parseInt? ml with
  | some ty, some T, some I, some J, some d, some grp, some yr, some ml =>
    match parseSpec s0 J, (if s1 = "-" then parseSpec s0 J else parseSpec s1 J),
          (if labs = "none" then some none else (nats? labs).map (fun l => some (natGridOf l.toArray I J))) with
    | some s0, some s1, some lab =>
      if d.length ≠ T * I * J then "bad-op" else
      match perm with
      | none => runAll ty T I J (gridOf d.toArray I J) grp yr s0 s1 ml lab
      | some p =>
        if p.length ≠ T then "bad-op" else
        runAll ty T I J (reindex p (gridOf d.toArray I J)) (grp.map (reindex p)) (yr.map (reindex p)) s0 s1 ml
          (lab.map (reindex p))
    | _, _, _ => "bad-op"
  | _, _, _, _, _, _, _, _ => "bad-op"

def parseOp (I J : Nat) (tok : String) : Option Op :=
  match tok.splitOn "@" with
  | ["E"] => some .eval
  | ["Y", ty] => (tyOf? ty).map .setType
  | ["H", s0, s1] => do
      let a ← parseSpec s0 J
      let b ← if s1 = "-" then parseSpec s0 J else parseSpec s1 J
      pure (.setThr a b)
  | ["W", d] => (rats? d).map (fun l => .write (gridOf l.toArray I J))
  | ["S", c] => (parseRat? c).map .scale
  | ["G", g] => (optSeries g).map .setTime
  | _ => none

def showEval (T I J : Nat) (r : Except String (Nat → Nat → Nat → Nat)) : String :=
  match r with
  | .error e => "error " ++ e
  | .ok a => "ok:" ++ String.join ((tab3 T I J a).map toString)

def step (line : String) : String :=
  match line.splitOn " " with
  | ["all", ty, t, i, j, data, grp, yrs, s0, s1, ml, labs] => runAllArgs none ty t i j data grp yrs s0 s1 ml labs
  | ["allperm", perm, ty, t, i, j, data, grp, yrs, s0, s1, ml, labs] => match nats? perm with
      | some p => runAllArgs (some p) ty t i j data grp yrs s0 s1 ml labs
      | none => "bad-op"
  | ["xfilt", ty, xs, los, his] => match tyOf? ty, parseList? xval? xs, rats? los, rats? his with
      | some ty, some xs, some los, some his =>
        if los.length ≠ xs.length ∨ his.length ≠ xs.length then "bad-op" else
        let xa := xs.toArray
        let la := los.toArray
        let ha := his.toArray
        let x : Nat → Nat → Nat → XVal := fun t _ _ => xa.getD t .nan
        let m : Mask := fun t _ _ => condX ty (xa.getD t .nan) (la.getD t 0) (ha.getD t 0)
        let out := (List.range xs.length).map (fun t => filtG x m t 0 0)
        String.join ((List.range xs.length).map (fun t => if m t 0 0 then "1" else "0")) ++ " | " ++ showList showX out
          ++ " | " ++ (if out.all XVal.isFin then "1" else "0")
      | _, _, _, _ => "bad-op"
  | ["season", ms] => match ints? ms with
      | some ms => showList (fun o => match o with | some c => toString c | none => "none") (ms.map seasonOfMonth)
      | none => "bad-op"
  | "seq" :: t :: i :: j :: ty :: s0 :: s1 :: grp :: data :: ops =>
      match t.toNat?, i.toNat?, j.toNat?, tyOf? ty, rats? data, optSeries grp with
      | some T, some I, some J, some ty, some d, some grp =>
        match parseSpec s0 J, (if s1 = "-" then parseSpec s0 J else parseSpec s1 J), ops.mapM (parseOp I J) with
        | some s0, some s1, some ops =>
          if d.length ≠ T * I * J then "bad-op" else
          let st : MState := ⟨ty, s0, s1, gridOf d.toArray I J, grp⟩
          let outs := (runOps T st ops).map (showEval T I J)
          if outs.isEmpty then "-" else "/".intercalate outs
        | _, _, _ => "bad-op"
      | _, _, _, _, _, _ => "bad-op"
  | ["spell", b] => match bits? b with
      | some m => (match spellsLiteral m with
          | none => "error IndexError"
          | some l => showList toString l)
      | none => "bad-op"
  | ["rle", b] => match bits? b with
      | some m => showList toString (rle m)
      | none => "bad-op"
  | ["unique", l] => match ints? l with
      | some l => showList toString (unique l)
      | none => "bad-op"
  | ["fromq", ty, sc, lc, t, i, j, data, grp, q0, q1] =>
      match tyOf? ty, t.toNat?, i.toNat?, j.toNat?, rats? data, optSeries grp, parseRat? q0, parseRat? q1 with
      | some ty, some T, some I, some J, some d, some grp, some q0, some q1 =>
        if d.length ≠ T * I * J ∨ (lc ≠ "g" ∧ lc ≠ "l") ∨ (sc ≠ "0" ∧ sc ≠ "1") then "bad-op" else
        let loc : Locality := if lc = "g" then .global else .local
        let keys := match grp with
          | none => []
          | some g => unique (yearList g T)
        match fromQuantile ty (sc = "1") loc (gridOf d.toArray I J) grp T I J q0 q1 with
        | .error e => "error " ++ e
        | .ok met => showSpec lc keys I J met.v0 ++ " | " ++ showSpec lc keys I J met.v1
      | _, _, _, _, _, _, _, _ => "bad-op"
  | ["qcount", xs, q] => match rats? xs, parseRat? q with
      | some xs, some q =>
        let s := Model.Stats.sortQ xs
        let Q := Model.Stats.quantileLinear s q
        let vi := ((xs.length : Rat) - 1) * q
        let above := (xs.filter (fun v => decide (v > Q))).length
        let below := (xs.filter (fun v => decide (v < Q))).length
        s!"{showRat Q} {above} {below} {vi.floor} {if (vi.floor : Rat) = vi then 1 else 0}"
      | _, _ => "bad-op"
  | _ => "bad-op"

def main : IO Unit := do loop (← IO.getStdin) step
