/- Line-protocol driver for the inferred time information (C02: "with explicit or inferred dates"). Imports `Model/` only. -/
import IbicusModel.Model.Proto
import IbicusModel.Model.InferredDates

open Proto Model.InferredDates

def step (line : String) : String :=
  match line.splitOn " " with
  | ["infer", n] => match n.toNat? with
      | some n => s!"{showList toString (inferredYears n)} {showList toString (inferredDoy n)} {showList toString (inferredMonths n)}"
      | none => "bad-op"
  | ["at", k] => match k.toNat? with   -- a single far-away step (century rules)
      | some k => s!"{(dateOf k).1} {(dateOf k).2} {monthOfDoy (isLeap (dateOf k).1) (dateOf k).2}"
      | none => "bad-op"
  | _ => "bad-op"

def main : IO Unit := do
  let stdin ← IO.getStdin
  loop stdin step
