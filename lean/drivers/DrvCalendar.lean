/- Line-protocol driver for the calendar model (C07 / C08 / C19: day of year, season, consecutive days). Imports `Model/` only. -/
import IbicusModel.Model.Proto
import IbicusModel.Model.Calendar

open Proto Model.Calendar

def showDate (p : Int × Nat × Nat) : String := s!"{p.1}-{p.2.1}-{p.2.2}:{dayOfYear p.1 p.2.1 p.2.2}"

def step (line : String) : String :=
  match line.splitOn " " with
  | ["date", y, m, d] => match parseInt? y, m.toNat?, d.toNat? with
      -- day of year, season of the month, length of the year
      | some y, some m, some d =>
          if valid y m d then s!"ok {dayOfYear y m d} {(season m).getD "none"} {yearLen (isLeap y)}" else "invalid"
      | _, _, _ => "bad-op"
  | ["run", n, y, m, d] => match n.toNat?, parseInt? y, m.toNat?, d.toNat? with
      | some n, some y, some m, some d =>
          if valid y m d then showList showDate (run n y m d) else "invalid"
      | _, _, _, _ => "bad-op"
  | ["inferred", n] => match n.toNat? with
      | some n => showList showDate (inferred n)
      | none => "bad-op"
  | ["ofdoy", y, k] => match parseInt? y, k.toNat? with
      | some y, some k =>
          if 1 ≤ k ∧ k ≤ yearLen (isLeap y) then s!"{(ofDoy (isLeap y) k).1} {(ofDoy (isLeap y) k).2}" else "invalid"
      | _, _ => "bad-op"
  | _ => "bad-op"

def main : IO Unit := do loop (← IO.getStdin) step
