/- Line-protocol driver for the input-contract model (C14). Imports `Model/` only.

   check <desc> <desc> <desc>      desc = isNdarray,isMasked,maskAny,dtype(f|i|u),shape(a.b.c or 0 for []),hasInfNan,outOfRange  (booleans as 0/1)
        -> `E <TypeError|ValueError>:<kind>:<arg> | W <warnings>`  or  `OK <conv desc> <conv desc> <conv desc> | W <warnings>`
   output <hasInfNan> <outOfRange> -> `W <warnings>`
   time <deb> <rwMode> <yearMode> nO nH nF tO tH tF -> `ok` / `error ValueError`
   timep <deb> <rwMode> <yearMode> nO nH nF tO tH tF -> the same with partial time information (`-` = array not given)
   class <desc> <desc> <desc> -> TypeError | ValueError | accepted (the contract as a decision, `specClass`)
   consumes-from-sites <deb> <rwMode> <yearMode> -> the same three flags computed from the table of check sites
   outaxis <deb> -> the series whose time axis the result has (obs | cm_future) and 1 iff both dispatch paths use it
   consumes <deb> <rwMode> <yearMode> -> three 0/1 flags
-/
import IbicusModel.Model.Proto
import IbicusModel.Model.Contract

open Proto Model.Contract Model.DebNames

def bool? (s : String) : Option Bool := if s = "1" then some true else if s = "0" then some false else none

def dtype? (s : String) : Option DType :=
  if s = "f" then some .float else if s = "i" then some .intBool else if s = "u" then some .unconvertible else none

def shape? (s : String) : Option (List Nat) :=
  if s = "0" then some [] else (s.splitOn ".").mapM (fun t => t.toNat?)

def desc? (s : String) : Option InputDesc :=
  match s.splitOn "," with
  | [a, b, c, d, e, f, g] => do
      let a ← bool? a; let b ← bool? b; let c ← bool? c; let d ← dtype? d; let e ← shape? e; let f ← bool? f; let g ← bool? g
      some { isNdarray := a, isMasked := b, maskAny := c, dtype := d, shape := e, hasInfNan := f, outOfRange := g }
  | _ => none

def showB (b : Bool) : String := if b then "1" else "0"
def showDType : DType → String | .float => "f" | .intBool => "i" | .unconvertible => "u"
def showShape (l : List Nat) : String := if l.isEmpty then "0" else ".".intercalate (l.map toString)
def showDesc (d : InputDesc) : String :=
  ",".intercalate [showB d.isNdarray, showB d.isMasked, showB d.maskAny, showDType d.dtype, showShape d.shape, showB d.hasInfNan, showB d.outOfRange]

def showKind : Kind → String
  | .isNdarray => "isNdarray" | .floatDtype => "floatDtype" | .ndim3 => "ndim3" | .sameSpatialShape => "sameSpatialShape"
  | .infNan => "infNan" | .outOfRange => "outOfRange" | .masked => "masked"
def showArg : Arg → String
  | .obs => "obs" | .cmHist => "cm_hist" | .cmFuture => "cm_future" | .all => "all" | .output => "output"
def showWarn (w : Warn) : String := showKind w.kind ++ ":" ++ showArg w.arg ++ ":" ++ showB w.flag
def showWarns (l : List Warn) : String := "W " ++ showList showWarn l
def showErr : Err → String
  | .typeError k a => "TypeError:" ++ showKind k ++ ":" ++ showArg a
  | .valueError k a => "ValueError:" ++ showKind k ++ ":" ++ showArg a

def showOutcome (o : Outcome) : String :=
  match o.result with
  | .error e => "E " ++ showErr e ++ " | " ++ showWarns o.warns
  | .ok (a, b, c) => "OK " ++ showDesc a ++ " " ++ showDesc b ++ " " ++ showDesc c ++ " | " ++ showWarns o.warns

def outDesc (a b : Bool) : InputDesc :=
  { isNdarray := true, isMasked := false, maskAny := false, dtype := .float, shape := [1, 1, 1], hasInfNan := a, outOfRange := b }

def step (line : String) : String :=
  match line.splitOn " " with
  | ["check", a, b, c] => match desc? a, desc? b, desc? c with
      | some a, some b, some c => showOutcome (runChecks steps (a, b, c))
      | _, _, _ => "bad-op"
  | ["output", a, b] => match bool? a, bool? b with
      | some a, some b =>
          showWarns (runOutputCheck outputSteps (outDesc a b)).warns
      | _, _ => "bad-op"
  | ["time", d, r, y, nO, nH, nF, tO, tH, tF] =>
      match Deb.ofClassName d, bool? r, bool? y, parseInt? nO, parseInt? nH, parseInt? nF, parseInt? tO, parseInt? tH, parseInt? tF with
      | some d, some r, some y, some nO, some nH, some nF, some tO, some tH, some tF =>
          (match timeOutcome d ⟨r, y⟩ nO nH nF tO tH tF with | .ok _ => "ok" | .error e => "error " ++ e)
      | _, _, _, _, _, _, _, _, _ => "bad-op"
  | ["timep", d, r, y, nO, nH, nF, tO, tH, tF] =>
      let opt? (s : String) : Option (Option Int) := if s = "-" then some none else (parseInt? s).map some
      match Deb.ofClassName d, bool? r, bool? y, parseInt? nO, parseInt? nH, parseInt? nF, opt? tO, opt? tH, opt? tF with
      | some d, some r, some y, some nO, some nH, some nF, some tO, some tH, some tF =>
          (match timeOutcomeP d ⟨r, y⟩ nO nH nF tO tH tF with | .ok _ => "ok" | .error e => "error " ++ e)
      | _, _, _, _, _, _, _, _, _ => "bad-op"
  | ["class", a, b, c] => match desc? a, desc? b, desc? c with
      | some a, some b, some c => (match specClass (a, b, c) with | .typeError => "TypeError" | .valueError => "ValueError" | .accepted => "accepted")
      | _, _, _ => "bad-op"
  | ["consumes-from-sites", d, r, y] => match Deb.ofClassName d, bool? r, bool? y with
      | some d, some r, some y => let (a, b, c) := checkedFromSites timeSites applyLocationOwner d ⟨r, y⟩; showB a ++ showB b ++ showB c
      | _, _, _ => "bad-op"
  | ["outaxis", d] => match Deb.ofClassName d with
      | some d => axisName (outputAxis d) ++ " " ++ (if dispatchAxesOk applyShapes d then "1" else "0")
      | none => "bad-op"
  | ["consumes", d, r, y] => match Deb.ofClassName d, bool? r, bool? y with
      | some d, some r, some y => let (a, b, c) := timeChecked d ⟨r, y⟩; showB a ++ showB b ++ showB c
      | _, _, _ => "bad-op"
  | _ => "bad-op"

def main : IO Unit := do loop (← IO.getStdin) step
