/-
  Line-protocol driver for the layer-N debiaser models (`Model/Debiasers.lean`), all parametric methods
  instantiated with the rational test-double family `ratSigmoid`.

  Output of every op:  `<values> ties=<indices>`  |  `undef`  |  `error <Class>`  |  `bad-op`
  * `<values>`  the model's output (rationals `num/den`; year-window ops: `none` = never written)
  * `ties=`     indices (into the output) of the elements whose *exactly computed* intermediate value sits on a
                discontinuity of the transfer function (step-ecdf knot hit by a computed value, integer virtual
                index of a discontinuous iecdf method, `np.sign` at 0, `round` at .5, `<` with equality on a computed
                value, tied values where an unstable argsort decides).  There the float code may legitimately take
                either side; the harness does not compare these elements and counts them.
  * `ill=`      indices of the elements whose path goes through a cdf value clipped at a *tiny* threshold (`1e-10`):
                the float code evaluates `ppf` there with a cancellation error of relative size ~1e-6 (`1 − |2p − 1|`
                at `p = 1e-10` or `1 − 1e-10`), so the harness compares these elements with a relative tolerance.
  * `undef`     the guard predicate of the definition fails on a quantity that the float code computes exactly as
                well (mean of dyadic inputs = 0, fitted scale = 0): the Python code divides by zero / produces NaN
  * `undef-soft` a *computed* denominator (`ppf_H(τ)`) is exactly zero: the float code may see a tiny non-zero number
-/
import IbicusModel.Model.Proto
import IbicusModel.Model.Debiasers

open Proto Model.Stats Model.Family Model.Debiasers

def rats? := parseList? parseRat?
def ints? := parseList? parseInt?
def nats? (s : String) : Option (List Nat) := parseList? (fun t => t.toNat?) s

def ecdfM? : String → Option EcdfMethod
  | "step_function" => some .step
  | "linear_interpolation" => some .linear
  | _ => none

def iecdfM? : String → Option IecdfMethod
  | "inverted_cdf" => some .inverted_cdf
  | "averaged_inverted_cdf" => some .averaged_inverted_cdf
  | "closest_observation" => some .closest_observation
  | "interpolated_inverted_cdf" => some .interpolated_inverted_cdf
  | "hazen" => some .hazen
  | "weibull" => some .weibull
  | "linear" => some .linear
  | "median_unbiased" => some .median_unbiased
  | "normal_unbiased" => some .normal_unbiased
  | _ => none

def deltaT? : String → Option DeltaType
  | "additive" => some .additive
  | "multiplicative" => some .multiplicative
  | _ => none

def detr? : String → Option Detrending
  | "additive" => some .additive
  | "multiplicative" => some .multiplicative
  | "no_detrending" => some .no_detrending
  | _ => none

def shift? : String → Option DeltaShift
  | "additive" => some .additive
  | "multiplicative" => some .multiplicative
  | "no_shift" => some .no_shift
  | _ => none

def tp? : String → Option TrendPres
  | "absolute" => some .absolute
  | "relative" => some .relative
  | _ => none

def censor? (s : String) : Option (Option Rat) :=
  if s = "none" then some none else (parseRat? s).map some

def bool? : String → Option Bool
  | "0" => some false
  | "1" => some true
  | _ => none

/-! ### output -/

def flagIdx (fl : List Bool) : List Nat := Py.whereTrue fl

def outFI (vals : List Rat) (fl ill : List Bool) : String :=
  showList showRat vals ++ " ties=" ++ showList toString (flagIdx fl) ++ " ill=" ++ showList toString (flagIdx ill)

def outF (vals : List Rat) (fl : List Bool) : String := outFI vals fl []

def noFlags (vals : List Rat) : List Bool := vals.map (fun _ => false)

def rs : Family (Rat × Rat) := ratSigmoid.toFamily

/-! ### decision-boundary events -/

def isInt (q : Rat) : Bool := q.den == 1

/-- a value occurs at least twice in the sample -/
def dup (x : List Rat) (y : Rat) : Bool := decide ((x.filter (fun v => decide (v = y))).length ≥ 2)

/-- ecdf of a *computed* point: the step function jumps at every knot; the linear-interpolation ecdf
    (`np.interp` over the sorted sample) jumps only at a repeated knot -/
def ecdfEvent (m : EcdfMethod) (x : List Rat) (y : Rat) : Bool :=
  match m with
  | .step => x.contains y
  | .linear => dup x y

/-- ecdf of the sample at its own points (the same float array on both sides): only repeated knots of the
    linear-interpolation ecdf are unstable -/
def ecdfSelfEvent (m : EcdfMethod) (x : List Rat) (y : Rat) : Bool :=
  match m with
  | .step => false
  | .linear => dup x y

/-- iecdf at a *computed* probability: the three discontinuous methods jump where their index is an integer
    (`p = 0`, `p = 1` are produced exactly by the float code as well) -/
def iecdfEvent (m : IecdfMethod) (n : Nat) (q : Rat) : Bool :=
  if q = 0 ∨ q = 1 then false
  else match m with
    | .inverted_cdf => isInt (((n : Rat) - 1) * q)
    | .averaged_inverted_cdf => isInt ((n : Rat) * q - 1)
    | .closest_observation => isInt ((n : Rat) * q - 3 / 2)
    | _ => false

/-- the same for a probability that the float code computes from *rounded* knots (histogram edges of a shifted
    sample): the index only has to be within `1e-7` of an integer -/
def nearInt (q : Rat) : Bool := decide (Py.absQ (q - ((q + 1 / 2).floor : Rat)) < 1 / 10000000)

def iecdfEventNear (m : IecdfMethod) (n : Nat) (q : Rat) : Bool :=
  if q = 0 ∨ q = 1 then false
  else match m with
    | .inverted_cdf => nearInt (((n : Rat) - 1) * q)
    | .averaged_inverted_cdf => nearInt ((n : Rat) * q - 1)
    | .closest_observation => nearInt ((n : Rat) * q - 3 / 2)
    | _ => false

def orL (a b : List Bool) : List Bool := List.zipWith (fun x y => x || y) a b

/-- a raw cdf value that `threshold_cdf_vals` moves, for a tiny threshold -/
def clipTiny (t c : Rat) : Bool := decide (t < 1 / 1000000) && (decide (c < t) || decide (c > 1 - t))

/-! ### per-op values and flags -/

def qmNonparamFlags (d : Detrending) (obs H F : List Rat) : List Bool :=
  let vals : List Rat := match d with
    | .additive => F.map (fun x => x - (mean F - mean H))
    | .multiplicative => F.map (fun x => x / (mean F / mean H))
    | .no_detrending => F
  vals.map (fun v =>
    (d != .no_detrending && H.contains v) || iecdfEvent .inverted_cdf obs.length (ecdfStep1 H v))

def qmParamIll (t : Rat) (d : Detrending) (_obs H F : List Rat) : List Bool :=
  let vals : List Rat := match d with
    | .additive => F.map (fun x => x - (mean F - mean H))
    | .multiplicative => F.map (fun x => x / (mean F / mean H))
    | .no_detrending => F
  vals.map (fun v => clipTiny t (rs.cdf (rs.fit H) v))

def ecdfmIll (t : Rat) (F : List Rat) : List Bool := F.map (fun x => clipTiny t (rs.cdf (rs.fit F) x))

def qdmIll (em : EcdfMethod) (t : Rat) (F : List Rat) : List Bool := F.map (fun x => clipTiny t (ecdf1 em F x))

def qdmFlags (tp : TrendPres) (em : EcdfMethod) (t : Rat) (c : Option Rat) (F : List Rat) (fo fh : Rat × Rat) :
    List Bool :=
  F.map (fun x =>
    ecdfSelfEvent em F x ||
      (match c with
       | none => false
       | some thr => decide (qdmCore rs tp fo fh x (thresholdCdf t (ecdf1 em F x)) = thr)))

def sdmAbsFlags (obs _H F : List Rat) : List Bool :=
  let cO := sdmAbsCdfIntpol ratSigmoid obs F.length
  let sortedFlags := cO.map (fun c => decide (c = 1 / 2))
  let fd := detrendConst F
  let back := (rankOf fd).map (fun i => sortedFlags.getD i false)
  orL back (F.map (dup F))

def sdmAbsIll (obs H F : List Rat) : List Bool :=
  let t := defaultCdfThreshold
  let raw (x : List Rat) : List Rat := let xd := detrendConst x; xd.map (ratSigmoid.cdf (ratSigmoid.fit xd))
  let anyOH := ((raw obs) ++ (raw H)).any (clipTiny t)
  let cO := sdmAbsCdfIntpol ratSigmoid obs F.length
  let cH := sdmAbsCdfIntpol ratSigmoid H F.length
  let cF := sdmAbsCdfFut ratSigmoid F
  let fd := detrendConst F
  let rawF := takeIdx (raw F) (argsort fd)
  let sortedIll := List.zipWith (fun (co : Rat) (p : Rat × Rat × Rat) =>
      let riS := max 1 (sdmRecurrAbs co * sdmRecurrAbs p.2.1 / sdmRecurrAbs p.1)
      anyOH || clipTiny t p.2.2 || clipTiny t (1 / 2 + signQ (co - 1 / 2) * Py.absQ (1 / 2 - 1 / riS)))
    cO (cH.zip (cF.zip rawF))
  (rankOf fd).map (fun i => sortedIll.getD i false)

def sdmRelIll (thr t : Rat) (obs H F : List Rat) : List Bool :=
  let rO := rainy thr (sortQ obs)
  let rH := rainy thr (sortQ H)
  let fS := takeIdx F (argsort F)
  let rF := rainy thr fS
  let raw (r : List Rat) : List Rat := r.map (rs.cdf (rs.fit r))
  let anyOH := ((raw rO) ++ (raw rH)).any (clipTiny t)
  let cF := sdmRelCdf rs t rF
  let cO := interpOnLength (sdmRelCdf rs t rO) cF.length
  let cH := interpOnLength (sdmRelCdf rs t rH) cF.length
  let illBc := List.zipWith (fun (co : Rat) (p : Rat × Rat × Rat) =>
      let riS := max 1 (sdmRecurrRel co * sdmRecurrRel p.2.1 / sdmRecurrRel p.1)
      anyOH || clipTiny t p.2.2 || clipTiny defaultCdfThreshold (1 - 1 / riS))
    cO (cH.zip (cF.zip (raw rF)))
  let expected := sdmRelExpected rF.length rO.length obs.length rH.length H.length
  let sortedIll := List.replicate (fS.length - expected) false ++ illBc.drop (illBc.length - expected)
  (rankOf F).map (fun i => sortedIll.getD i false)

def sdmRelFlags (thr : Rat) (obs H F : List Rat) : List Bool :=
  let rO := rainy thr (sortQ obs)
  let rH := rainy thr (sortQ H)
  let rF := rainy thr (sortQ F)
  let a := sdmRelExpectedArg rF.length rO.length obs.length rH.length H.length
  let half := decide (a - (a.floor : Rat) = 1 / 2)
  F.map (fun x => half || (decide (x ≥ thr) && dup F x))

/-- `iecdf` methods that return an element of the sample unchanged (no arithmetic on the values) -/
def iecdfSelects (m : IecdfMethod) : Bool :=
  match m with
  | .inverted_cdf => true
  | .closest_observation => true
  | _ => false

def cdftFlags (ssr : Bool) (d : DeltaShift) (em : EcdfMethod) (im : IecdfMethod) (obs H F u : List Rat) :
    List Bool :=
  let b := if ssr then ssrBefore obs H F u else (obs, H, F, 0)
  let obs' := b.1
  let HF := cdftShifted d obs' b.2.1 b.2.2.1
  let H' := HF.1
  let F' := HF.2
  let thr := b.2.2.2
  F'.map (fun x =>
    let p1 := ecdf1 em F' x
    let y := iecdf1 im obs' p1
    let p2 := ecdf1 em H' y
    let o := iecdf1 im F' p2
    -- without a shift and with a selecting iecdf, `y` / `o` are input values: comparisons with them are exact
    -- in the float code as well (no flag, so that `<` / `≤` slips at knots and at the SSR threshold stay visible)
    let exact := d == .no_shift && iecdfSelects im
    ecdfSelfEvent em F' x || iecdfEvent im obs'.length p1 || (ecdfEvent em H' y && !(exact && em == .step))
      || iecdfEvent im F'.length p2 || (ssr && decide (o = thr) && !exact))

/-- year-window ops: flags travel through the same skeleton as 0/1 values -/
def boolsToRat (l : List Bool) : List Rat := l.map (fun b => if b then 1 else 0)

def outYears (r : Except String (List (Option Rat))) (fl : Except String (List (Option Rat)))
    (ill : Except String (List (Option Rat)) := .ok []) : String :=
  match r, fl, ill with
  | .ok v, .ok f, .ok i =>
    showOptList showRat v ++ " ties=" ++
      showList toString (Py.whereTrue (f.map (fun o => decide (o = some 1)))) ++ " ill=" ++
      showList toString (Py.whereTrue (i.map (fun o => decide (o = some 1))))
  | .error e, _, _ => "error " ++ e
  | _, .error e, _ => "error " ++ e
  | _, _, .error e => "error " ++ e

/-- split the concatenated draws of the year windows: window `k` consumes `|obs| + |H| + |F_window k|` draws -/
def drawsByCentre (L S : Int) (years : List Int) (nO nH : Nat) (u : List Rat) : Int → List Rat :=
  let cs := Model.Windows.yearCenters S years
  let sizes := cs.map (fun c =>
    nO + nH + (Py.whereTrue (Model.Windows.yearMask years (Model.Windows.yearsInWindow L c))).length)
  let table := (cs.zip sizes).foldl
    (fun (acc : List (Int × List Rat) × List Rat) cs =>
      (acc.1 ++ [(cs.1, acc.2.take cs.2)], acc.2.drop cs.2)) ([], u)
  fun c => match table.1.find? (fun p => p.1 == c) with
    | some p => p.2
    | none => []

def step (line : String) : String :=
  match line.splitOn " " with
  | ["ls", d, o, h, f] => match deltaT? d, rats? o, rats? h, rats? f with
      | some d, some o, some h, some f =>
        if lsGuard d o h then let v := linearScaling d o h f; outF v (noFlags v) else "undef"
      | _, _, _, _ => "bad-op"
  | ["lss", d, o, h, f] => match rats? o, rats? h, rats? f with
      | some o, some h, some f => match linearScalingS d o h f with
        | .ok v => outF v (noFlags v)
        | .error e => "error " ++ e
      | _, _, _ => "bad-op"
  | ["dc", d, o, h, f] => match deltaT? d, rats? o, rats? h, rats? f with
      | some d, some o, some h, some f =>
        if dcGuard d h f then let v := deltaChange d o h f; outF v (noFlags v) else "undef"
      | _, _, _, _ => "bad-op"
  | ["dcs", d, o, h, f] => match rats? o, rats? h, rats? f with
      | some o, some h, some f => match deltaChangeS d o h f with
        | .ok v => outF v (noFlags v)
        | .error e => "error " ++ e
      | _, _, _ => "bad-op"
  | ["qm", mt, d, t, o, h, f] => match detr? d, parseRat? t, rats? o, rats? h, rats? f with
      | some d, some t, some o, some h, some f =>
        if ¬ qmGuard d o h f then "undef"
        else if mt = "parametric" then
          if qmParamGuard ratSigmoid d o h f then let v := qmParam rs t d o h f; outFI v (noFlags v) (qmParamIll t d o h f)
          else "undef"
        else if mt = "nonparametric" then outF (qmNonparam d o h f) (qmNonparamFlags d o h f)
        else "bad-op"
      | _, _, _, _, _ => "bad-op"
  | ["ecdfm", t, o, h, f] => match parseRat? t, rats? o, rats? h, rats? f with
      | some t, some o, some h, some f =>
        if ecdfmGuard ratSigmoid o h f then let v := ecdfm rs t o h f; outFI v (noFlags v) (ecdfmIll t f) else "undef"
      | _, _, _, _ => "bad-op"
  | ["qdm", tp, em, t, c, o, h, f] =>
      match tp? tp, ecdfM? em, parseRat? t, censor? c, rats? o, rats? h, rats? f with
      | some tp, some em, some t, some c, some o, some h, some f =>
        if ¬ qdmGuard o h f then "undef"
        else if tp = .relative ∧ ¬ qdmRelGuard rs (ecdf1 em) t f (rs.fit h) then "undef-soft"
        else outFI (qdmWindow rs tp em t c o h f) (qdmFlags tp em t c f (rs.fit o) (rs.fit h)) (qdmIll em t f)
      | _, _, _, _, _, _, _ => "bad-op"
  | ["qdmyears", tp, em, t, c, L, S, ys, o, h, f] =>
      match tp? tp, ecdfM? em, parseRat? t, censor? c, parseInt? L, parseInt? S, ints? ys, rats? o, rats? h, rats? f with
      | some tp, some em, some t, some c, some L, some S, some ys, some o, some h, some f =>
        if ¬ qdmGuard o h f then "undef"
        else
          let g : Model.Skeleton.YearFn Rat := fun Fw _ =>
            .ok (boolsToRat (qdmFlags tp em t c Fw (rs.fit o) (rs.fit h)))
          let guardFn : Model.Skeleton.YearFn Rat := fun Fw _ =>
            .ok (Fw.map (fun _ => if tp = .relative ∧ ¬ qdmRelGuard rs (ecdf1 em) t Fw (rs.fit h) then 1 else 0))
          match Model.Skeleton.applyYears guardFn L S ys f with
          | .ok gl => if gl.contains (some 1) then "undef-soft"
              else outYears (qdmWindowYears rs tp em t c L S ys o h f)
                (if ys.length ≠ f.length then .error "ValueError" else Model.Skeleton.applyYears g L S ys f)
                (Model.Skeleton.applyYears (fun Fw _ => .ok (boolsToRat (qdmIll em t Fw))) L S ys f)
          | .error e => "error " ++ e
      | _, _, _, _, _, _, _, _, _, _ => "bad-op"
  | ["qdmhist", tp, t, c, e, cnt, o, h, f] =>
      -- ecdf_method = "kernel_density": the histogram of cm_future (np.histogram(bins="auto")) is an oracle argument
      match tp? tp, parseRat? t, censor? c, rats? e, nats? cnt, rats? o, rats? h, rats? f with
      | some tp, some t, some c, some e, some cnt, some o, some h, some f =>
        let E : List Rat → Rat → Rat := fun _ y => ecdfHist1 e cnt y
        if ¬ qdmGuard o h f then "undef"
        else if tp = .relative ∧ ¬ qdmRelGuard rs E t f (rs.fit h) then "undef-soft"
        else
          let v := qdmStepsG rs tp E t c f (rs.fit o) (rs.fit h)
          let fl := f.map (fun x => match c with
            | none => false
            | some thr => decide (qdmCore rs tp (rs.fit o) (rs.fit h) x (thresholdCdf t (E f x)) = thr))
          outFI v fl (f.map (fun x => clipTiny t (E f x)))
      | _, _, _, _, _, _, _, _ => "bad-op"
  | ["cdfthist", d, im, eF, cF, eH, cH, o, h, f] =>
      match shift? d, iecdfM? im, rats? eF, nats? cF, rats? eH, nats? cH, rats? o, rats? h, rats? f with
      | some d, some im, some eF, some cF, some eH, some cH, some o, some h, some f =>
        if ¬ cdftGuard d o h f then "undef"
        else
          let HF := cdftShifted d o h f
          let E : List Rat → Rat → Rat := fun s y => if s = HF.1 then ecdfHist1 eH cH y else ecdfHist1 eF cF y
          let v := cdftMappingG E (iecdf1 im) d o h f
          let fl := HF.2.map (fun x =>
            let p1 := E HF.2 x
            let y := iecdf1 im o p1
            iecdfEventNear im o.length p1 || iecdfEventNear im HF.2.length (E HF.1 y))
          outF v fl
      | _, _, _, _, _, _, _, _, _ => "bad-op"
  | ["sdmabs", o, h, f] => match rats? o, rats? h, rats? f with
      | some o, some h, some f =>
        if sdmAbsGuard ratSigmoid o h f then outFI (sdmAbsolute ratSigmoid o h f) (sdmAbsFlags o h f) (sdmAbsIll o h f)
        else "undef"
      | _, _, _ => "bad-op"
  | ["sdmrel", thr, t, o, h, f] => match parseRat? thr, parseRat? t, rats? o, rats? h, rats? f with
      | some thr, some t, some o, some h, some f =>
        match sdmRelative rs thr t o h f with
        | .error e => "error " ++ e
        | .ok v =>
          if ¬ scalesOk ratSigmoid [rainy thr (sortQ o), rainy thr (sortQ h), rainy thr (sortQ f)] then "undef"
          else if ¬ sdmRelDivGuard rs thr t h f then "undef-soft"
          else outFI v (sdmRelFlags thr o h f) (sdmRelIll thr t o h f)
      | _, _, _, _, _ => "bad-op"
  | ["cdft", d, em, im, ssr, o, h, f, u] =>
      match shift? d, ecdfM? em, iecdfM? im, bool? ssr, rats? o, rats? h, rats? f, rats? u with
      | some d, some em, some im, some ssr, some o, some h, some f, some u =>
        if ¬ ssrGuard ssr o h f u then "bad-op"
        else
          let b := if ssr then ssrBefore o h f u else (o, h, f, 0)
          if cdftGuard d b.1 b.2.1 b.2.2.1 then outF (cdftSteps ssr d em im o h f u) (cdftFlags ssr d em im o h f u)
          else "undef"
      | _, _, _, _, _, _, _, _ => "bad-op"
  | ["cdftyears", d, em, im, L, S, ys, o, h, f] =>
      match shift? d, ecdfM? em, iecdfM? im, parseInt? L, parseInt? S, ints? ys, rats? o, rats? h, rats? f with
      | some d, some em, some im, some L, some S, some ys, some o, some h, some f =>
        if ¬ cdftGuard d o h f then "undef"
        else
          let g : Model.Skeleton.YearFn Rat := fun Fw _ => .ok (boolsToRat (cdftFlags false d em im o h Fw []))
          outYears (cdftWindowYears d em im L S ys o h f)
            (if ys.length ≠ f.length then .error "ValueError" else Model.Skeleton.applyYears g L S ys f)
      | _, _, _, _, _, _, _, _, _ => "bad-op"
  | ["cdftyearsssr", d, em, im, L, S, ys, o, h, f, u] =>
      match shift? d, ecdfM? em, iecdfM? im, parseInt? L, parseInt? S, ints? ys, rats? o, rats? h, rats? f, rats? u with
      | some d, some em, some im, some L, some S, some ys, some o, some h, some f, some u =>
        let draws := drawsByCentre L S ys o.length h.length u
        let g : Int → Model.Skeleton.YearFn Rat := fun c Fw _ =>
          .ok (boolsToRat (cdftFlags true d em im o h Fw (draws c)))
        outYears (cdftWindowYearsSSR d em im L S ys o h f draws)
          (if ys.length ≠ f.length then .error "ValueError" else applyYearsC g L S ys f)
      | _, _, _, _, _, _, _, _, _, _ => "bad-op"
  | _ => "bad-op"

def main : IO Unit := do loop (← IO.getStdin) step
