/- Line-protocol driver for the precipitation models inside parametric QuantileMapping (`Model/PrecipQM.lean`): C09. -/
import IbicusModel.Model.Proto
import IbicusModel.Model.PrecipQM

open Proto Model.PrecipQM Model.Debiasers

def rats? := parseList? parseRat?
def out (l : List Rat) : String := showList showRat l
def bool? : String → Option Bool
  | "true" => some true
  | "false" => some false
  | _ => none
def detr? : String → Option Detrending
  | "additive" => some .additive
  | "multiplicative" => some .multiplicative
  | "no_detrending" => some .no_detrending
  | _ => none

def step (line : String) : String :=
  match line.splitOn " " with
  | ["qmh", d, rand, t, obs, h, f, us] =>
      match detr? d, bool? rand, parseRat? t, rats? obs, rats? h, rats? f, rats? us with
      | some d, some rand, some t, some obs, some h, some f, some us =>
          if us.length ≠ f.length then "bad-op" else out (hurdleWindow d rand t obs h f us)
      | _, _, _, _, _, _, _ => "bad-op"
  | ["qmi", d, t, obs, h, f] =>
      match detr? d, parseRat? t, rats? obs, rats? h, rats? f with
      | some d, some t, some obs, some h, some f => out (izWindow d t obs h f)
      | _, _, _, _, _ => "bad-op"
  | ["qmc", d, thr, c, t, ca, cv, pa, pv, h, f, us] =>
      match detr? d, parseRat? thr, bool? c, parseRat? t, rats? ca, rats? cv, rats? pa, rats? pv, rats? h, rats? f, rats? us with
      | some d, some thr, some c, some t, some ca, some cv, some pa, some pv, some h, some f, some us =>
          if us.length ≠ f.length ∨ ca.length ≠ cv.length ∨ pa.length ≠ pv.length then "bad-op"
          else out (censWindow d thr c t (ca.zip cv) (pa.zip pv) h f us)
      | _, _, _, _, _, _, _, _, _, _, _ => "bad-op"
  | _ => "bad-op"

def main : IO Unit := do loop (← IO.getStdin) step
