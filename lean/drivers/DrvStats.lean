/- Line-protocol driver for the numeric toolkit (`Model/Stats.lean`): C16 and the layer-N debiasers. -/
import IbicusModel.Model.Proto
import IbicusModel.Model.Stats

open Proto Model.Stats

def rats? := parseList? parseRat?
def nats? (s : String) : Option (List Nat) := parseList? (fun t => t.toNat?) s

def ecdfM? : String → Option EcdfMethod
  | "step_function" => some .step
  | "linear_interpolation" => some .linear
  | _ => none

def iecdfM? : String → Option IecdfMethod
  | "inverted_cdf" => some .inverted_cdf
  | "averaged_inverted_cdf" => some .averaged_inverted_cdf
  | "closest_observation" => some .closest_observation
  | "interpolated_inverted_cdf" => some .interpolated_inverted_cdf
  | "hazen" => some .hazen
  | "weibull" => some .weibull
  | "linear" => some .linear
  | "median_unbiased" => some .median_unbiased
  | "normal_unbiased" => some .normal_unbiased
  | _ => none

def out (l : List Rat) : String := showList showRat l

def step (line : String) : String :=
  match line.splitOn " " with
  | ["sort", x] => match rats? x with
      | some x => out (sortQ x) | _ => "bad-op"
  | ["rank", x] => match rats? x with
      | some x => showList toString (rankOf x) | _ => "bad-op"
  | ["sortlike", x, y] => match rats? x, rats? y with
      | some x, some y => out (sortLike x y) | _, _ => "bad-op"
  | ["ecdf", m, x, ys] => match ecdfM? m, rats? x, rats? ys with
      | some m, some x, some ys => out (ecdf m x ys) | _, _, _ => "bad-op"
  | ["ecdfhist", e, c, ys] => match rats? e, nats? c, rats? ys with
      | some e, some c, some ys => out (ys.map (ecdfHist1 e c)) | _, _, _ => "bad-op"
  | ["iecdf", m, x, qs] => match iecdfM? m, rats? x, rats? qs with
      | some m, some x, some qs => out (iecdf m x qs) | _, _, _ => "bad-op"
  | ["qmap", em, im, x, y, v] => match ecdfM? em, iecdfM? im, rats? x, rats? y, rats? v with
      | some em, some im, some x, some y, some v => out (qmap em im x y v) | _, _, _, _, _ => "bad-op"
  | ["qmapx", em, im, x, y, v] => match ecdfM? em, iecdfM? im, rats? x, rats? y, rats? v with
      | some em, some im, some x, some y, some v => out (qmapExtrap em im x y v) | _, _, _, _, _ => "bad-op"
  | ["qmapisimip", x, y] => match rats? x, rats? y with
      | some x, some y => out (qmapIsimip x y) | _, _ => "bad-op"
  | ["interp", xs, xp, fp] => match rats? xs, rats? xp, rats? fp with
      | some xs, some xp, some fp => out (interp xs xp fp) | _, _, _ => "bad-op"
  | ["interplen", c, m] => match rats? c, m.toNat? with
      | some c, some m => out (interpOnLength c m) | _, _ => "bad-op"
  | _ => "bad-op"

def main : IO Unit := do loop (← IO.getStdin) step
