/- Line-protocol driver for the numeric toolkit (`Model/Stats.lean`): C16 and the layer-N debiasers. -/
import IbicusModel.Model.Proto
import IbicusModel.Model.Stats
import IbicusModel.Model.StatsSeq

open Proto Model.Stats

def rats? := parseList? parseRat?
def nats? (s : String) : Option (List Nat) := parseList? (fun t => t.toNat?) s

def ecdfM? : String → Option EcdfMethod
  | "step_function" => some .step
  | "linear_interpolation" => some .linear
  | _ => none

def iecdfM? : String → Option IecdfMethod
  | "inverted_cdf" => some .inverted_cdf
  | "averaged_inverted_cdf" => some .averaged_inverted_cdf
  | "closest_observation" => some .closest_observation
  | "interpolated_inverted_cdf" => some .interpolated_inverted_cdf
  | "hazen" => some .hazen
  | "weibull" => some .weibull
  | "linear" => some .linear
  | "median_unbiased" => some .median_unbiased
  | "normal_unbiased" => some .normal_unbiased
  | _ => none

def out (l : List Rat) : String := showList showRat l

/-! ### C16 correspondence helpers: value at the point and at the two neighbours `± d` (the harness accepts the
    hull where the float code can sit on a discontinuity of the exact map) -/

def clamp01 (q : Rat) : Rat := max 0 (min 1 q)

def ecdf3 (m : EcdfMethod) (x : List Rat) (dv : Rat) (y : Rat) : List Rat :=
  [ecdf1 m x (y - dv), ecdf1 m x y, ecdf1 m x (y + dv)]

def iecdf3 (m : IecdfMethod) (s : List Rat) (dp : Rat) (q : Rat) : List Rat :=
  [iecdfSorted m s (clamp01 (q - dp)), iecdfSorted m s q, iecdfSorted m s (clamp01 (q + dp))]

/-- quantile map through an arbitrary ecdf `F` (step / linear / histogram): lo, mid, hi -/
def qmap3 (F : Rat → Rat) (im : IecdfMethod) (sy : List Rat) (dv dp : Rat) (v : Rat) : List Rat :=
  [iecdfSorted im sy (clamp01 (F (v - dv) - dp)), iecdfSorted im sy (F v), iecdfSorted im sy (clamp01 (F (v + dv) + dp))]

def qmapx3 (F : Rat → Rat) (im : IecdfMethod) (x y : List Rat) (dv dp : Rat) (v : Rat) : List Rat :=
  let xmin := minQ x
  let xmax := maxQ x
  if v > xmax then let r := v + (maxQ y - xmax); [r, r, r]
  else if v < xmin then let r := v + (minQ y - xmin); [r, r, r]
  else qmap3 F im (sortQ y) dv dp v

/-- one operation of a call / update sequence: `ecdf:m:x:ys`, `iecdf:m:x:qs`, `qmap:em:im:x:y:v`, `qmapx:em:im:x:y:v`,
    `sortlike:x:y`, `upd:i:<list>` (numbers are positions in the store) -/
def seqOp? (s : String) : Option SeqOp :=
  match s.splitOn ":" with
  | ["ecdf", m, x, ys] => do some (.ecdf (← ecdfM? m) (← x.toNat?) (← ys.toNat?))
  | ["iecdf", m, x, qs] => do some (.iecdf (← iecdfM? m) (← x.toNat?) (← qs.toNat?))
  | ["qmap", em, im, x, y, v] => do some (.qmap (← ecdfM? em) (← iecdfM? im) (← x.toNat?) (← y.toNat?) (← v.toNat?))
  | ["qmapx", em, im, x, y, v] => do some (.qmapExtrap (← ecdfM? em) (← iecdfM? im) (← x.toNat?) (← y.toNat?) (← v.toNat?))
  | ["sortlike", x, y] => do some (.sortLike (← x.toNat?) (← y.toNat?))
  | ["upd", i, v] => do some (.update (← i.toNat?) (← rats? v))
  | _ => none

def step (line : String) : String :=
  match line.splitOn " " with
  | ["sort", x] => match rats? x with
      | some x => out (sortQ x) | _ => "bad-op"
  | ["rank", x] => match rats? x with
      | some x => showList toString (rankOf x) | _ => "bad-op"
  | ["sortlike", x, y] => match rats? x, rats? y with
      | some x, some y => out (sortLike x y) | _, _ => "bad-op"
  | ["ecdf", m, x, ys] => match ecdfM? m, rats? x, rats? ys with
      | some m, some x, some ys => out (ecdf m x ys) | _, _, _ => "bad-op"
  | ["ecdfhist", e, c, ys] => match rats? e, nats? c, rats? ys with
      | some e, some c, some ys => out (ys.map (ecdfHist1 e c)) | _, _, _ => "bad-op"
  | ["iecdf", m, x, qs] => match iecdfM? m, rats? x, rats? qs with
      | some m, some x, some qs => out (iecdf m x qs) | _, _, _ => "bad-op"
  | ["qmap", em, im, x, y, v] => match ecdfM? em, iecdfM? im, rats? x, rats? y, rats? v with
      | some em, some im, some x, some y, some v => out (qmap em im x y v) | _, _, _, _, _ => "bad-op"
  | ["qmapx", em, im, x, y, v] => match ecdfM? em, iecdfM? im, rats? x, rats? y, rats? v with
      | some em, some im, some x, some y, some v => out (qmapExtrap em im x y v) | _, _, _, _, _ => "bad-op"
  | ["qmapisimip", x, y] => match rats? x, rats? y with
      | some x, some y => out (qmapIsimip x y) | _, _ => "bad-op"
  | ["interp", xs, xp, fp] => match rats? xs, rats? xp, rats? fp with
      | some xs, some xp, some fp => out (interp xs xp fp) | _, _, _ => "bad-op"
  | ["interplen", c, m] => match rats? c, m.toNat? with
      | some c, some m => out (interpOnLength c m) | _, _ => "bad-op"
  | ["threshold", t, vs] => match parseRat? t, rats? vs with
      | some t, some vs => out (vs.map (thresholdCdf t)) | _, _ => "bad-op"
  | ["ecdf3", m, x, ys, dv] => match ecdfM? m, rats? x, rats? ys, parseRat? dv with
      | some m, some x, some ys, some dv => out (ys.flatMap (ecdf3 m x dv)) | _, _, _, _ => "bad-op"
  | ["iecdf3", m, x, qs, dp] => match iecdfM? m, rats? x, rats? qs, parseRat? dp with
      | some m, some x, some qs, some dp => out (qs.flatMap (iecdf3 m (sortQ x) dp)) | _, _, _, _ => "bad-op"
  | ["qmap3", em, im, x, y, v, dv, dp] =>
      match ecdfM? em, iecdfM? im, rats? x, rats? y, rats? v, parseRat? dv, parseRat? dp with
      | some em, some im, some x, some y, some v, some dv, some dp =>
          out (v.flatMap (qmap3 (ecdf1 em x) im (sortQ y) dv dp))
      | _, _, _, _, _, _, _ => "bad-op"
  | ["qmapx3", em, im, x, y, v, dv, dp] =>
      match ecdfM? em, iecdfM? im, rats? x, rats? y, rats? v, parseRat? dv, parseRat? dp with
      | some em, some im, some x, some y, some v, some dv, some dp =>
          out (v.flatMap (qmapx3 (ecdf1 em x) im x y dv dp))
      | _, _, _, _, _, _, _ => "bad-op"
  | ["qmaphist3", im, e, c, y, v, dp] =>
      match iecdfM? im, rats? e, nats? c, rats? y, rats? v, parseRat? dp with
      | some im, some e, some c, some y, some v, some dp =>
          out (v.flatMap (fun w => match qmap3 (ecdfHist1 e c) im (sortQ y) 0 dp w with
            | [lo, _, hi] => [lo, qmapHist1 im e c y w, hi]
            | l => l))
      | _, _, _, _, _, _ => "bad-op"
  | ["qmapxhist3", im, e, c, x, y, v, dp] =>
      match iecdfM? im, rats? e, nats? c, rats? x, rats? y, rats? v, parseRat? dp with
      | some im, some e, some c, some x, some y, some v, some dp =>
          out (v.flatMap (fun w => match qmapx3 (ecdfHist1 e c) im x y 0 dp w with
            | [lo, _, hi] => [lo, qmapExtrapHist1 im e c x y w, hi]
            | l => l))
      | _, _, _, _, _, _, _ => "bad-op"
  | ["seq", st, ops] =>
      match (st.splitOn "|").mapM rats?, (ops.splitOn "|").mapM seqOp? with
      | some st, some ops => "|".intercalate ((runSeq st ops).map out)
      | _, _ => "bad-op"
  | _ => "bad-op"

def main : IO Unit := do loop (← IO.getStdin) step
