/- Line-protocol driver for the precipitation models (`Model/Precip.lean`): C17. -/
import IbicusModel.Model.Proto
import IbicusModel.Model.Precip

open Proto Model.Precip

def rats? := parseList? parseRat?
def out (l : List Rat) : String := showList showRat l
def bool? : String → Option Bool
  | "true" => some true
  | "false" => some false
  | _ => none

def showOpt (o : Option Rat) : String := match o with | some q => showRat q | none => "nan"

def erat? (s : String) : Option ERat := if s = "-inf" then some .negInf else (parseRat? s).map .fin
def showERat : ERat → String
  | .negInf => "-inf"
  | .fin q => showRat q

/-- the hurdle ppf with the executable family, keeping scipy's `nan` outside `[0,1)` -/
def hurdlePpf? (loc scale p0 q : Rat) : Option Rat :=
  if q > p0 then ratPpf? loc scale ((q - p0) / (1 - p0)) else some 0

def izPpf? (loc scale : Rat) (q : ERat) : Option Rat :=
  match q with
  | .negInf => some 0
  | .fin q => ratPpf? loc scale q

def step (line : String) : String :=
  match line.splitOn " " with
  | ["p0", d] => match rats? d with
      | some d => showRat (hurdleP0 d) | _ => "bad-op"
  | ["rainy", d] => match rats? d with
      | some d => out (rainyDays d) | _ => "bad-op"
  | ["hcdf", loc, sc, p0, rand, xs, us] =>
      match parseRat? loc, parseRat? sc, parseRat? p0, bool? rand, rats? xs, rats? us with
      | some loc, some sc, some p0, some rand, some xs, some us =>
          if xs.length ≠ us.length then "bad-op"
          else out (hurdleCdfL (ratFam loc sc) p0 rand us xs)
      | _, _, _, _, _, _ => "bad-op"
  | ["hppf", loc, sc, p0, qs] =>
      match parseRat? loc, parseRat? sc, parseRat? p0, rats? qs with
      | some loc, some sc, some p0, some qs => showList showOpt (qs.map (hurdlePpf? loc sc p0))
      | _, _, _, _ => "bad-op"
  | ["izcdf", loc, sc, xs] =>
      match parseRat? loc, parseRat? sc, rats? xs with
      | some loc, some sc, some xs => showList showERat (izCdfL (ratFam loc sc) xs)
      | _, _, _ => "bad-op"
  | ["izppf", loc, sc, qs] =>
      match parseRat? loc, parseRat? sc, parseList? erat? qs with
      | some loc, some sc, some qs => showList showOpt (qs.map (izPpf? loc sc))
      | _, _, _ => "bad-op"
  | ["censarg", thr, xs, us] =>
      match parseRat? thr, rats? xs, rats? us with
      | some thr, some xs, some us =>
          if xs.length ≠ us.length then "bad-op" else out (censArgL thr us xs)
      | _, _, _ => "bad-op"
  | ["censpost", thr, c, vs] =>
      match parseRat? thr, bool? c, rats? vs with
      | some thr, some c, some vs => out (censPostL thr c vs)
      | _, _, _ => "bad-op"
  | ["censfit", thr, d] =>
      match parseRat? thr, rats? d with
      | some thr, some d => let r := censFitArgs thr d; out r.1 ++ " " ++ toString r.2
      | _, _ => "bad-op"
  | ["factory", t, g, thr, rand] =>
      match bool? g, parseRat? thr, bool? rand with
      | some g, some thr, some rand =>
          match mapStandard t g thr rand with
          | .ok (.censored thr) => "censored " ++ showRat thr
          | .ok (.hurdle r) => "hurdle " ++ toString r
          | .ok .ignoreZeros => "ignore_zeros"
          | .error e => "error " ++ e
      | _, _, _ => "bad-op"
  | _ => "bad-op"

def main : IO Unit := do loop (← IO.getStdin) step
