/- Line-protocol driver for the C12 store model: provenance tables of the alias model and `derive` of the instance
   model. Imports `Model/` only. -/
import IbicusModel.Model.Proto
import IbicusModel.Model.Purity
import IbicusModel.Model.Instance

open Proto Model.Purity

def bool? (s : String) : Option Bool :=
  if s = "1" then some true else if s = "0" then some false else none

def entry? : List String → Option Entry
  | ["loc", t] => (bool? t).map Entry.applyLocation
  | ["apply", cv, t] => do pure (Entry.apply (← bool? cv) (← bool? t))
  | _ => none

def detr? (s : String) : Option Detr :=
  if s = "additive" then some .additive else if s = "multiplicative" then some .multiplicative
  else if s = "no_detrending" then some .noDetrending else none

def trend? (s : String) : Option Trend :=
  if s = "additive" then some .additive else if s = "multiplicative" then some .multiplicative
  else if s = "mixed" then some .mixed else if s = "bounded" then some .bounded else none

/-- `<kind> <entry tokens joined by ':'> flags…` -/
def cfg? (toks : List String) : Option Cfg :=
  match toks with
  | ["window", i, d, l, u, t, m] => do
      pure (Cfg.isimipWindow (← bool? i) (← bool? d) (← bool? l) (← bool? u) (← bool? t) (← trend? m))
  | kind :: en :: rest => do
      let e ← entry? (en.splitOn ":")
      match kind, rest with
      | "ls", [w] => pure (Cfg.ls e (← bool? w))
      | "qm", [w, d, p] => pure (Cfg.qm e (← bool? w) (← detr? d) (← bool? p))
      | "ecdfm", [w] => pure (Cfg.ecdfm e (← bool? w))
      | "cdft", [w, y, s, h] => pure (Cfg.cdft e (← bool? w) (← bool? y) (← bool? s) (← bool? h))
      | "qdm", [w, y, z] => pure (Cfg.qdm e (← bool? w) (← bool? y) (← bool? z))
      | "sdm", [w, r] => pure (Cfg.sdm e (← bool? w) (← bool? r))
      | "dc", [w] => pure (Cfg.dc e (← bool? w))
      | "isimip", [w, s] => pure (Cfg.isimip e (← bool? w) (← bool? s))
      | _, _ => none
  | _ => none

def showProv : Prov → String
  | .own => "own"
  | .caller k => s!"caller{k}"

def insertSorted (s : String) : List String → List String
  | [] => [s]
  | h :: t => if s < h then s :: h :: t else if s = h then h :: t else h :: insertSorted s t

def sortDedup (l : List String) : List String := l.foldl (fun acc s => insertSorted s acc) []

open Model.Instance in
def kind? (s : String) : Option Kind :=
  match s with
  | "LinearScaling" => some .linearScaling | "DeltaChange" => some .deltaChange
  | "QuantileMapping" => some .quantileMapping | "ScaledDistributionMapping" => some .scaledDistributionMapping
  | "CDFt" => some .cdft | "ECDFM" => some .ecdfm | "QuantileDeltaMapping" => some .quantileDeltaMapping
  | "ISIMIP" => some .isimip | _ => none

def optRat? (s : String) : Option (Option Rat) :=
  if s = "none" then some none else (parseRat? s).map some

def win? (s : String) : Option (Option (Int × Int)) :=
  if s = "none" then some none else
  match s.splitOn ":" with
  | [a, b] => do pure (some ((← parseInt? a), (← parseInt? b)))
  | _ => none

def showWin : Option (Int × Int) → String
  | none => "none"
  | some (a, b) => s!"{a}:{b}"

def showOptRat : Option Rat → String
  | none => "none"
  | some q => showRat q

def showGuard : RngGuard → String
  | .cdftSSR => "cdftSSR" | .isimipImpute => "isimipImpute" | .isimipLower => "isimipLower" | .isimipUpper => "isimipUpper"
  | .hurdleRandomization => "hurdleRandomization" | .censoredModel => "censoredModel"

/-- the functions a program can call (transitively; `callWin` is followed by the harness through the inner configuration) -/
def calledFns (c : Cfg) : Nat → List Stmt → List Fn
  | 0, _ => []
  | _ + 1, [] => []
  | f + 1, .call fn _ _ :: r => fn :: (calledFns c f (body c fn) ++ calledFns c f r)
  | f + 1, _ :: r => calledFns c f r

def step (line : String) : String :=
  match line.splitOn " " with
  -- the distinct (function.parameter=provenance) items of the calls of a configuration, sorted; then `safe`, `resultOwn`
  | "trace" :: toks => match cfg? toks with
      | some c => match trace c fuel (entryProg c) (absEnv c.initEnv) with
          | some (_, tr) =>
              let items := sortDedup (tr.map (fun it => s!"{it.fn.py}.{it.param.py}={showProv it.prov}"))
              s!"{if safe c then 1 else 0} {if resultOwn c then 1 else 0} " ++ showList id items
          | none => "trace-failed"
      | none => "bad-op"
  -- derive <Kind> rwMode rwLen rwStep yrMode yrLen yrStep cdf distNone nonparam rw0 yr0
  | ["derive", k, rwm, rwl, rws, yrm, yrl, yrs, cdf, dn, np, rw0, yr0] =>
      match kind? k, bool? rwm, parseInt? rwl, parseInt? rws, bool? yrm, parseInt? yrl, parseInt? yrs, optRat? cdf, bool? dn, bool? np,
            win? rw0, win? yr0 with
      | some k, some rwm, some rwl, some rws, some yrm, some yrl, some yrs, some cdf, some dn, some np, some rw0, some yr0 =>
          let i : Model.Instance.Inst Unit := ⟨⟨rwm, rwl, rws, yrm, yrl, yrs, cdf, dn, np, ()⟩, ⟨rw0, yr0⟩⟩
          let (j, x) := Model.Instance.derive k i
          let v := Model.Instance.view k j
          s!"{match x with | none => "ok" | some e => "error:" ++ e} rw={showWin j.derived.runningWindow} yr={showWin j.derived.yearWindow} cdf={showOptRat j.settings.cdfThreshold} view={showWin v.runningWindow},{showWin v.yearWindow}"
      | _, _, _, _, _, _, _, _, _, _, _, _ => "bad-op"
  -- what a direct `apply_location` reads (no `__attrs_post_init__`): view <Kind> rwMode yrMode rw0 yr0
  | ["view", k, rwm, yrm, rw0, yr0] =>
      match kind? k, bool? rwm, bool? yrm, win? rw0, win? yr0 with
      | some k, some rwm, some yrm, some rw0, some yr0 =>
          let i : Model.Instance.Inst Unit := ⟨⟨rwm, 1, 1, yrm, 1, 1, none, false, false, ()⟩, ⟨rw0, yr0⟩⟩
          let v := Model.Instance.view k (Model.Instance.applyLocation (fun _ _ (_ : Unit) (_ : Unit) => (.ok () : Except String Unit)) k i () ()).1
          s!"view={showWin v.runningWindow},{showWin v.yearWindow}"
      | _, _, _, _, _ => "bad-op"
  -- the (function:guard) pairs of the `draw` statements reachable from the entry of a configuration, sorted: draws <cfg tokens>
  | "draws" :: toks => match cfg? toks with
      | some c =>
          let fns := calledFns c 60 (entryProg c)
          showList id (sortDedup ((fns.flatMap (fun fn => drawsOf fn (body c fn))).map (fun p => s!"{p.1.py}:{showGuard p.2}")))
      | none => "bad-op"
  -- the table of draw sites: source function | callee | guard | model function
  | ["rngsites"] => ";".intercalate (rngSitesJ.map (fun x => s!"{x.1.fn}|{x.1.callee}|{showGuard x.2.1}|{x.2.2.py}"))
  | _ => "bad-op"

def main : IO Unit := do
  let stdin ← IO.getStdin
  loop stdin step
