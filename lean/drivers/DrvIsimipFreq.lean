/- Line-protocol driver for the ISIMIP step 6 frequency kernels (C11). Imports `Model/` only. -/
import IbicusModel.Model.Proto
import IbicusModel.Model.IsimipFreq

open Proto Model.IsimipFreq

def rats? := parseList? parseRat?

/-- masks are strings over `0`/`1` (`-` = empty) -/
def parseMask? (s : String) : Option (List Bool) :=
  if s = "-" then some []
  else s.toList.mapM (fun c => if c = '1' then some true else if c = '0' then some false else none)

def showMask (m : List Bool) : String :=
  if m.isEmpty then "-" else String.ofList (m.map (fun b => if b then '1' else '0'))

def parseBool? (s : String) : Option Bool := if s = "1" then some true else if s = "0" then some false else none

def parseOptRat? (s : String) : Option (Option Rat) := if s = "none" then some none else (parseRat? s).map some

def b01 (b : Bool) : String := if b then "1" else "0"

/-- all `(Po, Ph, Pf) = (a/n, b/n, c/n)`, `a, b, c ∈ 0..n`, lexicographic -/
def pGrid (n : Nat) : List (Rat × Rat × Rat) :=
  let fr := (List.range (n + 1)).map (fun (k : Nat) => ((k : Int) : Rat) / ((n : Int) : Rat))
  fr.flatMap (fun a => fr.flatMap (fun b => fr.map (fun c => (a, b, c))))

/-- all `(l, u, n)` in `0..N` with `l + u > n`, lexicographic -/
def scaleGrid (N : Nat) : List (Int × Int × Int) :=
  let r := (List.range (N + 1)).map (fun (k : Nat) => (k : Int))
  (r.flatMap (fun l => r.flatMap (fun u => r.map (fun n => (l, u, n))))).filter (fun t => decide (t.1 + t.2.1 > t.2.2))

def step (line : String) : String :=
  match line.splitOn " " with
  | ["pobs", po, ph, pf] => match parseRat? po, parseRat? ph, parseRat? pf with
      | some po, some ph, some pf =>
          s!"{showRat (pObsFuture po ph pf)} {pBranch po ph pf} {b01 (iscloseTie ph po)}"
      | _, _, _ => "bad-op"
  | ["pgrid", n] => match n.toNat? with
      | some n =>
          if n = 0 then "bad-op" else
          let g := pGrid n
          let br := g.map (fun t => pBranch t.1 t.2.1 t.2.2)
          let ties := (g.filter (fun t => iscloseTie t.2.1 t.1)).length
          showList showRat (g.map (fun t => pObsFuture t.1 t.2.1 t.2.2)) ++
            s!" {br.count 1} {br.count 2} {br.count 3} {br.count 4} {ties}"
      | none => "bad-op"
  | ["nr", adj, mo, mh, mf] => match parseBool? adj, parseMask? mo, parseMask? mh, parseMask? mf with
      | some adj, some mo, some mh, some mf =>
          if mo.isEmpty || mh.isEmpty || mf.isEmpty then "error empty-mask"
          else s!"{nrToBound adj mo mh mf} {b01 (nrTie adj mo mh mf)}"
      | _, _, _, _ => "bad-op"
  | ["scale", l, u, n] => match parseInt? l, parseInt? u, parseInt? n with
      | some l, some u, some n =>
          if l + u ≤ 0 then "error nonpositive-divisor"
          else s!"{(scaleCounts l u n).1} {(scaleCounts l u n).2}"
      | _, _, _ => "bad-op"
  | ["legacyscale", l, u, n] => match parseInt? l, parseInt? u, parseInt? n with
      | some l, some u, some n =>
          if l + u ≤ 0 then "error nonpositive-divisor"
          else s!"{(legacyScaleCounts l u n).1} {(legacyScaleCounts l u n).2}"
      | _, _, _ => "bad-op"
  | ["scalegrid", n] => match n.toNat? with
      | some n => showList (fun t => s!"{(scaleCounts t.1 t.2.1 t.2.2).1}:{(scaleCounts t.1 t.2.1 t.2.2).2}") (scaleGrid n)
      | none => "bad-op"
  | ["lmask", nr, n] => match parseInt? nr, n.toNat? with
      | some nr, some n => showMask (lowerMask nr n)
      | _, _ => "bad-op"
  | ["umask", nr, n] => match parseInt? nr, n.toNat? with
      | some nr, some n => showMask (upperMask nr n)
      | _, _ => "bad-op"
  | ["counts", adj, lthr, uthr, obs, cmh, cmf] =>
      match parseBool? adj, parseOptRat? lthr, parseOptRat? uthr, rats? obs, rats? cmh, rats? cmf with
      | some adj, some lthr, some uthr, some obs, some cmh, some cmf =>
          if obs.isEmpty || cmh.isEmpty || cmf.isEmpty then "error empty-series" else
          let r := rawCounts adj lthr uthr obs cmh cmf
          let c := step6Counts adj lthr uthr obs cmh cmf
          s!"{c.1} {c.2} {r.1} {r.2} {b01 (step6Tie adj lthr uthr obs cmh cmf)}"
      | _, _, _, _, _, _ => "bad-op"
  | ["seqcounts", adj, evs, obs, cmh, cmf] =>
      -- events: `L:<thr|none>`, `U:<thr|none>`, `use`, comma separated; the instance starts without thresholds
      let parseEv : String → Option ThrEvent := fun s =>
        if s = "use" then some ThrEvent.use
        else match s.splitOn ":" with
          | ["L", t] => (parseOptRat? t).map ThrEvent.setLower
          | ["U", t] => (parseOptRat? t).map ThrEvent.setUpper
          | _ => none
      match parseBool? adj, parseList? parseEv evs, rats? obs, rats? cmh, rats? cmf with
      | some adj, some evs, some obs, some cmh, some cmf =>
          if obs.isEmpty || cmh.isEmpty || cmf.isEmpty then "error empty-series" else
          let st := (ThrState.mk none none).run evs
          let c := thrCountsOf adj st obs cmh cmf
          let r := rawCounts adj st.lower st.upper obs cmh cmf
          s!"{c.1} {c.2} {r.1} {r.2} {b01 (step6Tie adj st.lower st.upper obs cmh cmf)}"
      | _, _, _, _, _ => "bad-op"
  | ["assign", lo, hi, nl, nu, xs, mid] =>
      -- values are opaque tokens: the assignment never computes with them
      match parseInt? nl, parseInt? nu, parseList? (fun s => some s) xs, parseList? (fun s => some s) mid with
      | some nl, some nu, some xs, some mid =>
          if nrMiddle nl nu xs.length ≠ mid.length then "error shape-mismatch"
          else showList id (assignBounds lo hi nl nu xs mid)
      | _, _, _, _ => "bad-op"
  | ["nmid", nl, nu, n] => match parseInt? nl, parseInt? nu, n.toNat? with
      | some nl, some nu, some n => toString (nrMiddle nl nu n)
      | _, _, _ => "bad-op"
  | _ => "bad-op"

def main : IO Unit := do loop (← IO.getStdin) step
