/- Line-protocol driver for the configuration model (C15). Imports `Model/` only.

   support <Class> name|obj <arg> <kw>   -> silent | experimental | valueError   (kw = 1: a censoring_threshold keyword is given)
   doc <Class> <name>                    -> the documented table's verdict
   forprecip <Class>                     -> none | silent | experimental | valueError
   names                                 -> the 14 names
   fields <Class>                        -> name~default~validators~converter;…
   field <Class> <field> <val>           -> ok <val> | error <Class> | nofield      (convert + validate one value)
   setattr <Class> <field> <val>         -> ok <stored val> | error <Class>          (attribute assignment: converter + validators)
   apply <Class> <rederive> <base> <assignments>   -> error <cls> | ok <active derived attributes> | <fields>
                                           base / assignments: `k=v;k=v` (`-` = none); assignments are applied after construction
   ops <Class> <base> <op;op;…>           -> like `apply` (re-deriving) after a history; op = `A` (an apply) or `k=v` (an assignment)
   construct <Class> <k=v;… every field>  -> ok | error <cls>   (attrs validation of every field, then __attrs_post_init__)
   params <name> <range> <general> <varsettings> <kwargs> <k> -> the value `_from_variable` passes for keyword k
   has <lb> <lt> <ub> <ut>               -> six 0/1 flags (lower_threshold, lower_bound, upper_threshold, upper_bound, bound, threshold)
   isimipdefaults                        -> the four defaults
   values: none | b:0 | b:1 | i:<int> | q:<num/den> | s:<str> | o:<tag> | n:<num/den> (numpy scalar that is not a Python int/float);  extended reals: -inf | inf | <num/den>
-/
import IbicusModel.Model.Proto
import IbicusModel.Model.Config

open Proto Model.Config Model.DebNames

def val? (s : String) : Option Val :=
  if s = "none" then some .none
  else match s.splitOn ":" with
    | ["b", "0"] => some (.b false)
    | ["b", "1"] => some (.b true)
    | ["i", x] => (parseInt? x).map .i
    | ["q", x] => (parseRat? x).map .q
    | ["n", x] => (parseRat? x).map .np
    | ["s", x] => some (.s x)
    | ["o", x] => some (.other x)
    | _ => none

def showVal : Val → String
  | .none => "none"
  | .b x => if x then "b:1" else "b:0"
  | .i x => "i:" ++ toString x
  | .q x => "q:" ++ showRat x
  | .np x => "n:" ++ showRat x
  | .s x => "s:" ++ x
  | .other x => "o:" ++ x

def kv? (s : String) : Option (String × Val) :=
  match s.splitOn "=" with
  | [k, v] => (val? v).map (fun x => (k, x))
  | _ => none

def assoc? (s : String) : Option (List (String × Val)) :=
  if s = "-" then some [] else (s.splitOn ";").mapM kv?

def showSupport : Support → String
  | .silent => "silent" | .experimental => "experimental" | .valueError => "valueError"

def ext? (s : String) : Option ExtRat :=
  if s = "-inf" then some .negInf else if s = "inf" then some .posInf else (parseRat? s).map .fin

def showExt : ExtRat → String
  | .negInf => "-inf" | .posInf => "inf" | .fin q => showRat q

def showB (b : Bool) : String := if b then "1" else "0"

def showBuilt (p : String × Built) : String :=
  p.1 ++ "=" ++ p.2.cls ++ "(" ++ ",".intercalate (p.2.args.map showVal) ++ ")"

def showView (r : Except String View) : String :=
  match r with
  | .error e => "error " ++ e
  | .ok (f, l) => "ok " ++ (if l.isEmpty then "-" else ";".intercalate (l.map showBuilt)) ++ " | " ++
      (if f.isEmpty then "-" else ";".intercalate (f.map (fun p => p.1 ++ "=" ++ showVal p.2)))

def showValidator : Validator → String
  | .instBool => "instBool" | .instInt => "instInt" | .instFloat => "instFloat" | .instStr => "instStr" | .instDict => "instDict"
  | .instFloatOrNone => "instFloatOrNone" | .instDistribution => "instDistribution" | .instDistributionOrNone => "instDistributionOrNone"
  | .gt0 => "gt0" | .oneOf l => "oneOf(" ++ "|".intercalate l ++ ")" | .custom => "custom"

def showField (f : Field) : String :=
  f.name ++ "~" ++ (match f.default with | none => "<required>" | some d => d.replace " " "") ++ "~" ++
    ",".intercalate (f.validators.map showValidator) ++ "~" ++ f.converter

def step (line : String) : String :=
  match line.splitOn " " with
  | ["support", c, kind, arg, kw] =>
      match Deb.ofClassName c with
      | some d =>
          if kind = "name" then showSupport (fromVariableK d (.name arg) (kw = "1"))
          else if kind = "obj" then showSupport (fromVariableK d (.obj arg) (kw = "1"))
          else "bad-op"
      | none => "bad-op"
  | ["doc", c, name] => match Deb.ofClassName c with
      | some d => showSupport (supportDoc d name)
      | none => "bad-op"
  | ["forprecip", c] => match Deb.ofClassName c with
      | some d => (match forPrecip d with | none => "none" | some s => showSupport s)
      | none => "bad-op"
  | ["names"] => ",".intercalate names
  | ["fields", c] => match Deb.ofClassName c with
      | some d => ";".intercalate ((fieldsOf d).map showField)
      | none => "bad-op"
  | ["field", c, fld, v] => match Deb.ofClassName c, val? v with
      | some d, some x => (match fieldOf d fld with
          | none => "nofield"
          | some f => (match checkField f x with | .ok y => "ok " ++ showVal y | .error e => "error " ++ e))
      | _, _ => "bad-op"
  | ["setattr", c, fld, v] => match Deb.ofClassName c, val? v with
      | some d, some x => (match assignChecked d ⟨[], noExtra⟩ fld x with
          | .ok i => (match getKV i.fields fld with | some y => "ok " ++ showVal y | none => "ok ?")
          | .error e => "error " ++ e)
      | _, _ => "bad-op"
  | ["apply", c, r, base, asg] => match Deb.ofClassName c, assoc? base, assoc? asg with
      | some d, some b, some a =>
          let rs := rulesOf d
          showView (andThen (construct rs b) (fun i0 => applyView rs (r = "1") (a.foldl (fun i p => assign i p.1 p.2) i0)))
      | _, _, _ => "bad-op"
  | ["ops", c, base, ops] => match Deb.ofClassName c, assoc? base with
      | some d, some b =>
          let op? (t : String) : Option Op := if t = "A" then some .apply else (kv? t).map (fun p => Op.assign p.1 p.2)
          (match (ops.splitOn ";").mapM op? with
           | some os => let rs := rulesOf d
                        showView (andThen (andThen (construct rs b) (fun i0 => runOps rs i0 os)) (applyView rs true))
           | none => "bad-op")
      | _, _ => "bad-op"
  | ["construct", c, args] => match Deb.ofClassName c, assoc? args with
      | some d, some a => (match constructChecked d a with | .ok _ => "ok" | .error e => "error " ++ e)
      | _, _ => "bad-op"
  | ["params", nm, rg, g, vs, kw, k] => match val? nm, val? rg, assoc? g, assoc? vs, assoc? kw with
      | some nm, some rg, some g, some vs, some kw => (match getKV (paramsOf nm rg g vs kw) k with | none => "absent" | some v => showVal v)
      | _, _, _, _, _ => "bad-op"
  | ["has", a, b, c, d] => match ext? a, ext? b, ext? c, ext? d with
      | some a, some b, some c, some d =>
          showB (hasLowerThreshold a b c d) ++ showB (hasLowerBound a b c d) ++ showB (hasUpperThreshold a b c d) ++
          showB (hasUpperBound a b c d) ++ showB (hasBound a b c d) ++ showB (hasThreshold a b c d)
      | _, _, _, _ => "bad-op"
  | ["isimipdefaults"] => ";".intercalate (isimipDefaults.map (fun p => p.1 ++ "=" ++ showExt p.2))
  | _ => "bad-op"

def main : IO Unit := do loop (← IO.getStdin) step
