-- Root of the `IbicusModel` library (models, generated kernels, lemmas, property theorems).
import IbicusModel.Model.Py
