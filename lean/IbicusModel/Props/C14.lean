/-
  C14 — input contract: malformed input is rejected up front (TypeError / ValueError, in a fixed order, before
  any location is processed), convertible input is converted with a warning, suspicious values produce warnings.
  Property theorems only.  All statements are about `Model.Contract.steps`, which `Lemmas.GenContract.checkSteps`
  proves equal to the step list regenerated from `Debiaser._check_inputs_and_convert_if_possible`.
-/
import IbicusModel.Lemmas.Contract
import IbicusModel.Lemmas.GenContract

namespace Props.C14
open Model.Contract Model.DebNames Lemmas.Contract

/-- a plain float array of shape `[t, 2, 2]` -/
def good (t : Nat) : InputDesc :=
  { isNdarray := true, isMasked := false, maskAny := false, dtype := .float, shape := [t, 2, 2], hasInfNan := false, outOfRange := false }

/-- **TypeError first.**  If some argument is not an ndarray, the call raises `TypeError` naming the *first* such
    argument, with no warning emitted before — whatever else is wrong with any argument. -/
theorem type_first (x : Inputs) (a : Arg) (h : firstBad (fun d => !d.isNdarray) x = some a) :
    runChecks steps x = { warns := [], result := .error (.typeError .isNdarray a) } := by
  obtain ⟨o, hh, f⟩ := x
  cases h1 : o.isNdarray <;> cases h2 : hh.isNdarray <;> cases h3 : f.isNdarray <;>
    simp [firstBad, args3, getArg, h1, h2, h3] at h <;> subst h <;>
    simp [runChecks, steps, runSteps, runStep, triggers, getArg, h1, h2, h3]

example : firstBad (fun d => !d.isNdarray) (good 40, { good 50 with isNdarray := false, shape := [] }, { good 60 with shape := [60, 2] }) = some .cmHist := by
  decide

/-- **then the dtype.**  All three are ndarrays and some dtype cannot be converted to float: `ValueError` for the first
    such argument; the only warnings so far are "not a float dtype" ones, one of them for that argument. -/
theorem dtype_second (x : Inputs) (a : Arg)
    (hn : ∀ b ∈ args3, (getArg x b).isNdarray = true)
    (h : firstBad (fun d => d.dtype.isUnconvertible) x = some a) :
    (runChecks steps x).result = .error (.valueError .floatDtype a) ∧
    { kind := .floatDtype, arg := a } ∈ (runChecks steps x).warns ∧
    ∀ w ∈ (runChecks steps x).warns, w.kind = .floatDtype := by
  obtain ⟨o, hh, f⟩ := x
  have n1 : o.isNdarray = true := hn .obs (by simp [args3])
  have n2 : hh.isNdarray = true := hn .cmHist (by simp [args3])
  have n3 : f.isNdarray = true := hn .cmFuture (by simp [args3])
  unfold runChecks
  rw [steps_phases, runSteps_append, type_phase _ _ _ _ n1 n2 n3]
  simp only []
  rw [runSteps_append]
  obtain ⟨o1, o2, o3, od, o5, o6, o7⟩ := o
  obtain ⟨h1, h2, h3, hd, h5, h6, h7⟩ := hh
  obtain ⟨f1, f2, f3, fd, f5, f6, f7⟩ := f
  cases od <;> cases hd <;> cases fd <;>
    simp [firstBad, args3, getArg, DType.isUnconvertible] at h <;> subst h <;>
    simp [dtypeSteps, runSteps, runStep, triggers, getArg, setArg, convert, warnOf, DType.isFloat]

example : firstBad (fun d => d.dtype.isUnconvertible) ({ good 40 with dtype := .intBool }, { good 50 with dtype := .unconvertible }, good 60) = some .cmHist := by
  decide

/-- **then the number of dimensions.**  ndarrays with convertible dtypes, some `ndim ≠ 3`: `ValueError` for the first such
    argument (the dtype warnings have been emitted). -/
theorem ndim_third (x : Inputs) (a : Arg)
    (hn : ∀ b ∈ args3, (getArg x b).isNdarray = true ∧ (getArg x b).dtype.isUnconvertible = false)
    (h : firstBad (fun d => d.ndim != 3) x = some a) :
    runChecks steps x = { warns := dtypeWarns x, result := .error (.valueError .ndim3 a) } := by
  obtain ⟨o, hh, f⟩ := x
  have n1 := hn .obs (by simp [args3])
  have n2 := hn .cmHist (by simp [args3])
  have n3 := hn .cmFuture (by simp [args3])
  simp only [getArg] at n1 n2 n3
  have d1 : o.dtype ≠ .unconvertible := by intro e; rw [e] at n1; simp [DType.isUnconvertible] at n1
  have d2 : hh.dtype ≠ .unconvertible := by intro e; rw [e] at n2; simp [DType.isUnconvertible] at n2
  have d3 : f.dtype ≠ .unconvertible := by intro e; rw [e] at n3; simp [DType.isUnconvertible] at n3
  unfold runChecks
  rw [steps_phases, runSteps_append, type_phase _ _ _ _ n1.1 n2.1 n3.1]
  simp only []
  rw [runSteps_append, dtype_phase _ _ _ _ d1 d2 d3]
  simp only []
  rw [runSteps_append]
  by_cases s1 : o.ndim = 3 <;> by_cases s2 : hh.ndim = 3 <;> by_cases s3 : f.ndim = 3 <;>
    simp [firstBad, args3, getArg, s1, s2, s3] at h <;> subst h <;>
    simp [ndimSteps, runSteps, runStep, triggers, getArg, s1, s2, s3]

example : firstBad (fun d => d.ndim != 3) (good 40, { good 50 with shape := [50, 2] }, { good 60 with shape := [60, 2, 2, 1] }) = some .cmHist := by
  decide

/-- **then the spatial shapes.**  ndarrays, convertible, all 3-dimensional, spatial shapes not all equal: `ValueError`. -/
theorem shape_fourth (x : Inputs)
    (hn : ∀ b ∈ args3, (getArg x b).isNdarray = true ∧ (getArg x b).dtype.isUnconvertible = false ∧ (getArg x b).ndim = 3)
    (h : ¬ (x.1.spatial = x.2.1.spatial ∧ x.1.spatial = x.2.2.spatial)) :
    runChecks steps x = { warns := dtypeWarns x, result := .error (.valueError .sameSpatialShape .all) } := by
  obtain ⟨o, hh, f⟩ := x
  have n1 := hn .obs (by simp [args3])
  have n2 := hn .cmHist (by simp [args3])
  have n3 := hn .cmFuture (by simp [args3])
  simp only [getArg] at n1 n2 n3
  have d1 : o.dtype ≠ .unconvertible := by intro e; rw [e] at n1; simp [DType.isUnconvertible] at n1
  have d2 : hh.dtype ≠ .unconvertible := by intro e; rw [e] at n2; simp [DType.isUnconvertible] at n2
  have d3 : f.dtype ≠ .unconvertible := by intro e; rw [e] at n3; simp [DType.isUnconvertible] at n3
  unfold runChecks
  rw [steps_phases, runSteps_append, type_phase _ _ _ _ n1.1 n2.1 n3.1]
  simp only []
  rw [runSteps_append, dtype_phase _ _ _ _ d1 d2 d3]
  simp only []
  rw [runSteps_append, ndim_phase _ _ _ _ (by simpa using n1.2.2) (by simpa using n2.2.2) (by simpa using n3.2.2)]
  simp only []
  rw [runSteps_append]
  simp only [] at h
  rw [not_and_or] at h
  simp [shapeSteps, runSteps, runStep, triggers, h]

example : ¬ ((good 40).spatial = ({ good 50 with shape := [50, 2, 3] } : InputDesc).spatial ∧ (good 40).spatial = (good 60).spatial) := by
  decide

/-- **Accepted input, closed form.**  Well-formed input (three ndarrays of convertible dtype, 3-dimensional, equal spatial
    shapes; *any* three time lengths) is accepted; what is passed on is float, unmasked, with NaN at masked cells; the
    warnings are exactly: one per non-float argument, one per argument containing NaN/inf, one per argument with
    out-of-range values, one per masked argument — in this order. -/
theorem accepted (x : Inputs) (h : WellFormed x) :
    runChecks steps x = { warns := okWarns x, result := .ok (mapInputs convDesc x) } := by
  obtain ⟨o, hh, f⟩ := x
  obtain ⟨hn, e1, e2⟩ := h
  have n1 := hn .obs (by simp [args3])
  have n2 := hn .cmHist (by simp [args3])
  have n3 := hn .cmFuture (by simp [args3])
  simp only [getArg] at n1 n2 n3
  unfold runChecks
  rw [runSteps_wellFormed o hh f n1.1 n2.1 n3.1 n1.2.1 n2.2.1 n3.2.1 n1.2.2 n2.2.2 n3.2.2 e1 e2]
  rfl

example : WellFormed ({ good 40 with dtype := .intBool }, good 50, { good 60 with isMasked := true, maskAny := true }) := by
  refine ⟨?_, by decide, by decide⟩
  intro a ha
  simp [args3] at ha
  rcases ha with rfl | rfl | rfl <;> decide

/-- **series of different time lengths are accepted**: changing the three time lengths of well-formed input keeps it
    well-formed and changes no warning. -/
theorem time_lengths_unconstrained (x : Inputs) (h : WellFormed x) (t1 t2 t3 : Nat) :
    let x' : Inputs := (withTime x.1 t1, withTime x.2.1 t2, withTime x.2.2 t3)
    WellFormed x' ∧ (runChecks steps x').warns = (runChecks steps x).warns ∧
      ∃ y, (runChecks steps x').result = .ok y := by
  obtain ⟨o, hh, f⟩ := x
  obtain ⟨hn, e1, e2⟩ := h
  have n1 := hn .obs (by simp [args3])
  have n2 := hn .cmHist (by simp [args3])
  have n3 := hn .cmFuture (by simp [args3])
  simp only [getArg] at n1 n2 n3
  have len : ∀ d : InputDesc, d.ndim = 3 → ∀ t, (withTime d t).ndim = 3 := by
    intro d hd t
    unfold InputDesc.ndim withTime at *
    match hs : d.shape, hd with
    | [_, _, _], _ => simp
  have wf : WellFormed (withTime o t1, withTime hh t2, withTime f t3) := by
    refine ⟨?_, ?_, ?_⟩
    · intro a ha
      simp [args3] at ha
      rcases ha with rfl | rfl | rfl
      · exact ⟨n1.1, n1.2.1, len o n1.2.2 t1⟩
      · exact ⟨n2.1, n2.2.1, len hh n2.2.2 t2⟩
      · exact ⟨n3.1, n3.2.1, len f n3.2.2 t3⟩
    · simpa [withTime, InputDesc.spatial] using e1
    · simpa [withTime, InputDesc.spatial] using e2
  refine ⟨wf, ?_, ?_⟩
  · rw [accepted _ wf, accepted _ ⟨hn, e1, e2⟩]
    rfl
  · rw [accepted _ wf]
    exact ⟨_, rfl⟩

/-- integer / bool input is converted to float, with a warning -/
theorem conversions_int (x : Inputs) (h : WellFormed x) (a : Arg) (ha : a ∈ args3)
    (hd : (getArg x a).dtype = .intBool) :
    { kind := .floatDtype, arg := a } ∈ (runChecks steps x).warns ∧
    ∃ y, (runChecks steps x).result = .ok y ∧ (getArg y a).dtype = .float := by
  rw [accepted x h]
  obtain ⟨o, hh, f⟩ := x
  simp [args3] at ha
  refine ⟨?_, _, rfl, ?_⟩
  · rcases ha with rfl | rfl | rfl <;>
      simp_all [okWarns, dtypeWarns, phaseWarns, warnIf, getArg, DType.isFloat]
  · rcases ha with rfl | rfl | rfl <;> simp [mapInputs, getArg, convDesc]

/-- a masked array is converted to a plain array, masked cells become NaN, with a warning (whose text says whether
    cells were masked) -/
theorem conversions_masked (x : Inputs) (h : WellFormed x) (a : Arg) (ha : a ∈ args3)
    (hm : (getArg x a).isMasked = true) :
    { kind := .masked, arg := a, flag := (getArg x a).maskAny } ∈ (runChecks steps x).warns ∧
    ∃ y, (runChecks steps x).result = .ok y ∧ (getArg y a).isMasked = false ∧
      ((getArg x a).maskAny = true → (getArg y a).hasInfNan = true) := by
  rw [accepted x h]
  obtain ⟨o, hh, f⟩ := x
  simp [args3] at ha
  refine ⟨?_, _, rfl, ?_, ?_⟩
  · rcases ha with rfl | rfl | rfl <;>
      simp_all [okWarns, maskedWarns, phaseWarns, warnIf, getArg]
  · rcases ha with rfl | rfl | rfl <;> simp [mapInputs, getArg, convDesc]
  · rcases ha with rfl | rfl | rfl <;>
      simp_all [mapInputs, getArg, convDesc, unmask]

/-- NaN / inf in an input produces a warning for that argument — and only then -/
theorem warns_infNan (x : Inputs) (h : WellFormed x) (a : Arg) (ha : a ∈ args3) :
    ({ kind := .infNan, arg := a } ∈ (runChecks steps x).warns ↔ (getArg x a).hasInfNan = true) := by
  rw [accepted x h]
  simp only [okWarns, dtypeWarns, infNanWarns, rangeWarns, maskedWarns, List.mem_append, mem_phaseWarns]
  simp [args3] at ha ⊢
  rcases ha with rfl | rfl | rfl <;> simp

/-- values outside the reasonable physical range produce a warning for that argument — and only then -/
theorem warns_outOfRange (x : Inputs) (h : WellFormed x) (a : Arg) (ha : a ∈ args3) :
    ({ kind := .outOfRange, arg := a } ∈ (runChecks steps x).warns ↔ (getArg x a).outOfRange = true) := by
  rw [accepted x h]
  simp only [okWarns, dtypeWarns, infNanWarns, rangeWarns, maskedWarns, List.mem_append, mem_phaseWarns]
  simp [args3] at ha ⊢
  rcases ha with rfl | rfl | rfl <;> simp

/-- clean float arrays pass unchanged and silently -/
theorem clean_untouched (t1 t2 t3 : Nat) :
    runChecks steps (good t1, good t2, good t3) = { warns := [], result := .ok (good t1, good t2, good t3) } := by
  rfl

/-- `_check_output`: NaN/inf in the result and out-of-range results each produce exactly one warning, nothing else -/
theorem output_warns (out : InputDesc) :
    (runOutputCheck outputSteps out).warns =
      (bif out.hasInfNan then [{ kind := .infNan, arg := .output }] else []) ++
      (bif out.outOfRange then [{ kind := .outOfRange, arg := .output }] else []) := by
  cases h1 : out.hasInfNan <;> cases h2 : out.outOfRange <;>
    simp [runOutputCheck, runChecks, outputSteps, runSteps, runStep, triggers, getArg, warnOf, h1, h2]

/-- **Exceptions precede every location.**  In the model of `apply` (checks, then the map over locations on the converted
    inputs) a rejected input never reaches the per-location function … -/
theorem error_before_locations {β} (x : Inputs) (e : Err) (f : Inputs → β)
    (h : (runChecks steps x).result = .error e) : applyModel steps x f = .error e := by
  unfold applyModel; rw [h]

/-- … and both `apply` methods of the source have that shape: the checks are called before any
    `(parallel_)map_over_locations`, their result is what is passed on, and the output is checked before it is returned
    (order facts regenerated from the AST of `Debiaser.apply` and `DeltaChange.apply`, the only `apply` methods). -/
theorem apply_runs_checks_first :
    applyOrderOk Gen.Contract.applyShapes = true ∧ Gen.Contract.applyShapes.map (·.cls) = ["Debiaser", "DeltaChange"] ∧
      Gen.Contract.returnsConverted = true := by
  rw [Lemmas.GenContract.applyShapes, Lemmas.GenContract.returnsConverted]
  exact ⟨by decide, rfl, rfl⟩

/-- **Time arrays.**  Where dates are consumed, a time array whose length differs from its series is a `ValueError`. -/
theorem time_mismatch (d : Deb) (c : TimeCfg) (nO nH nF tO tH tF : Int)
    (h : ((timeChecked d c).1 = true ∧ nO ≠ tO) ∨ ((timeChecked d c).2.1 = true ∧ nH ≠ tH) ∨
         ((timeChecked d c).2.2 = true ∧ nF ≠ tF)) :
    timeOutcome d c nO nH nF tO tH tF = .error "ValueError" := by
  unfold timeOutcome
  rcases hc : timeChecked d c with ⟨co, ch, cf⟩
  rw [hc] at h
  simp only [] at h ⊢
  rcases h with ⟨h1, h2⟩ | ⟨h1, h2⟩ | ⟨h1, h2⟩ <;> simp [h1, h2]

example : (timeChecked .cdft ⟨false, true⟩).2.2 = true ∧ (60 : Int) ≠ 59 := by decide

/-- matching lengths (or arrays that are not consumed) never raise -/
theorem time_ok (d : Deb) (c : TimeCfg) (nO nH nF tO tH tF : Int)
    (h1 : (timeChecked d c).1 = true → nO = tO) (h2 : (timeChecked d c).2.1 = true → nH = tH)
    (h3 : (timeChecked d c).2.2 = true → nF = tF) :
    timeOutcome d c nO nH nF tO tH tF = .ok () := by
  unfold timeOutcome
  rcases hc : timeChecked d c with ⟨co, ch, cf⟩
  rw [hc] at h1 h2 h3
  simp only [] at h1 h2 h3 ⊢
  cases co <;> cases ch <;> cases cf <;> simp_all

/-- which configurations consume which time arrays (complete table over 8 debiasers × 4 window configurations):
    ISIMIP always all three; running-window mode all three; CDFt / QDM with only the year windows on: `time_cm_future`;
    otherwise none. -/
theorem time_consumers (d : Deb) (c : TimeCfg) :
    timeChecked d c =
      (if d = .isimip ∨ c.rwMode = true then (true, true, true)
       else if (d = .cdft ∨ d = .quantileDeltaMapping) ∧ c.yearMode = true then (false, false, true)
       else (false, false, false)) := by
  obtain ⟨r, y⟩ := c
  cases d <;> cases r <;> cases y <;> decide

/-- where all three are consumed, the outcome is that of `check_time_information_and_raise_error` -/
theorem time_all3 (d : Deb) (c : TimeCfg) (nO nH nF tO tH tF : Int) (h : timeChecked d c = (true, true, true)) :
    timeOutcome d c nO nH nF tO tH tF = checkTime nO nH nF tO tH tF := by
  unfold timeOutcome checkTime
  rw [h]
  by_cases a : nO = tO <;> by_cases b : nH = tH <;> by_cases e : nF = tF <;> simp [a, b, e]

/-- **Partial time information.**  A time array that *is given* with the wrong length is a `ValueError` in every
    configuration that consumes it — no matter which of the other time arrays are omitted (omitted ones are inferred with the
    right length; inference never replaces a given array). -/
theorem time_partial_mismatch (d : Deb) (c : TimeCfg) (nO nH nF : Int) (tO tH tF : Option Int)
    (h : ((timeChecked d c).1 = true ∧ ∃ x, tO = some x ∧ x ≠ nO) ∨ ((timeChecked d c).2.1 = true ∧ ∃ x, tH = some x ∧ x ≠ nH) ∨
         ((timeChecked d c).2.2 = true ∧ ∃ x, tF = some x ∧ x ≠ nF)) :
    timeOutcomeP d c nO nH nF tO tH tF = .error "ValueError" := by
  unfold timeOutcomeP inferTime
  apply time_mismatch
  rcases h with ⟨h1, x, rfl, hx⟩ | ⟨h1, x, rfl, hx⟩ | ⟨h1, x, rfl, hx⟩
  · exact Or.inl ⟨h1, by simpa using Ne.symm hx⟩
  · exact Or.inr (Or.inl ⟨h1, by simpa using Ne.symm hx⟩)
  · exact Or.inr (Or.inr ⟨h1, by simpa using Ne.symm hx⟩)

example : (timeChecked .linearScaling ⟨true, false⟩).2.1 = true ∧ ∃ x : Int, (some 49 : Option Int) = some x ∧ x ≠ 50 := by
  refine ⟨by decide, 49, rfl, by decide⟩

/-- omitted time arrays never cause a rejection: if every *given* array that is consumed has the right length, the call passes -/
theorem time_partial_ok (d : Deb) (c : TimeCfg) (nO nH nF : Int) (tO tH tF : Option Int)
    (h1 : (timeChecked d c).1 = true → ∀ x, tO = some x → x = nO) (h2 : (timeChecked d c).2.1 = true → ∀ x, tH = some x → x = nH)
    (h3 : (timeChecked d c).2.2 = true → ∀ x, tF = some x → x = nF) :
    timeOutcomeP d c nO nH nF tO tH tF = .ok () := by
  unfold timeOutcomeP inferTime
  apply time_ok
  · intro hc; cases tO with
    | none => rfl
    | some x => exact (h1 hc x rfl).symm
  · intro hc; cases tH with
    | none => rfl
    | some x => exact (h2 hc x rfl).symm
  · intro hc; cases tF with
    | none => rfl
    | some x => exact (h3 hc x rfl).symm

/-- **Accepted through every dispatch path.**  Serial and parallel dispatch of both `apply` methods allocate the result on
    the documented time axis (obs for DeltaChange, cm_future for the other seven) — so three *different* time lengths fit in
    either mode (order facts regenerated from the AST; exhaustive over the eight debiasers). -/
theorem dispatch_output_axis : ∀ d ∈ Deb.all, dispatchAxesOk Gen.Contract.applyShapes d = true := by
  rw [Lemmas.GenContract.applyShapes]; decide

/-- the result of an accepted call has the time length of that series, whatever the other two lengths are -/
theorem output_shape_axis (d : Deb) (x : Inputs) (t1 t2 t3 : Nat) (h : WellFormed x) :
    outputShape d (withTime x.1 t1, withTime x.2.1 t2, withTime x.2.2 t3) =
      (match outputAxis d with | .obs => t1 | .cmHist => t2 | _ => t3) :: x.1.spatial := by
  obtain ⟨o, hh, f⟩ := x
  obtain ⟨_, e1, e2⟩ := h
  cases d <;> simp [outputShape, outputAxis, getArg, withTime, InputDesc.spatial] <;> simp_all [InputDesc.spatial]

/-- **The contract as a complete decision, for every description of the three inputs**: `TypeError` iff some argument is
    not an ndarray; otherwise `ValueError` iff some dtype cannot be converted, some argument is not 3-dimensional or the
    spatial shapes differ; otherwise the call is accepted.  (No hypothesis: every combination of malformations is covered.) -/
theorem outcome_classification (x : Inputs) : classOf (runChecks steps x) = specClass x := by
  obtain ⟨o, hh, f⟩ := x
  rcases firstBad_isSome_or_none (fun d => !d.isNdarray) (o, hh, f) with ⟨a, ha⟩ | hn
  · rw [type_first _ a ha]; simp [classOf, specClass, ha]
  obtain ⟨n1, n2, n3⟩ := firstBad_none _ o hh f hn
  simp only [Bool.not_eq_false'] at n1 n2 n3
  have hnd : ∀ b ∈ args3, (getArg (o, hh, f) b).isNdarray = true := by
    intro b hb; simp [args3] at hb; rcases hb with rfl | rfl | rfl <;> simp [getArg, n1, n2, n3]
  rcases firstBad_isSome_or_none (fun d => d.dtype.isUnconvertible) (o, hh, f) with ⟨a, ha⟩ | hu
  · have := (dtype_second _ a hnd ha).1
    simp [classOf, specClass, this, hn, ha]
  obtain ⟨u1, u2, u3⟩ := firstBad_none _ o hh f hu
  have hnu : ∀ b ∈ args3, (getArg (o, hh, f) b).isNdarray = true ∧ (getArg (o, hh, f) b).dtype.isUnconvertible = false := by
    intro b hb; simp [args3] at hb; rcases hb with rfl | rfl | rfl <;> simp [getArg, n1, n2, n3, u1, u2, u3]
  rcases firstBad_isSome_or_none (fun d => d.ndim != 3) (o, hh, f) with ⟨a, ha⟩ | hd
  · rw [ndim_third _ a hnu ha]; simp [classOf, specClass, hn, hu, ha]
  obtain ⟨d1, d2, d3⟩ := firstBad_none _ o hh f hd
  simp only [bne_eq_false_iff_eq] at d1 d2 d3
  have hall : ∀ b ∈ args3, (getArg (o, hh, f) b).isNdarray = true ∧ (getArg (o, hh, f) b).dtype.isUnconvertible = false ∧
      (getArg (o, hh, f) b).ndim = 3 := by
    intro b hb; simp [args3] at hb; rcases hb with rfl | rfl | rfl <;> simp [getArg, n1, n2, n3, u1, u2, u3, d1, d2, d3]
  by_cases hs : o.spatial = hh.spatial ∧ o.spatial = f.spatial
  · have wf : WellFormed (o, hh, f) := by
      refine ⟨?_, hs.1, hs.2⟩
      intro b hb
      obtain ⟨q1, q2, q3⟩ := hall b hb
      refine ⟨q1, ?_, q3⟩
      intro e; rw [e] at q2; simp [DType.isUnconvertible] at q2
    rw [accepted _ wf]
    simp [classOf, specClass, hn, hu, hd, ← hs.1, ← hs.2]
  · rw [shape_fourth _ hall hs]
    simp only [classOf, specClass, hn, hu, hd]
    rw [not_and_or] at hs
    rcases hs with h1 | h1 <;> simp [h1]

/-- the three classes all occur, and so do the three grounds of a `ValueError` -/
example : specClass (good 40, { good 50 with isNdarray := false }, good 60) = .typeError ∧
    specClass (good 40, { good 50 with shape := [50, 2] }, good 60) = .valueError ∧
    specClass (good 40, { good 50 with dtype := .unconvertible }, good 60) = .valueError ∧
    specClass (good 40, { good 50 with shape := [50, 2, 3] }, good 60) = .valueError ∧
    specClass (good 40, { good 50 with dtype := .intBool, isMasked := true, hasInfNan := true }, good 60) = .accepted := by decide

/-- **what reaches `apply_location`**: after an accepted call every one of the three arrays is a plain (unmasked) float
    array of unchanged shape -/
theorem reaches_locations_plain_float (x : Inputs) (h : WellFormed x) :
    ∃ y, (runChecks steps x).result = .ok y ∧ ∀ a ∈ args3,
      (getArg y a).dtype = .float ∧ (getArg y a).isMasked = false ∧ (getArg y a).isNdarray = (getArg x a).isNdarray ∧
      (getArg y a).shape = (getArg x a).shape := by
  rw [accepted x h]
  refine ⟨_, rfl, ?_⟩
  obtain ⟨o, hh, f⟩ := x
  intro a ha
  simp [args3] at ha
  rcases ha with rfl | rfl | rfl <;> simp [mapInputs, getArg, convDesc] <;> (unfold unmask toFloat; split <;> split <;> rfl)

/-- **where dates are consumed is read off the source**: the table `timeChecked` equals what the regenerated table of
    time-check sites (class, method, guarding attribute, kind of check) and the regenerated "whose `apply_location` runs"
    table determine, for all eight debiasers and all four window configurations; every site precedes the per-window
    computation of its method and fills omitted arrays only in the modelled way. -/
theorem timeChecked_from_sites : ∀ d ∈ Deb.all, ∀ r y : Bool,
    timeChecked d ⟨r, y⟩ = checkedFromSites Gen.Contract.timeSites Gen.Contract.applyLocationOwner d ⟨r, y⟩ := by
  rw [Lemmas.GenContract.timeSites, Lemmas.GenContract.applyLocationOwner]; decide

theorem time_checks_precede_compute : ∀ s ∈ Gen.Contract.timeSites,
    s.precedesCompute = true ∧ (s.infer = "all3-if-any-none" ∨ s.infer = "future-if-none") := by
  rw [Lemmas.GenContract.timeSites]; decide

end Props.C14
