/-
  C07 — running windows adjust every time step exactly once, from a window containing it.
  Property theorems only (helper lemmas live in `Lemmas/`).  Stated on `Model.Windows`;
  `Lemmas.GenWindows` proves the model equal to the kernels regenerated from the source.
-/
import IbicusModel.Lemmas.Windows
import IbicusModel.Lemmas.GenWindows
import IbicusModel.Lemmas.Skeleton
import Mathlib.Data.List.Perm.Basic
import Mathlib.Data.List.Count

namespace Props.C07
open Model.Windows Lemmas.Windows Model.Skeleton Lemmas.Skeleton

/-- `__attrs_post_init__` (days and years): for positive settings the normalised lengths are odd,
    positive, and `step ≤ length`; otherwise construction fails. -/
theorem postInit_ok (L S L' S' : Int) (hL : 0 < L) (hS : 0 < S) (h : postInit L S = .ok (L', S')) :
    L' % 2 = 1 ∧ S' % 2 = 1 ∧ 0 < S' ∧ S' ≤ L' ∧ L ≤ L' ∧ L' ≤ L + 1 ∧ S ≤ S' ∧ S' ≤ S + 1 := by
  unfold postInit normOdd at h
  split_ifs at h <;> simp only [Except.ok.injEq, Prod.mk.injEq, reduceCtorEq] at h <;>
    obtain ⟨rfl, rfl⟩ := h <;> omega

theorem postInit_error_iff (L S : Int) : postInit L S = .error "ValueError" ↔ normOdd S > normOdd L := by
  unfold postInit; split_ifs with h <;> simp [h]

/-- **Exact cover, days of year.**  For every odd step `S = 2h+1` and *every* multiset of days of year
    (any start date, any number of years, leap or not, holes allowed), every time step `i` is in the
    adjust-set of exactly one window centre (the filtered list of centres is a singleton, so centres
    are counted with multiplicity). -/
theorem doy_cover_unique (S h : Int) (doy : List Int) (i : Nat) (hS : S = 2 * h + 1) (hh : 0 ≤ h)
    (hi : i < doy.length) (hr : ∀ d ∈ doy, 0 ≤ d ∧ d ≤ 366) :
    ∃ c, (centers S doy).filter (fun c => (idxAdjust S doy c).contains i) = [c] := by
  have hmem : doy[i] ∈ doy := List.getElem_mem hi
  obtain ⟨c, hc⟩ := cover_unique (Py.minL doy) (Py.maxL doy) S h doy[i] hS hh
    (minL_le doy _ hmem) (le_maxL doy _ hmem)
  refine ⟨c, ?_⟩
  unfold centers
  rw [← hc]
  apply List.filter_congr
  intro c' _
  have hb := hr _ hmem
  rw [Bool.eq_iff_iff, List.contains_iff_mem]
  unfold idxAdjust
  rw [mem_indicesIn]
  simp only [hi, exists_true_left, mem_adjustRange, inBlock, Bool.and_eq_true, decide_eq_true_eq]
  omega

/-- the same for the centres `use` actually iterates over (centres that adjust nothing are skipped) -/
theorem use_cover_unique (S h : Int) (doy : List Int) (i : Nat) (hS : S = 2 * h + 1) (hh : 0 ≤ h)
    (hi : i < doy.length) (hr : ∀ d ∈ doy, 0 ≤ d ∧ d ≤ 366) :
    ∃ c, (useCenters S doy).filter (fun c => (idxAdjust S doy c).contains i) = [c] := by
  obtain ⟨c, hc⟩ := doy_cover_unique S h doy i hS hh hi hr
  refine ⟨c, ?_⟩
  unfold useCenters
  rw [List.filter_filter, ← hc]
  apply List.filter_congr
  intro c' _
  by_cases hb : (idxAdjust S doy c').contains i = true
  · have : (idxAdjust S doy c').isEmpty = false := by
      rw [List.contains_iff_mem] at hb
      cases hl : idxAdjust S doy c' with
      | nil => rw [hl] at hb; simp at hb
      | cons a t => rfl
    simp [hb, this]
  · have hb' : (idxAdjust S doy c').contains i = false := by simpa using hb
    rw [hb']; simp

/-- every centre `use` iterates over adjusts at least one step, and that step is in its window -/
theorem use_nonempty (S : Int) (doy : List Int) (c : Int) (hc : c ∈ useCenters S doy) :
    idxAdjust S doy c ≠ [] := by
  unfold useCenters at hc
  simp only [List.mem_filter, Bool.not_eq_true', List.isEmpty_eq_false_iff] at hc
  exact hc.2

/-- **The window's calibration sample contains every step it adjusts** (`S ≤ L`, both odd). -/
theorem doy_adjust_subset_window (L S : Int) (doy : List Int) (c : Int) (i : Nat)
    (hSL : S ≤ L) (hS : 0 < S) (hr : ∀ d ∈ doy, 1 ≤ d ∧ d ≤ 366)
    (hi : i ∈ idxAdjust S doy c) : i ∈ idxWindow L doy c := by
  unfold idxAdjust at hi
  unfold idxWindow
  rw [mem_indicesIn] at hi ⊢
  obtain ⟨hlt, hm⟩ := hi
  refine ⟨hlt, ?_⟩
  have hb := hr _ (List.getElem_mem hlt)
  rw [mem_adjustRange] at hm
  apply mem_windowRange_of_close _ _ _ hb.1 hb.2
  have : S / 2 ≤ L / 2 := Int.ediv_le_ediv (by omega) hSL
  omega

/-- Centres are pairwise distinct, so "exactly one centre in the list" is "exactly one window". -/
theorem centers_nodup (S : Int) (doy : List Int) (hS : 0 < S) : (centers S doy).Nodup := by
  unfold centers centersMM Py.arange
  apply List.Nodup.map_on _ List.nodup_range
  intro a _ b _ hab
  have : (a : Int) * S = (b : Int) * S := by omega
  exact_mod_cast Int.eq_of_mul_eq_mul_right (ne_of_gt hS) this

/-! ### Years (CDFt / QDM windows over the years of the future period) -/

theorem mem_yearsAdjusted (S c y : Int) : y ∈ yearsAdjusted S c ↔ inBlock S c y = true := by
  unfold yearsAdjusted inBlock
  rw [mem_arange1]; simp only [Bool.and_eq_true, decide_eq_true_eq]; omega

/-- **Exact cover, years** — for *every* set of years present (consecutive ranges and e.g. the
    leap-year-only sets `{y₀ + 4k}` alike) each year present is adjusted by exactly one centre. -/
theorem years_cover_unique (S h : Int) (ys : List Int) (y : Int) (hS : S = 2 * h + 1) (hh : 0 ≤ h)
    (hy : y ∈ ys) :
    ∃ c, (yearCenters S ys).filter (fun c => inBlock S c y) = [c] := by
  have h1 := minL_le ys y hy
  have h2 := le_maxL ys y hy
  unfold yearCenters
  simp only []
  by_cases hspan : Py.maxL ys - Py.minL ys + 1 ≤ S
  · simp only [hspan, if_true]
    refine ⟨midRound (Py.minL ys) (Py.maxL ys), ?_⟩
    have : inBlock S (midRound (Py.minL ys) (Py.maxL ys)) y = true := by
      unfold inBlock midRound
      simp only [Bool.and_eq_true, decide_eq_true_eq]
      split_ifs <;> omega
    simp [this]
  · simp only [hspan, if_false]
    obtain ⟨c, hc⟩ := cover_unique (Py.minL ys) (Py.maxL ys) S h y hS hh h1 h2
    refine ⟨c, ?_⟩
    rw [List.filter_filter, ← hc]
    apply List.filter_congr
    intro c' _
    by_cases hb : inBlock S c' y = true
    · have : (Py.isin (yearsAdjusted S c') ys).any id = true := by
        unfold Py.isin
        simp only [List.any_map, List.any_eq_true, Function.comp, id]
        exact ⟨y, (mem_yearsAdjusted S c' y).mpr hb, by simpa using hy⟩
      simp [hb, this]
    · simp [hb]

/-- every year a centre adjusts lies in that centre's calibration window (`S ≤ L`) -/
theorem years_adjusted_subset_window (L S c y : Int) (hSL : S ≤ L) (hS : 0 < S)
    (hy : y ∈ yearsAdjusted S c) : y ∈ yearsInWindow L c := by
  unfold yearsAdjusted at hy; unfold yearsInWindow
  rw [mem_arange1] at hy ⊢
  have : S / 2 ≤ L / 2 := Int.ediv_le_ediv (by omega) hSL
  omega

/-- the kept year centres really adjust a year that is present (no empty window is processed) -/
theorem yearCenters_nonempty_adjust (S : Int) (ys : List Int) (c : Int)
    (hspan : ¬ (Py.maxL ys - Py.minL ys + 1 ≤ S)) (hc : c ∈ yearCenters S ys) :
    ∃ y ∈ ys, y ∈ yearsAdjusted S c := by
  unfold yearCenters at hc
  simp only [hspan, if_false, List.mem_filter] at hc
  obtain ⟨_, hany⟩ := hc
  unfold Py.isin at hany
  simp only [List.any_map, List.any_eq_true, Function.comp, id] at hany
  obtain ⟨y, hy1, hy2⟩ := hany
  exact ⟨y, by simpa using hy2, hy1⟩


/-! ### The write-back skeletons: every time step of the returned series is assigned

For an arbitrary element type `α` and an arbitrary per-window function `f` (no assumption on `f` at all): whenever
the loop completes, the result has the length of the corrected series and every position holds a written value
(`some _`; `none` models the uninitialised memory `np.empty_like` returns). -/

/-- `RunningWindowDebiaser.apply_location` / ISIMIP's running-window loop -/
theorem applyLocationRW_all_some {α} (f : WinFn α) (L S h : Int) (dO dH dF : List Int)
    (obs hist fut : List α) (out : List (Option α))
    (hS : S = 2 * h + 1) (hh : 0 ≤ h) (hlen : dF.length = fut.length)
    (hr : ∀ d ∈ dF, 0 ≤ d ∧ d ≤ 366)
    (hrun : applyLocationRW f L S dO dH dF obs hist fut = .ok out) :
    out.length = fut.length ∧ ∀ i, i < fut.length → ∃ v, out[i]? = some (some v) := by
  apply runLoop_all_some _ _ _ _ _ hrun
  intro i hi
  obtain ⟨c, hc⟩ := use_cover_unique S h dF i hS hh (by omega) hr
  have hcm : c ∈ (useCenters S dF).filter (fun c => (idxAdjust S dF c).contains i) := by
    rw [hc]; exact List.mem_singleton.mpr rfl
  obtain ⟨hc1, hc2⟩ := List.mem_filter.mp hcm
  refine ⟨c, hc1, fun ws hws => ?_⟩
  rw [windowWrites_keys _ _ _ _ _ _ _ _ _ _ _ hws]
  exact List.contains_iff_mem.mp hc2

/-- `DeltaChange.apply_location`: the corrected series is `obs` -/
theorem applyLocationDC_all_some {α} (f : WinFn α) (L S h : Int) (dO dH dF : List Int)
    (obs hist fut : List α) (out : List (Option α))
    (hS : S = 2 * h + 1) (hh : 0 ≤ h) (hlen : dO.length = obs.length)
    (hr : ∀ d ∈ dO, 0 ≤ d ∧ d ≤ 366)
    (hrun : applyLocationDC f L S dO dH dF obs hist fut = .ok out) :
    out.length = obs.length ∧ ∀ i, i < obs.length → ∃ v, out[i]? = some (some v) := by
  apply runLoop_all_some _ _ _ _ _ hrun
  intro i hi
  obtain ⟨c, hc⟩ := use_cover_unique S h dO i hS hh (by omega) hr
  have hcm : c ∈ (useCenters S dO).filter (fun c => (idxAdjust S dO c).contains i) := by
    rw [hc]; exact List.mem_singleton.mpr rfl
  obtain ⟨hc1, hc2⟩ := List.mem_filter.mp hcm
  refine ⟨c, hc1, fun ws hws => ?_⟩
  rw [windowWritesDC_keys _ _ _ _ _ _ _ _ _ _ _ hws]
  exact List.contains_iff_mem.mp hc2

/-- the CDFt / QDM loop over year windows of the future period, for every set of years present -/
theorem applyYears_all_some {α} (g : YearFn α) (L S h : Int) (years : List Int)
    (fut : List α) (out : List (Option α))
    (hS : S = 2 * h + 1) (hh : 0 ≤ h) (hlen : years.length = fut.length)
    (hrun : applyYears g L S years fut = .ok out) :
    out.length = fut.length ∧ ∀ i, i < fut.length → ∃ v, out[i]? = some (some v) := by
  apply runLoop_all_some _ _ _ _ _ hrun
  intro i hi
  have hi' : i < years.length := by omega
  obtain ⟨c, hc⟩ := years_cover_unique S h years years[i] hS hh (List.getElem_mem hi')
  have hcm : c ∈ (yearCenters S years).filter (fun c => inBlock S c years[i]) := by
    rw [hc]; exact List.mem_singleton.mpr rfl
  obtain ⟨hc1, hc2⟩ := List.mem_filter.mp hcm
  refine ⟨c, hc1, fun ws hws => ?_⟩
  rw [yearWrites_keys _ _ _ _ _ _ _ hws]
  have := (mem_indicesIn years (yearsAdjusted S c) i).mpr ⟨hi', (mem_yearsAdjusted S c _).mpr hc2⟩
  exact this

/-- ISIMIP month mode: every time step whose month is in 1..12 is assigned -/
theorem applyLocationMonths_all_some {α} (f : WinFn α) (mO mH mF : List Int)
    (obs hist fut : List α) (out : List (Option α))
    (hlen : mF.length = fut.length) (hr : ∀ m ∈ mF, 1 ≤ m ∧ m ≤ 12)
    (hrun : applyLocationMonths f mO mH mF obs hist fut = .ok out) :
    out.length = fut.length ∧ ∀ i, i < fut.length → ∃ v, out[i]? = some (some v) := by
  apply runLoop_all_some _ _ _ _ _ hrun
  intro i hi
  have hi' : i < mF.length := by omega
  have hb := hr _ (List.getElem_mem hi')
  refine ⟨mF[i], (mem_arange1 _ _ _).mpr (by omega), fun ws hws => ?_⟩
  rw [monthWrites_keys _ _ _ _ _ _ _ _ _ hws, mem_whereTrue]
  refine ⟨by simpa using hi', ?_⟩
  simp [List.getD_eq_getElem?_getD, List.getElem?_map, List.getElem?_eq_getElem hi']

-- non-vacuity: a concrete run of the skeleton (S = 3, L = 5, six steps over days 2..4 of two years)
example : applyLocationRW (α := Int) (fun _ _ x _ _ _ => .ok (x.map (· + 100))) 5 3 [2, 3, 4] [2, 3, 4]
    [2, 3, 4, 2, 3, 4] [1, 2, 3] [1, 2, 3] [10, 20, 30, 40, 50, 60]
    = .ok [some 110, some 120, some 130, some 140, some 150, some 160] := by decide

/-! ### Exactly once -/

theorem sum_indicator {β} (l : List β) (p : β → Bool) :
    (l.map (fun c => if p c then 1 else 0)).sum = (l.filter p).length := by
  induction l with
  | nil => rfl
  | cons a t ih =>
    simp only [List.map_cons, List.sum_cons, List.filter_cons]
    by_cases h : p a <;> simp [h, ih]; omega

theorem idxAdjust_nodup (S : Int) (doy : List Int) (c : Int) : (idxAdjust S doy c).Nodup := by
  unfold idxAdjust indicesIn Py.whereTrue
  exact List.Nodup.filter _ List.nodup_range

theorem forall2_map_eq {β γ δ} {R : β → γ → Prop} {l : List β} {rs : List γ} (k : γ → δ) (g : β → δ)
    (h : List.Forall₂ R l rs) (hk : ∀ b r, R b r → k r = g b) : rs.map k = l.map g := by
  induction h with
  | nil => rfl
  | cons hab _ ih => simp [hk _ _ hab, ih]

/-- **Every time step is written exactly once**: over the whole run of the running-window loop, the indices
    written (`debiased[indices] = …`, all windows together, with multiplicity) are a permutation of `0..n-1`. -/
theorem applyLocationRW_written_once {α} (f : WinFn α) (L S h : Int) (dO dH dF : List Int)
    (obs hist fut : List α) (wss : List (List (Nat × α)))
    (hS : S = 2 * h + 1) (hh : 0 ≤ h) (hr : ∀ d ∈ dF, 0 ≤ d ∧ d ≤ 366)
    (hrun : mapE (windowWrites f L S dO dH dF obs hist fut) (useCenters S dF) = .ok wss) :
    (wss.flatten.map Prod.fst).Perm (List.range dF.length) := by
  have hF := mapE_ok _ _ _ hrun
  have hkeys : wss.map (List.map Prod.fst) = (useCenters S dF).map (idxAdjust S dF) :=
    forall2_map_eq _ _ hF (fun c ws hR => windowWrites_keys _ _ _ _ _ _ _ _ _ _ _ hR)
  rw [List.map_flatten, hkeys, List.perm_iff_count]
  intro i
  rw [List.count_flatten, List.map_map]
  have hcount : ∀ c, List.count i (idxAdjust S dF c) = if (idxAdjust S dF c).contains i then 1 else 0 := by
    intro c
    by_cases hm : i ∈ idxAdjust S dF c
    · rw [List.count_eq_one_of_mem (idxAdjust_nodup S dF c) hm, if_pos (List.contains_iff_mem.mpr hm)]
    · rw [List.count_eq_zero_of_not_mem hm, if_neg (by rwa [List.contains_iff_mem])]
  have : (List.count i ∘ idxAdjust S dF) = fun c => if (idxAdjust S dF c).contains i then 1 else 0 := by
    funext c; exact hcount c
  rw [this, sum_indicator]
  by_cases hi : i < dF.length
  · obtain ⟨c, hc⟩ := use_cover_unique S h dF i hS hh hi hr
    rw [hc, List.count_eq_one_of_mem List.nodup_range (List.mem_range.mpr hi)]
    rfl
  · have : (useCenters S dF).filter (fun c => (idxAdjust S dF c).contains i) = [] := by
      rw [List.filter_eq_nil_iff]
      intro c _ hc
      have := (mem_indicesIn _ _ _).mp (List.contains_iff_mem.mp hc)
      exact hi this.1
    rw [this, List.count_eq_zero_of_not_mem (by simpa using hi)]
    rfl


/-! ### The two loops composed (CDFt / QDM: the loop over year windows runs inside every day-of-year window)

The year windows of CDFt / QuantileDeltaMapping are laid out over the years of the *sample of the day-of-year window*
(`take years (idxWindow L doy c)`), whatever that list is — all years of the period for a wide window, the leap years
only for a one-day window on day 366, a **single** year when the period holds one leap year.  No lower bound on the size
of a sample appears among the hypotheses: a window is never too small to assign the steps it adjusts. -/

/-- **Exact cover of the composed loops**: every step `i` is adjusted by exactly one day-of-year centre `c` and lies in
    `c`'s sample (`S ≤ L`); within the years of that sample its year is adjusted by exactly one year centre `y`, and lies
    in `y`'s year window (`YS ≤ YL`). -/
theorem composed_cover_unique (L S h YL YS k : Int) (doy years : List Int) (i : Nat)
    (hS : S = 2 * h + 1) (hh : 0 ≤ h) (hSL : S ≤ L) (hYS : YS = 2 * k + 1) (hk : 0 ≤ k) (hYSL : YS ≤ YL)
    (hi : i < doy.length) (hlen : years.length = doy.length) (hr : ∀ d ∈ doy, 1 ≤ d ∧ d ≤ 366) :
    ∃ c, (useCenters S doy).filter (fun c => (idxAdjust S doy c).contains i) = [c] ∧
      i ∈ idxWindow L doy c ∧
      ∃ y, (yearCenters YS (take years (idxWindow L doy c))).filter
              (fun y => inBlock YS y (years[i]'(by omega))) = [y] ∧
        years[i]'(by omega) ∈ yearsInWindow YL y := by
  have hiy : i < years.length := by omega
  obtain ⟨c, hc⟩ := use_cover_unique S h doy i hS hh hi (fun d hd => ⟨by have := hr d hd; omega, (hr d hd).2⟩)
  have hcm : c ∈ (useCenters S doy).filter (fun c => (idxAdjust S doy c).contains i) := by
    rw [hc]; exact List.mem_singleton.mpr rfl
  have hadj : i ∈ idxAdjust S doy c := List.contains_iff_mem.mp (List.mem_filter.mp hcm).2
  have hwin := doy_adjust_subset_window L S doy c i hSL (by omega) hr hadj
  have hmem : years[i] ∈ take years (idxWindow L doy c) := by
    unfold take
    rw [List.mem_filterMap]
    exact ⟨i, hwin, by simp [List.getElem?_eq_getElem hiy]⟩
  obtain ⟨y, hy⟩ := years_cover_unique YS k _ _ hYS hk hmem
  refine ⟨c, hc, hwin, y, hy, ?_⟩
  have hym : y ∈ (yearCenters YS (take years (idxWindow L doy c))).filter (fun y => inBlock YS y years[i]) := by
    rw [hy]; exact List.mem_singleton.mpr rfl
  exact years_adjusted_subset_window YL YS y _ hYSL (by omega)
    ((mem_yearsAdjusted YS y _).mpr (List.mem_filter.mp hym).2)

-- the hypotheses are satisfiable by the smallest sample: one-day windows on 30 / 31 December of 2001..2006 (31 Dec 2004 is
-- the only day 366): the window on day 366 holds one step, its year list is [2004], and that single year gets a year centre
example : idxWindow 1 [364, 365, 364, 365, 364, 365, 365, 366, 364, 365, 364, 365] 366 = [7] := by decide
example : take [2001, 2001, 2002, 2002, 2003, 2003, 2004, 2004, 2005, 2005, 2006, 2006] [7] = [2004] := by decide
example : yearCenters 9 [2004] = [2004] ∧ yearCenters 1 [2004] = [2004] := by decide


/-! ### Non-vacuity and the defects that were repaired (F2, F13) -/

-- a leap-year-only set with S = 9: all nine leap years 2000..2032 are covered
example : (yearCenters 9 [2000, 2004, 2008, 2012, 2016, 2020, 2024, 2028, 2032]) = [2003, 2012, 2021, 2030] := by decide
example : (centers 3 [2, 3, 4, 2, 3, 4]) = [3] := by decide
example : idxAdjust 3 [2, 3, 4, 2, 3, 4] 3 = [0, 1, 2, 3, 4, 5] := by decide

/-- the centre formula before the repair (first centre `1 + S/2` when the span is a multiple of `S`) -/
def legacyFirstCenter (mn mx S : Int) : Int :=
  if (mx - mn + 1) % S = 0 then 1 + S / 2 else mn + S / 2 - (S - (mx - mn + 1) % S) / 2

/-- F2: with the legacy formula, `S = 3` and days `2..4`, day 4 is adjusted by no centre. -/
theorem legacy_doy_counterexample :
    (Py.arange (legacyFirstCenter 2 4 3) (4 + 1) 3).filter (fun c => inBlock 3 c 4) = [] := by decide

/-- F13: counting the years instead of spanning them: nine leap years, `S = 9` → single centre 2016,
    which adjusts 2012..2020 only; year 2000 is adjusted by no centre. -/
theorem legacy_years_counterexample :
    ([2016] : List Int).filter (fun c => inBlock 9 c 2000) = [] := by decide

end Props.C07
