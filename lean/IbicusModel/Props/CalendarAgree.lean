/-
  The two independently written models of the calendar ibicus infers for an omitted time array agree:
  `Model.Calendar.inferred` (iterate the successor day from 1950-01-01) and `Model.InferredDates.dateOf`
  (year arithmetic on the day offset) give the same (year, day of year) at every step.
-/
import IbicusModel.Props.Calendar
import IbicusModel.Model.InferredDates

namespace Props.CalendarAgree
open Model.Calendar Props.Calendar

/-- `j`-fold successor day -/
def iter : Nat → Int × Nat × Nat → Int × Nat × Nat
  | 0, p => p
  | j + 1, p => iter j (next p.1 p.2.1 p.2.2)

theorem iter_succ' (j : Nat) (p : Int × Nat × Nat) : iter (j + 1) p = next (iter j p).1 (iter j p).2.1 (iter j p).2.2 := by
  induction j generalizing p with
  | zero => rfl
  | succ j ih => simp only [iter] at *; rw [ih]

theorem iter_add (a b : Nat) (p : Int × Nat × Nat) : iter (a + b) p = iter b (iter a p) := by
  induction a generalizing p with
  | zero => simp [iter]
  | succ a ih => rw [Nat.add_right_comm]; simp only [iter]; exact ih _

theorem yearLen_eq (y : Int) : (Model.InferredDates.yearLen y) = yearLen (isLeap y) := by
  simp [Model.InferredDates.yearLen, Model.InferredDates.isLeap, yearLen, isLeap]

/-- within the year: `j` days after 1 January is the date with day of year `j + 1` -/
theorem iter_within (y : Int) (j : Nat) (hj : j < yearLen (isLeap y)) :
    (iter j (y, 1, 1)).1 = y ∧ valid y (iter j (y, 1, 1)).2.1 (iter j (y, 1, 1)).2.2 = true
      ∧ dayOfYear y (iter j (y, 1, 1)).2.1 (iter j (y, 1, 1)).2.2 = j + 1 := by
  induction j with
  | zero => exact ⟨rfl, by simp [iter, valid, monthLen], by simp [iter, dayOfYear, daysBefore]⟩
  | succ j ih =>
    obtain ⟨hy, hv, hd⟩ := ih (by omega)
    rw [iter_succ']
    generalize hp : iter j (y, 1, 1) = p at *
    obtain ⟨py, pm, pd⟩ := p
    simp only at hy hv hd
    subst hy
    rcases dayOfYear_next py pm pd hv with ⟨h1, h2, _⟩ | ⟨_, _, h3⟩
    · refine ⟨h1, ?_, ?_⟩
      · have := valid_next py pm pd hv
        rw [h1] at this; exact this
      · rw [h1] at h2; rw [h2, hd]
    · omega

/-- after a whole year: 1 January of the next year -/
theorem iter_year (y : Int) : iter (yearLen (isLeap y)) (y, 1, 1) = (y + 1, 1, 1) := by
  have hpos : 0 < yearLen (isLeap y) := by cases isLeap y <;> decide
  obtain ⟨n, hn⟩ : ∃ n, yearLen (isLeap y) = n + 1 := ⟨yearLen (isLeap y) - 1, by omega⟩
  rw [hn, iter_succ']
  obtain ⟨hy, hv, hd⟩ := iter_within y n (by omega)
  generalize hp : iter n (y, 1, 1) = p at *
  obtain ⟨py, pm, pd⟩ := p
  simp only at hy hv hd
  subst hy
  rcases dayOfYear_next py pm pd hv with ⟨_, _, h3⟩ | ⟨h1, h2, _⟩
  · omega
  · have hv' := valid_next py pm pd hv
    rw [h1] at hv' h2
    have h11 : valid (py + 1) 1 1 = true := by simp [valid, monthLen]
    have hd1 : dayOfYear (py + 1) 1 1 = 1 := by simp [dayOfYear, daysBefore]
    obtain ⟨hm, hdd⟩ := dayOfYear_injective (py + 1) _ _ 1 1 hv' h11 (by rw [h2, hd1])
    exact Prod.ext h1 (Prod.ext hm hdd)

/-- (year, day of year) of a date -/
def yd (p : Int × Nat × Nat) : Int × Int := (p.1, (dayOfYear p.1 p.2.1 p.2.2 : Nat))

theorem dateFrom_eq_iter (fuel : Nat) : ∀ (y : Int) (off : Nat), off ≤ fuel →
    Model.InferredDates.dateFrom fuel y off = yd (iter off (y, 1, 1)) := by
  induction fuel with
  | zero =>
    intro y off h
    have : off = 0 := by omega
    subst this
    simp [Model.InferredDates.dateFrom, yd, iter, dayOfYear, daysBefore]
  | succ fuel ih =>
    intro y off h
    unfold Model.InferredDates.dateFrom
    rw [yearLen_eq]
    by_cases hlt : off < yearLen (isLeap y)
    · rw [if_pos hlt]
      obtain ⟨hy, _, hd⟩ := iter_within y off hlt
      simp only [yd]
      rw [hy, hd]
      simp
    · rw [if_neg hlt]
      have hpos : 365 ≤ yearLen (isLeap y) := by cases isLeap y <;> decide
      have hsplit : off = yearLen (isLeap y) + (off - yearLen (isLeap y)) := by omega
      rw [ih (y + 1) (off - yearLen (isLeap y)) (by omega)]
      conv_rhs => rw [hsplit, iter_add, iter_year]

/-- the `k`-th element of a run is the `k`-fold successor of its first day -/
theorem run_getElem (n : Nat) (y : Int) (m d : Nat) (k : Nat) (hk : k < n) :
    (run n y m d)[k]? = some (iter k (y, m, d)) := by
  induction n generalizing y m d k with
  | zero => omega
  | succ n ih =>
    cases k with
    | zero => simp [run, iter]
    | succ k =>
      simp only [run, List.getElem?_cons_succ]
      rw [ih _ _ _ k (by omega)]
      rfl

/-- **agreement**: at every step `k < n` the inferred calendar of `Model.Calendar` and of `Model.InferredDates` show the same
    year and the same day of year -/
theorem inferred_agree (n k : Nat) (hk : k < n) :
    ((inferred n)[k]?).map yd = some (Model.InferredDates.dateOf k) := by
  unfold inferred Model.InferredDates.dateOf
  rw [run_getElem n 1950 1 1 k hk, dateFrom_eq_iter k 1950 k (Nat.le_refl k)]
  rfl

example : ((inferred 800)[790]?).map yd = some (1952, 61) := by
  rw [inferred_agree 800 790 (by omega)]; decide

end Props.CalendarAgree
