/-
  C16 — the empirical CDF / quantile toolkit obeys the laws of distribution functions.
  Property theorems only (helper lemmas live in `Lemmas/Stats*.lean`).  Stated on `Model.Stats`
  (samples are `List Rat`: every finite float is a rational; exact arithmetic — float rounding is carried by the
  tolerance and the tie counting of the correspondence check, `harness/c16.py`).
-/
import IbicusModel.Lemmas.StatsIecdf
import IbicusModel.Lemmas.StatsEcdf
import IbicusModel.Lemmas.StatsRank
import IbicusModel.Lemmas.StatsQmap
import IbicusModel.Lemmas.GenStatsKernels
import IbicusModel.Lemmas.StatsRound4

namespace Props.C16
open Model.Stats Lemmas.Stats

/-! ## 1. empirical CDF (`ibicus.utils.ecdf`), samples of size ≥ 2 -/

/-- values in `[0,1]` (step function and linear interpolation) -/
theorem ecdf_range (m : EcdfMethod) (x : List Rat) (hn : 2 ≤ x.length) (y : Rat) :
    0 ≤ ecdf1 m x y ∧ ecdf1 m x y ≤ 1 := by
  cases m
  · exact ecdfStep_range x y
  · exact ecdfLin_range hn y

/-- non-decreasing in the evaluation point -/
theorem ecdf_mono (m : EcdfMethod) (x : List Rat) (hn : 2 ≤ x.length) {y y' : Rat} (h : y ≤ y') :
    ecdf1 m x y ≤ ecdf1 m x y' := by
  have hx : x ≠ [] := by intro h; rw [h] at hn; simp at hn
  cases m
  · exact ecdfStep_mono x h
  · exact ecdfLin_mono hx h

/-- reaches 1 at the sample maximum (and stays there) -/
theorem ecdf_at_max (m : EcdfMethod) (x : List Rat) (hn : 2 ≤ x.length) {y : Rat} (hy : maxQ x ≤ y) :
    ecdf1 m x y = 1 := by
  have hx : x ≠ [] := by intro h; rw [h] at hn; simp at hn
  have hall : ∀ v ∈ x, v ≤ y := fun v hv => le_trans (le_maxQ hv) hy
  cases m
  · exact ecdfStep_top hx hall
  · exact ecdfLin_top hn hall

example : ecdf1 .linear [3, 1, 1, 2] (maxQ [3, 1, 1, 2]) = 1 := ecdf_at_max _ _ (by decide) (le_refl _)

/-- size 1, step function: the indicator of `a ≤ y` -/
theorem ecdf_size_one_step (a y : Rat) : ecdf1 .step [a] y = if a ≤ y then 1 else 0 := by
  unfold ecdf1 ecdfStep1
  by_cases h : a ≤ y <;> simp [h]

/-- size 1, linear interpolation: the grid `linspace(0, 1, 1)` is `[0]`, so the ecdf is identically 0 — the
    "reaches 1 at the maximum" law needs `n ≥ 2` for this method (the real function behaves the same) -/
theorem ecdf_size_one_linear (a y : Rat) : ecdf1 .linear [a] y = 0 := by
  unfold ecdf1 ecdfLin1 interp1 lastLE sortQ linspace
  by_cases h : a ≤ y <;> simp [h]

/-! ### the histogram ecdf (`kernel_density`) under the oracle laws of `np.histogram`'s bins -/

theorem ecdfHist_range (edges : List Rat) (counts : List Nat) (hl : HistLaws edges counts) (y : Rat) :
    0 ≤ ecdfHist1 edges counts y ∧ ecdfHist1 edges counts y ≤ 1 := Lemmas.Stats.ecdfHist_range hl y

theorem ecdfHist_mono (edges : List Rat) (counts : List Nat) (hl : HistLaws edges counts) {y y' : Rat}
    (h : y ≤ y') : ecdfHist1 edges counts y ≤ ecdfHist1 edges counts y' := Lemmas.Stats.ecdfHist_mono hl h

/-- oracle law "last edge = max x" ⇒ the ecdf is 1 at the sample maximum -/
theorem ecdfHist_at_max (edges : List Rat) (counts : List Nat) (x : List Rat) (hl : HistLaws edges counts)
    (hlast : edges.getD counts.length 0 = maxQ x) : ecdfHist1 edges counts (maxQ x) = 1 :=
  Lemmas.Stats.ecdfHist_top hl (le_of_eq hlast)

/-- oracle law "first edge ≤ min x" is what makes the ecdf vanish only at or below the sample minimum -/
theorem ecdfHist_at_first_edge (edges : List Rat) (counts : List Nat) {y : Rat}
    (h : y ≤ edges.getD 0 0) : ecdfHist1 edges counts y = 0 := by
  unfold ecdfHist1; simp only []; rw [if_pos h]

example : HistLaws [0, 1, 2] [3, 1] := ⟨rfl, by decide +kernel, by decide⟩

/-- **F15 (known finding, candidate)**: for a constant sample `np.histogram` widens the zero-width range to
    `[a - 1/2, a + 1/2]` (one bin holding all `n` observations): the oracle law "last edge = max x" fails and the
    ecdf at the maximum is `1/2`. -/
theorem legacy_hist_constant_sample (a : Rat) (n : Nat) (hn : 0 < n) :
    ecdfHist1 [a - 1 / 2, a + 1 / 2] [n] a = 1 / 2 := by
  have hn' : ((n : Nat) : Rat) ≠ 0 := by positivity
  have h0 : ¬ a ≤ a - 1 / 2 := by intro h; linarith
  have h1 : ¬ a ≥ a + 1 / 2 := by intro h; linarith
  have h2 : a - 1 / 2 ≤ a := by linarith
  unfold ecdfHist1 lastLE
  simp only [List.getD_cons_zero, List.length_cons, List.length_nil, List.getD_cons_succ, List.sum_cons,
    List.sum_nil, List.takeWhile_cons, List.takeWhile_nil, h0, h1, h2, decide_true, decide_false, if_true,
    if_false, Bool.false_eq_true]
  simp
  field_simp
  ring

/-! ## 2. inverse empirical CDF (`ibicus.utils.iecdf`), all nine methods, samples of size ≥ 2 -/

/-- the continuous Hyndman–Fan family, generic in `α, β ≤ 1` (numpy uses `α, β ∈ [0,1]`), on a sorted sample:
    range, end points and monotonicity for *every* real `p` (the family clamps outside `[0,1]`) -/
theorem quantileAB_laws (α β : Rat) (hα : α ≤ 1) (hβ : β ≤ 1) (s : List Rat) (hs : s.Pairwise (· ≤ ·))
    (hn : 2 ≤ s.length) :
    (∀ p, s.getD 0 0 ≤ quantileAB α β s p ∧ quantileAB α β s p ≤ s.getD (s.length - 1) 0) ∧
    (∀ p q, p ≤ q → quantileAB α β s p ≤ quantileAB α β s q) ∧
    quantileAB α β s 0 = s.getD 0 0 ∧ quantileAB α β s 1 = s.getD (s.length - 1) 0 := by
  have hne : s ≠ [] := by intro h; rw [h] at hn; simp at hn
  refine ⟨fun p => ?_, fun p q hpq => ?_, quantileAB_zero hα hn, quantileAB_one hβ s⟩
  · rw [quantileAB_eq]; exact clampLerp_range hs hne _
  · rw [quantileAB_eq, quantileAB_eq]
    exact clampLerp_mono hs hne (viAB_mono hα hβ (by omega) hpq)

/-- numpy's default `linear` (virtual index `(n-1) p`) -/
theorem quantileLinear_laws (s : List Rat) (hs : s.Pairwise (· ≤ ·)) (hn : 2 ≤ s.length) :
    (∀ p, s.getD 0 0 ≤ quantileLinear s p ∧ quantileLinear s p ≤ s.getD (s.length - 1) 0) ∧
    (∀ p q, p ≤ q → quantileLinear s p ≤ quantileLinear s q) ∧
    quantileLinear s 0 = s.getD 0 0 ∧ quantileLinear s 1 = s.getD (s.length - 1) 0 := by
  have hne : s ≠ [] := by intro h; rw [h] at hn; simp at hn
  have hn' : (2 : Rat) ≤ (s.length : Rat) := by exact_mod_cast hn
  refine ⟨fun p => ?_, fun p q hpq => ?_, quantileLinear_zero hn, quantileLinear_one s⟩
  · rw [quantileLinear_eq]; exact clampLerp_range hs hne _
  · rw [quantileLinear_eq, quantileLinear_eq]
    exact clampLerp_mono hs hne (mul_le_mul_of_nonneg_left hpq (by linarith))

/-- all nine methods on a sorted sample: within `[s₀, sₙ₋₁]` for `p ∈ [0,1]` -/
theorem iecdfSorted_range (m : IecdfMethod) (s : List Rat) (hs : s.Pairwise (· ≤ ·)) (hn : 2 ≤ s.length)
    {p : Rat} (h0 : 0 ≤ p) (h1 : p ≤ 1) :
    s.getD 0 0 ≤ iecdfSorted m s p ∧ iecdfSorted m s p ≤ s.getD (s.length - 1) 0 := by
  have hne : s ≠ [] := by intro h; rw [h] at hn; simp at hn
  cases m <;> unfold iecdfSorted <;> simp only []
  · exact iecdfInverted_range hs hne h0 h1
  · rw [quantileAveraged_eq']; exact avgAt_range hs hne _
  · exact quantileClosest_range hs hne h1
  · exact (quantileAB_laws 0 1 (by norm_num) (by norm_num) s hs hn).1 p
  · exact (quantileAB_laws (1 / 2) (1 / 2) (by norm_num) (by norm_num) s hs hn).1 p
  · exact (quantileAB_laws 0 0 (by norm_num) (by norm_num) s hs hn).1 p
  · exact (quantileLinear_laws s hs hn).1 p
  · exact (quantileAB_laws (1 / 3) (1 / 3) (by norm_num) (by norm_num) s hs hn).1 p
  · exact (quantileAB_laws (3 / 8) (3 / 8) (by norm_num) (by norm_num) s hs hn).1 p

theorem iecdfSorted_mono (m : IecdfMethod) (s : List Rat) (hs : s.Pairwise (· ≤ ·)) (hn : 2 ≤ s.length)
    {p q : Rat} (h0 : 0 ≤ p) (hpq : p ≤ q) (h1 : q ≤ 1) : iecdfSorted m s p ≤ iecdfSorted m s q := by
  have hne : s ≠ [] := by intro h; rw [h] at hn; simp at hn
  cases m <;> unfold iecdfSorted <;> simp only []
  · exact iecdfInverted_mono hs hne h0 hpq h1
  · rw [quantileAveraged_eq', quantileAveraged_eq']
    apply avgAt_mono hs hne
    have : (s.length : Rat) * p ≤ (s.length : Rat) * q := mul_le_mul_of_nonneg_left hpq (by positivity)
    linarith
  · exact quantileClosest_mono hs hne hpq h1
  · exact (quantileAB_laws 0 1 (by norm_num) (by norm_num) s hs hn).2.1 p q hpq
  · exact (quantileAB_laws (1 / 2) (1 / 2) (by norm_num) (by norm_num) s hs hn).2.1 p q hpq
  · exact (quantileAB_laws 0 0 (by norm_num) (by norm_num) s hs hn).2.1 p q hpq
  · exact (quantileLinear_laws s hs hn).2.1 p q hpq
  · exact (quantileAB_laws (1 / 3) (1 / 3) (by norm_num) (by norm_num) s hs hn).2.1 p q hpq
  · exact (quantileAB_laws (3 / 8) (3 / 8) (by norm_num) (by norm_num) s hs hn).2.1 p q hpq

theorem iecdfSorted_zero (m : IecdfMethod) (s : List Rat) (hn : 2 ≤ s.length) :
    iecdfSorted m s 0 = s.getD 0 0 := by
  have hne : s ≠ [] := by intro h; rw [h] at hn; simp at hn
  cases m <;> unfold iecdfSorted <;> simp only []
  · exact iecdfInverted_zero s
  · exact quantileAveraged_zero hne
  · exact quantileClosest_zero s
  · exact quantileAB_zero (by norm_num) hn
  · exact quantileAB_zero (by norm_num) hn
  · exact quantileAB_zero (by norm_num) hn
  · exact quantileLinear_zero hn
  · exact quantileAB_zero (by norm_num) hn
  · exact quantileAB_zero (by norm_num) hn

theorem iecdfSorted_one (m : IecdfMethod) (s : List Rat) (hn : 2 ≤ s.length) :
    iecdfSorted m s 1 = s.getD (s.length - 1) 0 := by
  have hne : s ≠ [] := by intro h; rw [h] at hn; simp at hn
  cases m <;> unfold iecdfSorted <;> simp only []
  · exact iecdfInverted_one s hne
  · exact quantileAveraged_one s
  · exact quantileClosest_one s hne
  · exact quantileAB_one (by norm_num) s
  · exact quantileAB_one (by norm_num) s
  · exact quantileAB_one (by norm_num) s
  · exact quantileLinear_one s
  · exact quantileAB_one (by norm_num) s
  · exact quantileAB_one (by norm_num) s

/-! the same four laws for an arbitrary (unsorted, possibly tied) sample, in terms of its minimum and maximum -/

theorem sorted_ends (x : List Rat) (hn : 2 ≤ x.length) :
    (sortQ x).getD 0 0 = minQ x ∧ (sortQ x).getD ((sortQ x).length - 1) 0 = maxQ x := by
  have hx : x ≠ [] := by intro h; rw [h] at hn; simp at hn
  rw [sortQ_length]
  exact ⟨sortQ_head x hx, sortQ_last x hx⟩

/-- **iecdf stays within `[min, max]` of the sample** — every method, every `p ∈ [0,1]` -/
theorem iecdf_range (m : IecdfMethod) (x : List Rat) (hn : 2 ≤ x.length) {p : Rat} (h0 : 0 ≤ p) (h1 : p ≤ 1) :
    minQ x ≤ iecdf1 m x p ∧ iecdf1 m x p ≤ maxQ x := by
  have h := iecdfSorted_range m (sortQ x) (sortQ_sorted x) (by rw [sortQ_length]; exact hn) h0 h1
  rw [(sorted_ends x hn).1, (sorted_ends x hn).2] at h
  exact h

/-- **iecdf is non-decreasing in `p`** -/
theorem iecdf_mono (m : IecdfMethod) (x : List Rat) (hn : 2 ≤ x.length) {p q : Rat} (h0 : 0 ≤ p) (hpq : p ≤ q)
    (h1 : q ≤ 1) : iecdf1 m x p ≤ iecdf1 m x q :=
  iecdfSorted_mono m (sortQ x) (sortQ_sorted x) (by rw [sortQ_length]; exact hn) h0 hpq h1

/-- **iecdf(0) = min** -/
theorem iecdf_zero (m : IecdfMethod) (x : List Rat) (hn : 2 ≤ x.length) : iecdf1 m x 0 = minQ x := by
  have h := iecdfSorted_zero m (sortQ x) (by rw [sortQ_length]; exact hn)
  rw [(sorted_ends x hn).1] at h; exact h

/-- **iecdf(1) = max** -/
theorem iecdf_one (m : IecdfMethod) (x : List Rat) (hn : 2 ≤ x.length) : iecdf1 m x 1 = maxQ x := by
  have h := iecdfSorted_one m (sortQ x) (by rw [sortQ_length]; exact hn)
  rw [(sorted_ends x hn).2] at h; exact h

example : minQ [3, 1, 1, 2] ≤ iecdf1 .hazen [3, 1, 1, 2] (1 / 2) ∧ iecdf1 .hazen [3, 1, 1, 2] (1 / 2) ≤ maxQ [3, 1, 1, 2] :=
  iecdf_range .hazen [3, 1, 1, 2] (by decide) (by norm_num) (by norm_num)
example : iecdfSorted .closest_observation [1, 1, 2, 3] 1 = 3 := by decide +kernel  -- concrete witness
example : iecdfSorted .hazen [1, 1, 2, 3] (1 / 2) = 3 / 2 := by decide +kernel  -- concrete witness

/-- size 1: every method returns the single value for every `p ∈ [0,1]` -/
theorem iecdf_size_one (m : IecdfMethod) (a : Rat) {p : Rat} (h0 : 0 ≤ p) (h1 : p ≤ 1) : iecdf1 m [a] p = a := by
  have hp : ([a] : List Rat).Pairwise (· ≤ ·) := List.pairwise_singleton _ _
  have hs : sortQ [a] = [a] := sortQ_of_sorted hp
  have hne : ([a] : List Rat) ≠ [] := by simp
  unfold iecdf1; rw [hs]
  cases m <;> unfold iecdfSorted <;> simp only []
  · have := iecdfInverted_range hp hne h0 h1; simp at this; exact le_antisymm this.2 this.1
  · have := avgAt_range hp hne (((([a] : List Rat).length : Nat) : Rat) * p - 1)
    rw [quantileAveraged_eq']; simp at this ⊢; exact le_antisymm this.2 this.1
  · have := quantileClosest_range hp hne h1; simp at this; exact le_antisymm this.2 this.1
  all_goals
    have hc : ∀ vi, clampLerp [a] vi = a := fun vi => by
      have := clampLerp_range hp hne vi
      simp at this; exact le_antisymm this.2 this.1
    first
    | (rw [quantileAB_eq]; exact hc _)
    | (rw [quantileLinear_eq]; exact hc _)

/-! ## 3. `sort_array_like_another_one` -/

/-- the result is a permutation of the first argument -/
theorem sortLike_perm (x y : List Rat) (h : x.length = y.length) : List.Perm (sortLike x y) x :=
  Lemmas.Stats.sortLike_perm x y h

/-- … ordered like the second: where `y` is strictly smaller, the result is not larger.  (For tie-free `y`
    this fixes the order completely; the model's `argsort` is the stable one, numpy's is not, so nothing is
    claimed about the relative order of the results at tied positions of `y`.) -/
theorem sortLike_ordered (x y : List Rat) (h : x.length = y.length) {i j : Nat} (hi : i < y.length)
    (hj : j < y.length) (hlt : y.getD i 0 < y.getD j 0) :
    (sortLike x y).getD i 0 ≤ (sortLike x y).getD j 0 := Lemmas.Stats.sortLike_ordered x y h hi hj hlt

example : List.Perm (sortLike [10, 30, 20] [3, 1, 2]) [10, 30, 20] := sortLike_perm _ _ rfl

/-! ## 4. non-parametric quantile mapping -/

/-- `quantile_map_non_parametically` works value by value -/
theorem qmap_eq_map (em : EcdfMethod) (im : IecdfMethod) (x y vals : List Rat) :
    qmap em im x y vals = vals.map (qmap1 em im x y) := by
  unfold qmap iecdf ecdf qmap1 iecdf1
  rw [List.map_map]; rfl

/-- monotone -/
theorem qmap_mono (em : EcdfMethod) (im : IecdfMethod) (x y : List Rat) (hx : 2 ≤ x.length) (hy : 2 ≤ y.length)
    {v v' : Rat} (h : v ≤ v') : qmap1 em im x y v ≤ qmap1 em im x y v' :=
  iecdf_mono im y hy (ecdf_range em x hx v).1 (ecdf_mono em x hx h) (ecdf_range em x hx v').2

/-- maps into the range of the target sample -/
theorem qmap_range (em : EcdfMethod) (im : IecdfMethod) (x y : List Rat) (hx : 2 ≤ x.length) (hy : 2 ≤ y.length)
    (v : Rat) : minQ y ≤ qmap1 em im x y v ∧ qmap1 em im x y v ≤ maxQ y :=
  iecdf_range im y hy (ecdf_range em x hx v).1 (ecdf_range em x hx v).2

/-- at and above the source maximum the map returns the target maximum -/
theorem qmap_at_max (em : EcdfMethod) (im : IecdfMethod) (x y : List Rat) (hx : 2 ≤ x.length) (hy : 2 ≤ y.length)
    {v : Rat} (hv : maxQ x ≤ v) : qmap1 em im x y v = maxQ y := by
  unfold qmap1; rw [ecdf_at_max em x hx hv]; exact iecdf_one im y hy

/-- list form of monotonicity, as the function is called in ibicus -/
theorem qmap_mono_list (em : EcdfMethod) (im : IecdfMethod) (x y vals : List Rat) (hx : 2 ≤ x.length)
    (hy : 2 ≤ y.length) {i j : Nat} (hi : i < vals.length) (hj : j < vals.length)
    (h : vals.getD i 0 ≤ vals.getD j 0) :
    (qmap em im x y vals).getD i 0 ≤ (qmap em im x y vals).getD j 0 := by
  rw [qmap_eq_map, getD_eq _ i (by simpa using hi), getD_eq _ j (by simpa using hj), List.getElem_map,
    List.getElem_map, ← getD_eq _ i hi, ← getD_eq _ j hj]
  exact qmap_mono em im x y hx hy h

/-! ### the variant with constant extrapolation -/

theorem qmapExtrap_eq_map (em : EcdfMethod) (im : IecdfMethod) (x y vals : List Rat) :
    qmapExtrap em im x y vals = vals.map (qmapExtrap1 em im x y) := by
  unfold qmapExtrap qmapExtrap1
  simp only []
  rw [qmap_eq_map, List.zipWith_map_right, List.zipWith_self]

/-- above the source range: the value plus the constant `max y − max x` -/
theorem qmapExtrap_above (em : EcdfMethod) (im : IecdfMethod) (x y : List Rat) {v : Rat} (hv : maxQ x < v) :
    qmapExtrap1 em im x y v = v + (maxQ y - maxQ x) := by
  unfold qmapExtrap1; rw [if_pos hv]

/-- below the source range: the value plus the constant `min y − min x` -/
theorem qmapExtrap_below (em : EcdfMethod) (im : IecdfMethod) (x y : List Rat) (hx : x ≠ []) {v : Rat}
    (hv : v < minQ x) : qmapExtrap1 em im x y v = v + (minQ y - minQ x) := by
  have : ¬ v > maxQ x := by
    intro h; have := minQ_le_maxQ hx; linarith
  unfold qmapExtrap1; rw [if_neg this, if_pos hv]

/-- inside the source range: plain quantile mapping, hence inside the target range -/
theorem qmapExtrap_inside (em : EcdfMethod) (im : IecdfMethod) (x y : List Rat) {v : Rat}
    (h0 : minQ x ≤ v) (h1 : v ≤ maxQ x) : qmapExtrap1 em im x y v = qmap1 em im x y v := by
  unfold qmapExtrap1; rw [if_neg (not_lt.mpr h1), if_neg (not_lt.mpr h0)]

/-- **continuous at the upper end of the source range**: the inside value at `max x` is the value of the
    upper extrapolation formula there -/
theorem qmapExtrap_continuous_at_max (em : EcdfMethod) (im : IecdfMethod) (x y : List Rat) (hx : 2 ≤ x.length)
    (hy : 2 ≤ y.length) : qmapExtrap1 em im x y (maxQ x) = maxQ x + (maxQ y - maxQ x) := by
  have hne : x ≠ [] := by intro h; rw [h] at hx; simp at hx
  rw [qmapExtrap_inside em im x y (minQ_le_maxQ hne) (le_refl _), qmap_at_max em im x y hx hy (le_refl _)]
  ring

/-- **continuous at the lower end** for the linear-interpolation ecdf when the sample minimum is not tied -/
theorem qmapExtrap_continuous_at_min_linear (im : IecdfMethod) (x y : List Rat) (hx : 2 ≤ x.length)
    (hy : 2 ≤ y.length) (huniq : (x.filter (fun v => decide (v ≤ minQ x))).length = 1) :
    qmapExtrap1 .linear im x y (minQ x) = minQ x + (minQ y - minQ x) := by
  have hne : x ≠ [] := by intro h; rw [h] at hx; simp at hx
  rw [qmapExtrap_inside .linear im x y (le_refl _) (minQ_le_maxQ hne)]
  unfold qmap1 ecdf1
  simp only []
  rw [ecdfLin_at_unique_min x hx huniq, iecdf_zero im y hy]
  ring

/-- with the step ecdf (and with a tied minimum) the map may *jump upwards* at `min x` — it is a step function
    everywhere — but never downwards: the whole extrapolating map is monotone -/
theorem qmapExtrap_mono (em : EcdfMethod) (im : IecdfMethod) (x y : List Rat) (hx : 2 ≤ x.length)
    (hy : 2 ≤ y.length) {v v' : Rat} (h : v ≤ v') : qmapExtrap1 em im x y v ≤ qmapExtrap1 em im x y v' := by
  have hne : x ≠ [] := by intro h; rw [h] at hx; simp at hx
  have hmm := minQ_le_maxQ hne
  by_cases ha : maxQ x < v
  · rw [qmapExtrap_above em im x y ha, qmapExtrap_above em im x y (lt_of_lt_of_le ha h)]; linarith
  by_cases hb : v < minQ x
  · rw [qmapExtrap_below em im x y hne hb]
    by_cases ha' : maxQ x < v'
    · rw [qmapExtrap_above em im x y ha']
      have := minQ_le_maxQ (l := y) (by intro h; rw [h] at hy; simp at hy)
      linarith
    by_cases hb' : v' < minQ x
    · rw [qmapExtrap_below em im x y hne hb']; linarith
    · rw [qmapExtrap_inside em im x y (not_lt.mp hb') (not_lt.mp ha')]
      have := (qmap_range em im x y hx hy v').1
      linarith
  · rw [qmapExtrap_inside em im x y (not_lt.mp hb) (not_lt.mp ha)]
    by_cases ha' : maxQ x < v'
    · rw [qmapExtrap_above em im x y ha']
      have := (qmap_range em im x y hx hy v).2
      linarith
    · rw [qmapExtrap_inside em im x y (le_trans (not_lt.mp hb) h) (not_lt.mp ha')]
      exact qmap_mono em im x y hx hy h

/-- the upward jump at `min x` with the default method pair is real (concrete witness):
    `x = [0, 1]`, `y = [0, 1, 2, 3, 4, 5]`: just below 0 the map gives `v + 0`, at 0 it gives 2 -/
theorem legacy_step_jump_at_min :
    qmapExtrap1 .step .inverted_cdf [0, 1] [0, 1, 2, 3, 4, 5] 0 = 2 ∧
    qmapExtrap1 .step .inverted_cdf [0, 1] [0, 1, 2, 3, 4, 5] (-1 / 1000) = -1 / 1000 := by
  have hx : ([0, 1] : List Rat).Pairwise (· ≤ ·) := by decide +kernel
  have hy : ([0, 1, 2, 3, 4, 5] : List Rat).Pairwise (· ≤ ·) := by decide +kernel
  unfold qmapExtrap1
  simp only [qmap1_sorted hx hy]
  decide +kernel

/-! ### ISIMIP's rank-interpolation variant -/

theorem qmapIsimip_eq_map (x y : List Rat) : qmapIsimip x y = x.map (qmapIsimip1 x y) := by
  unfold qmapIsimip qmapIsimip1 interp rankAvg
  simp only [List.map_map]; rfl

/-- in the range of the target -/
theorem qmapIsimip_range (x y : List Rat) (hy : y ≠ []) (v : Rat) :
    minQ y ≤ qmapIsimip1 x y v ∧ qmapIsimip1 x y v ≤ maxQ y := Lemmas.Stats.qmapIsimip1_range x y hy v

/-- monotone in the mapped value -/
theorem qmapIsimip_mono (x y : List Rat) (hy : y ≠ []) {v w : Rat} (h : v ≤ w) :
    qmapIsimip1 x y v ≤ qmapIsimip1 x y w := Lemmas.Stats.qmapIsimip1_mono x y hy h

/-! ## 5. equal sizes: the target's values in the source's rank order -/

/-- **the default pair** (`step_function` + ibicus' `IECDF`) and the five other pairs for which it is true in
    exact arithmetic: for a tie-free source `x` and a target `y` of the same size, every source value is mapped to
    the target's order statistic of the same rank (`rankLt x v` = number of source values below `v`). -/
theorem qmap_equal_sizes (p : EcdfMethod × IecdfMethod) (hp : p ∈ exactPairs) (x y : List Rat)
    (hlen : x.length = y.length) (hn : 2 ≤ x.length) (hx : x.Nodup) {v : Rat} (hv : v ∈ x) :
    qmap1 p.1 p.2 x y v = (sortQ y).getD (rankLt x v) 0 :=
  Lemmas.Stats.qmap_equal_sizes_all p hp x y hlen hn hx hv

/-- … and that is exactly `sort_array_like_another_one(y, x)`: position by position the result of mapping `x`
    onto `y` equals `y` sorted like `x` -/
theorem qmap_equal_sizes_sortLike (p : EcdfMethod × IecdfMethod) (hp : p ∈ exactPairs) (x y : List Rat)
    (hlen : x.length = y.length) (hn : 2 ≤ x.length) (hx : x.Nodup) :
    qmap p.1 p.2 x y x = sortLike y x :=
  Lemmas.Stats.qmap_equal_sizes_sortLike_all p hp x y hlen hn hx

/-- hence the result is a permutation of the target sample -/
theorem qmap_equal_sizes_perm (p : EcdfMethod × IecdfMethod) (hp : p ∈ exactPairs) (x y : List Rat)
    (hlen : x.length = y.length) (hn : 2 ≤ x.length) (hx : x.Nodup) :
    List.Perm (qmap p.1 p.2 x y x) y := by
  rw [qmap_equal_sizes_sortLike p hp x y hlen hn hx]
  exact Lemmas.Stats.sortLike_perm y x hlen.symm

example : List.Perm (qmap .step .inverted_cdf [5, 1, 3, 2] [10, 30, 20, 20] [5, 1, 3, 2]) [10, 30, 20, 20] :=
  qmap_equal_sizes_perm (.step, .inverted_cdf) (by decide) _ _ rfl (by decide) (by decide +kernel)

/-- the remaining twelve (ecdf, iecdf) pairs do **not** reproduce the target: complete finite table of concrete
    witnesses on the increasing samples `x = [1, 2, 4, 8]`, `y = [0, 1, 3, 7]` (both are sorted, so "the target's
    values in the source's rank order" is `y` itself) -/
theorem equal_sizes_fails_for_other_pairs :
    ∀ p ∈ otherPairs, [1, 2, 4, 8].map (qmap1 p.1 p.2 [1, 2, 4, 8] [0, 1, 3, 7]) ≠ [0, 1, 3, 7] := by
  have hx : ([1, 2, 4, 8] : List Rat).Pairwise (· ≤ ·) := by decide +kernel
  have hy : ([0, 1, 3, 7] : List Rat).Pairwise (· ≤ ·) := by decide +kernel
  have hq : ∀ em im, qmap1 em im [1, 2, 4, 8] [0, 1, 3, 7] = qmapS em im [1, 2, 4, 8] [0, 1, 3, 7] :=
    fun em im => funext (qmap1_sorted hx hy em im)
  simp only [hq]
  decide +kernel

/-! ## 6. `threshold_cdf_vals` (tier A: `Lemmas.GenStatsKernels.threshold_cdf_vals`) -/

/-- the thresholded value lies in `[t, 1 - t]` (for `t ≤ 1/2`) and thresholding is monotone and idempotent -/
theorem thresholdCdf_range (t v : Rat) (ht : t ≤ 1 / 2) : t ≤ thresholdCdf t v ∧ thresholdCdf t v ≤ 1 - t := by
  unfold thresholdCdf
  refine ⟨le_max_right _ _, max_le (min_le_right _ _) (by linarith)⟩

theorem thresholdCdf_mono (t : Rat) {v w : Rat} (h : v ≤ w) : thresholdCdf t v ≤ thresholdCdf t w := by
  unfold thresholdCdf
  exact max_le_max (min_le_min h (le_refl _)) (le_refl _)

theorem thresholdCdf_id (t v : Rat) (h0 : t ≤ v) (h1 : v ≤ 1 - t) : thresholdCdf t v = v := by
  unfold thresholdCdf
  rw [min_eq_left h1, max_eq_left h0]

/-! ## 7. exact end points for every sample size, values of the target, aliasing, element-wise structure, call sequences
    (proof round 4: clauses the oracle of `harness/c16.py` demands of the real code) -/

/-- below the sample minimum the ecdf is exactly 0 (step and linear, every size ≥ 1) -/
theorem ecdf_below_min (m : EcdfMethod) (x : List Rat) (hx : x ≠ []) {y : Rat} (hy : y < minQ x) : ecdf1 m x y = 0 := by
  have hall : ∀ v ∈ x, y < v := fun v hv => lt_of_lt_of_le hy (minQ_le hv)
  cases m
  · exact ecdfStep_below hall
  · exact ecdfLin_below hx hall

/-- the step ecdf reaches exactly 1 at the maximum for **every** size `n ≥ 1` (`n / n = 1` in exact arithmetic; that the
    float evaluation of `k/n` does too is what the every-n oracle checks on the real code) -/
theorem ecdf_step_at_max (x : List Rat) (hx : x ≠ []) {y : Rat} (hy : maxQ x ≤ y) : ecdf1 .step x y = 1 :=
  ecdfStep_top hx (fun _ hv => le_trans (le_maxQ hv) hy)

example : ecdf1 .step [7] 7 = 1 := ecdf_step_at_max [7] (by simp) (le_refl _)

/-- histogram ecdf: 1 at and above the maximum, 0 at and below the minimum (oracle laws: last edge = max x, first edge = min x) -/
theorem ecdfHist_above_max (edges : List Rat) (counts : List Nat) (x : List Rat) (hl : HistLaws edges counts)
    (hlast : edges.getD counts.length 0 = maxQ x) {y : Rat} (hy : maxQ x ≤ y) : ecdfHist1 edges counts y = 1 :=
  Lemmas.Stats.ecdfHist_top hl (by rw [hlast]; exact hy)

theorem ecdfHist_below_min (edges : List Rat) (counts : List Nat) (x : List Rat)
    (hfirst : edges.getD 0 0 = minQ x) {y : Rat} (hy : y ≤ minQ x) : ecdfHist1 edges counts y = 0 :=
  ecdfHist_at_first_edge edges counts (by rw [hfirst]; exact hy)

/-- the two discrete methods (`IECDF` and `closest_observation`) return values **of the sample** -/
theorem iecdf_discrete_values (m : IecdfMethod) (hm : m = .inverted_cdf ∨ m = .closest_observation) (x : List Rat)
    (hx : x ≠ []) {p : Rat} (h0 : 0 ≤ p) (h1 : p ≤ 1) : iecdf1 m x p ∈ x := by
  have hs := sortQ_ne_nil hx
  rcases hm with rfl | rfl <;> unfold iecdf1 iecdfSorted <;> simp only []
  · exact (sortQ_perm x).mem_iff.mp (iecdfInverted_mem hs h0 h1)
  · exact (sortQ_perm x).mem_iff.mp (quantileClosest_mem hs h1)

/-- hence quantile mapping with a discrete iecdf returns values of the target sample -/
theorem qmap_discrete_values (em : EcdfMethod) (im : IecdfMethod) (hm : im = .inverted_cdf ∨ im = .closest_observation)
    (x y : List Rat) (hx : 2 ≤ x.length) (hy : y ≠ []) (v : Rat) : qmap1 em im x y v ∈ y :=
  iecdf_discrete_values im hm y hy (ecdf_range em x hx v).1 (ecdf_range em x hx v).2

example : qmap1 .step .inverted_cdf [1, 2, 3] [10, 20] (5 / 2) ∈ [10, 20] :=
  qmap_discrete_values .step .inverted_cdf (Or.inl rfl) _ _ (by decide) (by simp) _

/-! ### quantile mapping through the histogram ecdf (the remaining 9 of the 27 pairs) -/

theorem qmapHist_mono (im : IecdfMethod) (edges : List Rat) (counts : List Nat) (y : List Rat)
    (hl : HistLaws edges counts) (hy : 2 ≤ y.length) {v v' : Rat} (h : v ≤ v') :
    qmapHist1 im edges counts y v ≤ qmapHist1 im edges counts y v' :=
  iecdf_mono im y hy (ecdfHist_range edges counts hl v).1 (ecdfHist_mono edges counts hl h) (ecdfHist_range edges counts hl v').2

theorem qmapHist_range (im : IecdfMethod) (edges : List Rat) (counts : List Nat) (y : List Rat)
    (hl : HistLaws edges counts) (hy : 2 ≤ y.length) (v : Rat) :
    minQ y ≤ qmapHist1 im edges counts y v ∧ qmapHist1 im edges counts y v ≤ maxQ y :=
  iecdf_range im y hy (ecdfHist_range edges counts hl v).1 (ecdfHist_range edges counts hl v).2

theorem qmapHist_at_max (im : IecdfMethod) (edges : List Rat) (counts : List Nat) (x y : List Rat)
    (hl : HistLaws edges counts) (hlast : edges.getD counts.length 0 = maxQ x) (hy : 2 ≤ y.length) {v : Rat}
    (hv : maxQ x ≤ v) : qmapHist1 im edges counts y v = maxQ y := by
  unfold qmapHist1; rw [ecdfHist_above_max edges counts x hl hlast hv]; exact iecdf_one im y hy

/-- with extrapolation: constant shifts outside, the plain map inside, continuous at the upper end -/
theorem qmapExtrapHist_continuous_at_max (im : IecdfMethod) (edges : List Rat) (counts : List Nat) (x y : List Rat)
    (hl : HistLaws edges counts) (hlast : edges.getD counts.length 0 = maxQ x) (hx : x ≠ []) (hy : 2 ≤ y.length) :
    qmapExtrapHist1 im edges counts x y (maxQ x) = maxQ x + (maxQ y - maxQ x) := by
  unfold qmapExtrapHist1
  rw [if_neg (lt_irrefl _), if_neg (not_lt.mpr (minQ_le_maxQ hx)), qmapHist_at_max im edges counts x y hl hlast hy (le_refl _)]
  ring

/-! ### the extrapolating variant on the sample itself, `f(a, a)`, identity maps -/

/-- on values of the source sample the extrapolating variant is the plain map … -/
theorem qmapExtrap_on_sample (em : EcdfMethod) (im : IecdfMethod) (x y : List Rat) {v : Rat} (hv : v ∈ x) :
    qmapExtrap1 em im x y v = qmap1 em im x y v := qmapExtrap_inside em im x y (minQ_le hv) (le_maxQ hv)

/-- … so the equal-size reproduction law holds for it as well -/
theorem qmapExtrap_equal_sizes (p : EcdfMethod × IecdfMethod) (hp : p ∈ exactPairs) (x y : List Rat)
    (hlen : x.length = y.length) (hn : 2 ≤ x.length) (hx : x.Nodup) : qmapExtrap p.1 p.2 x y x = sortLike y x := by
  rw [← qmap_equal_sizes_sortLike p hp x y hlen hn hx, qmapExtrap_eq_map, qmap_eq_map]
  exact List.map_congr_left (fun v hv => qmapExtrap_on_sample p.1 p.2 x y hv)

/-- **aliasing**: `sort_array_like_another_one(a, a) = a`, ties or not -/
theorem sortLike_self (x : List Rat) : sortLike x x = x := Lemmas.Stats.sortLike_self x

/-- mapping a tie-free sample onto itself is the identity (the six exact pairs) -/
theorem qmap_self (p : EcdfMethod × IecdfMethod) (hp : p ∈ exactPairs) (x : List Rat) (hn : 2 ≤ x.length)
    (hx : x.Nodup) : qmap p.1 p.2 x x x = x := by
  rw [qmap_equal_sizes_sortLike p hp x x rfl hn hx]; exact sortLike_self x

example : qmap .step .inverted_cdf [3, 1, 2] [3, 1, 2] [3, 1, 2] = [3, 1, 2] :=
  qmap_self (.step, .inverted_cdf) (by decide) _ (by decide) (by decide +kernel)

/-! ### element-wise structure: evaluation on selected positions and on chunks gives the selected / concatenated results -/

theorem qmap_elementwise (em : EcdfMethod) (im : IecdfMethod) (x y vals : List Rat) (d : Rat) (idx : List Nat) :
    qmap em im x y (idx.map (fun i => vals.getD i d)) =
      idx.map (fun i => (qmap em im x y vals).getD i (qmap1 em im x y d)) := by
  rw [qmap_eq_map, qmap_eq_map]; exact map_select _ _ _ _

theorem qmap_append (em : EcdfMethod) (im : IecdfMethod) (x y a b : List Rat) :
    qmap em im x y (a ++ b) = qmap em im x y a ++ qmap em im x y b := by
  rw [qmap_eq_map, qmap_eq_map, qmap_eq_map, List.map_append]

/-- the extrapolating variant is element-wise too: whether *other* values of the vector leave the source range (on one
    side, both sides or not at all) does not matter for the value at a position -/
theorem qmapExtrap_elementwise (em : EcdfMethod) (im : IecdfMethod) (x y vals : List Rat) (d : Rat) (idx : List Nat) :
    qmapExtrap em im x y (idx.map (fun i => vals.getD i d)) =
      idx.map (fun i => (qmapExtrap em im x y vals).getD i (qmapExtrap1 em im x y d)) := by
  rw [qmapExtrap_eq_map, qmapExtrap_eq_map]; exact map_select _ _ _ _

theorem qmapExtrap_append (em : EcdfMethod) (im : IecdfMethod) (x y a b : List Rat) :
    qmapExtrap em im x y (a ++ b) = qmapExtrap em im x y a ++ qmapExtrap em im x y b := by
  rw [qmapExtrap_eq_map, qmapExtrap_eq_map, qmapExtrap_eq_map, List.map_append]

/-- a vector whose values all lie above the source range gets the constant shift at every position (one-sided case) -/
theorem qmapExtrap_all_above (em : EcdfMethod) (im : IecdfMethod) (x y vals : List Rat) (h : ∀ v ∈ vals, maxQ x < v) :
    qmapExtrap em im x y vals = vals.map (fun v => v + (maxQ y - maxQ x)) := by
  rw [qmapExtrap_eq_map]
  exact List.map_congr_left (fun v hv => qmapExtrap_above em im x y (h v hv))

theorem qmapExtrap_all_below (em : EcdfMethod) (im : IecdfMethod) (x y vals : List Rat) (hx : x ≠ [])
    (h : ∀ v ∈ vals, v < minQ x) : qmapExtrap em im x y vals = vals.map (fun v => v + (minQ y - minQ x)) := by
  rw [qmapExtrap_eq_map]
  exact List.map_congr_left (fun v hv => qmapExtrap_below em im x y hx (h v hv))

theorem ecdf_elementwise (m : EcdfMethod) (x ys : List Rat) (d : Rat) (idx : List Nat) :
    ecdf m x (idx.map (fun i => ys.getD i d)) = idx.map (fun i => (ecdf m x ys).getD i (ecdf1 m x d)) :=
  map_select _ _ _ _

theorem iecdf_elementwise (m : IecdfMethod) (x qs : List Rat) (d : Rat) (idx : List Nat) :
    iecdf m x (idx.map (fun i => qs.getD i d)) = idx.map (fun i => (iecdf m x qs).getD i (iecdf1 m x d)) :=
  map_select _ _ _ _

/-! ### call sequences with in-place updates: the helpers are functions of the current values only -/

/-- a call never writes the store -/
theorem seq_call_leaves_store (st : Store) (op : SeqOp) (h : callResult st op ≠ none) : storeAfter st op = st := by
  cases op <;> first | rfl | exact absurd rfl h

/-- call, in-place update, same call again: the second result is the helper applied to the **updated** contents —
    what a call on fresh copies of the updated arrays gives (no state survives between calls) -/
theorem seq_call_update_call (st : Store) (c : SeqOp) (i : Nat) (v : List Rat) (r1 r2 : List Rat)
    (h1 : callResult st c = some r1) (h2 : callResult (st.set i v) c = some r2) :
    runSeq st [c, .update i v, c] = [r1, r2] := by
  have hs : storeAfter st c = st := seq_call_leaves_store st c (by rw [h1]; simp)
  have hu : callResult st (.update i v) = none := rfl
  have hsu : storeAfter st (.update i v) = st.set i v := rfl
  rw [runSeq, h1]
  simp only []
  rw [hs, runSeq, hu]
  simp only []
  rw [hsu, runSeq, h2]
  simp only [runSeq]

/-- the result depends on the stored *values*, not on which stored object is named: two stores / names holding equal
    samples give equal results (so `f(a, a)` is `f(a, copy of a)`) -/
theorem seq_values_only (st st' : Store) (x y x' y' : Nat) (hx : st.get x = st'.get x') (hy : st.get y = st'.get y') :
    callResult st (.sortLike x y) = callResult st' (.sortLike x' y') ∧
    ∀ em im v v', st.get v = st'.get v' →
      callResult st (.qmap em im x y v) = callResult st' (.qmap em im x' y' v') := by
  refine ⟨by simp [callResult, hx, hy], fun em im v v' hv => by simp [callResult, hx, hy, hv]⟩

theorem seq_alias_sortLike (st : Store) (i : Nat) : callResult st (.sortLike i i) = some (st.get i) := by
  simp [callResult, Lemmas.Stats.sortLike_self]

example : runSeq [[3, 1, 2], [0, 1]] [.iecdf .inverted_cdf 0 1, .update 0 [30, 10, 20], .iecdf .inverted_cdf 0 1]
    = [iecdf .inverted_cdf [3, 1, 2] [0, 1], iecdf .inverted_cdf [30, 10, 20] [0, 1]] := rfl

end Props.C16
