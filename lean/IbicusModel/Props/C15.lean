/-
  C15 — configuration: `from_variable` behaves exactly as the published debiaser × variable table says; names are
  case-insensitive and `Variable` objects equivalent; keyword arguments override; a setting assigned before `apply`
  acts like the same setting passed at construction; invalid settings are rejected; ISIMIP without bounds is unbounded.
  Property theorems only.  All tables are `Model.Config` tables, proved equal to the tables regenerated from the
  source in `Lemmas.GenConfig`.
-/
import IbicusModel.Lemmas.Config
import IbicusModel.Lemmas.GenConfig

namespace Props.C15
open Model.Config Model.DebNames Lemmas.Config

/-! ### (a) the support matrix -/

/-- **The code's trichotomy equals the documented table** on the complete 8 × 14 matrix (all debiasers × all keys of
    `str_to_variable_class`; exhaustive `decide` over the finite table): silent ⇔ `x`, experimental warning ⇔ `(x)`,
    `ValueError` ⇔ empty cell or no row. -/
theorem support_matches_doc : ∀ d ∈ Deb.all, ∀ n ∈ names, fromVariable d (.name n) = supportDoc d n := by
  decide

/-- the columns of the table are the eight debiasers, in `Deb.all` order; the matrix has 14 names -/
theorem doc_columns : docColumns = Deb.all.map Deb.className ∧ names.length = 14 := by
  exact ⟨rfl, rfl⟩

/-- `prsn` has no row in the table and no default settings anywhere; `ps` is an alias of `psl` -/
theorem prsn_unsupported_ps_alias :
    (∀ d ∈ Deb.all, fromVariable d (.name "prsn") = .valueError ∧ supportDoc d "prsn" = .valueError) ∧
    (∀ d ∈ Deb.all, fromVariable d (.name "ps") = fromVariable d (.name "psl")) := by
  decide

/-- a name that is not a key (after lower-casing) is a `ValueError` for every debiaser -/
theorem unknown_name (d : Deb) (s : String) (h : lookupVar s = none) : fromVariable d (.name s) = .valueError := by
  simp [fromVariable, resolve, h]

example : lookupVar "temperature" = none := by decide

/-- the three outcomes all occur (the matrix is not trivially constant) -/
example : fromVariable .quantileMapping (.name "tas") = .silent ∧ fromVariable .quantileMapping (.name "hurs") = .experimental ∧
    fromVariable .quantileMapping (.name "rsds") = .valueError := by decide

/-! ### (b) names -/

/-- **Case-insensitive**: the outcome depends on the name only through its lower-cased form. -/
theorem name_insensitive (d : Deb) (s s' : String) (h : lowerName s = lowerName s') :
    fromVariable d (.name s) = fromVariable d (.name s') := by
  simp only [fromVariable, resolve, lookupVar, h]

example : lowerName "sfcWind" = lowerName "SFCWIND" := by decide

/-- upper-case and mixed-case spellings of all 14 names give the outcome of the lower-case key, for all debiasers
    (exhaustive over the finite matrix) -/
theorem name_cases_matrix : ∀ d ∈ Deb.all, ∀ n ∈ names,
    fromVariable d (.name (upperStr n)) = fromVariable d (.name n) ∧ fromVariable d (.name (mixedStr n)) = fromVariable d (.name n) := by
  decide

example : upperStr "tasmin" = "TASMIN" ∧ mixedStr "tasmin" = "TasMin" := by decide

/-- **`Variable` objects**: passing the object a key stands for gives the outcome of the key (exhaustive) -/
theorem object_eq_name : ∀ d ∈ Deb.all, ∀ p ∈ varKeys, fromVariable d (.obj p.2) = fromVariable d (.name p.1) := by
  decide

/-- QDM's detour through `for_precipitation` (any spelling of `pr` or the object, with a `censoring_threshold` keyword)
    never changes the outcome class -/
theorem qdm_detour_same_outcome (a : VarArg) (kw : Bool) :
    fromVariableK .quantileDeltaMapping a kw = fromVariable .quantileDeltaMapping a := by
  unfold fromVariableK
  by_cases h : (isPr a && kw) = true
  · simp only [h, if_true]
    have hp : isPr a = true := by
      cases hh : isPr a
      · rw [hh] at h; simp at h
      · rfl
    cases a with
    | name s =>
      have hs : lowerName s = "pr".toList := by simpa [isPr] using hp
      have : fromVariable .quantileDeltaMapping (.name s) = fromVariable .quantileDeltaMapping (.name "pr") :=
        name_insensitive _ _ _ (by rw [hs]; decide)
      rw [this]; decide
    | obj v =>
      have hv : v.toList = "pr".toList := by simpa [isPr, streq] using hp
      have hs : streq v = streq "pr" := by funext x; simp [streq, hv]
      simp only [fromVariable, resolve, classify, memS, hs]
      decide
  · have : (isPr a && kw) = false := by simpa using h
    simp [this]

/-- every `for_precipitation` constructor succeeds silently (as the `pr` row of the table says) -/
theorem for_precipitation_silent (d : Deb) : forPrecip d = none ∨ forPrecip d = some .silent := by
  cases d <;> decide

/-! ### (c) keyword arguments -/

/-- **kwargs override**: in `child_class(**{**parameters, **kwargs})` a keyword argument wins over whatever the variable
    defaults (or the general defaults) say. (Python keyword arguments have distinct names.) -/
theorem kwargs_override {α} (parameters kwargs : List (String × α)) (k : String) (v : α)
    (hmem : (k, v) ∈ kwargs) (huniq : ∀ v', (k, v') ∈ kwargs → v' = v) :
    getKV (merge parameters kwargs) k = some v :=
  getKV_merge parameters kwargs k v hmem huniq

example : getKV (merge [("delta_type", "additive"), ("running_window_mode", "False")] [("delta_type", "multiplicative")]) "delta_type"
    = some "multiplicative" := by decide

/-- … and that is the expression `_from_variable` evaluates (regenerated from its AST): variable name and range first,
    general defaults, variable defaults, keyword arguments last; the default / experimental / ValueError decision has the
    modelled shape; variable strings are lower-cased before the lookup. -/
theorem from_variable_shape :
    Gen.Config.fromVariableShape.mergeOrder.getLast? = some "**kwargs" ∧
    Gen.Config.fromVariableShape.mapsStrings = true ∧ Gen.Config.fromVariableShape.defaultFirst = true ∧
    Gen.Config.fromVariableShape.experimentalWarns = true ∧ Gen.Config.fromVariableShape.otherwiseValueError = true ∧
    Gen.Config.mapVariableShape = ⟨true, true, true, 0⟩ := by
  rw [Lemmas.GenConfig.fromVariableShape, Lemmas.GenConfig.mapVariableShape]
  exact ⟨rfl, rfl, rfl, rfl, rfl, rfl⟩

/-! ### (d) attribute assignment = construction -/

/-- `__attrs_post_init__` is idempotent (guard: fields that are only filled when `None` are given) -/
theorem derive_idem (rs : List Rule) (f : List (String × Val)) (e : String → Option Built) (j : Inst)
    (hs : Settled rs f) (h : derive rs ⟨f, e⟩ = .ok j) : derive rs j = .ok j := by
  have h' := h
  rw [derive_settled rs f e hs, derive_pure _ (pureOf_pure rs)] at h'
  cases hc : checkAll (pureOf rs) f with
  | error x => rw [hc] at h'; cases h'
  | ok u =>
    rw [hc] at h'
    simp only [Except.ok.injEq] at h'
    subst h'
    rw [derive_settled rs f _ hs, derive_pure _ (pureOf_pure rs), hc, closed_closed]

/-- **Assignment before `apply` = the setting at construction.**  For an instance constructed from `base`, assigning
    `k := v` and calling `apply` (which re-derives) shows the run exactly what an instance constructed from
    `base[k := v]` shows it — including the same exception if the new combination is invalid.
    Guard (explicit): every field that `__attrs_post_init__` only fills when it is `None` (QDM's `cdf_threshold`) is given. -/
theorem assign_eq_construct (rs : List Rule) (base : List (String × Val)) (k : String) (v : Val) (i0 : Inst)
    (hs0 : Settled rs base) (hs1 : Settled rs (setKV base k v))
    (h0 : construct rs base = .ok i0) :
    applyView rs true (assign i0 k v) = andThen (construct rs (setKV base k v)) (applyView rs true) := by
  obtain ⟨hf, _⟩ := derive_fields rs base noExtra hs0 i0 h0
  have hL := derive_view rs (setKV base k v) i0.extra hs1
  have hR := derive_view rs (setKV base k v) noExtra hs1
  have ha : assign i0 k v = ⟨setKV base k v, i0.extra⟩ := by simp [assign, hf]
  rw [ha, hL, ← hR]
  unfold andThen construct
  cases hd : derive rs ⟨setKV base k v, noExtra⟩ with
  | error x => simp [applyView, hd]
  | ok j => simp [applyView, hd, derive_idem rs _ noExtra j hs1 hd]

/-- the guard is vacuous for every debiaser but QuantileDeltaMapping … -/
theorem settled_all (d : Deb) (hd : d ≠ .quantileDeltaMapping) (f : List (String × Val)) : Settled (rulesOf d) f := by
  apply settled_of_pure
  cases d <;> first | decide | exact absurd rfl hd

/-- … where it says: `cdf_threshold` is given explicitly -/
theorem settled_qdm (f : List (String × Val)) (h : get f "cdf_threshold" ≠ .none) : Settled (rulesOf .quantileDeltaMapping) f := by
  have hr : rulesOf .quantileDeltaMapping =
      rwRules ++ [yearRule, .fillNone "cdf_threshold" "running_window_length" "running_window_over_years_of_cm_future_length"] := rfl
  intro t a b hm
  rw [hr] at hm
  simp [rwRules, yearRule] at hm
  obtain ⟨rfl, _, _⟩ := hm
  exact h

/-- non-vacuity: a LinearScaling-like instance, running window switched on by assignment -/
def lsBase : List (String × Val) :=
  [("delta_type", .s "additive"), ("running_window_mode", .b false), ("running_window_length", .i 31), ("running_window_step_length", .i 1)]

example : andThen (construct (rulesOf .linearScaling) lsBase) (fun i0 => applyView (rulesOf .linearScaling) true (assign i0 "running_window_mode" (.b true)))
    = .ok (setKV lsBase "running_window_mode" (.b true), [("running_window", ⟨"RunningWindowOverDaysOfYear", [.i 31, .i 1]⟩)]) := by
  decide +kernel

/-- the guard is needed (concrete witness): QDM built with `cdf_threshold = None`, then `running_window_length` assigned:
    the threshold derived at construction (from length 91) stays, whereas construction with length 31 derives another one -/
def qdmBase : List (String × Val) := [
  ("running_window_mode", .b true), ("running_window_length", .i 91), ("running_window_step_length", .i 31),
  ("running_window_mode_over_years_of_cm_future", .b true), ("running_window_over_years_of_cm_future_length", .i 31),
  ("running_window_over_years_of_cm_future_step_length", .i 1), ("cdf_threshold", .none)]

theorem qdm_cdf_threshold_guard_needed :
    andThen (construct (rulesOf .quantileDeltaMapping) qdmBase)
        (fun i0 => (applyView (rulesOf .quantileDeltaMapping) true (assign i0 "running_window_length" (.i 31))).map (fun w => getKV w.1 "cdf_threshold"))
      = .ok (some (.q (1 / 2822))) ∧
    andThen (construct (rulesOf .quantileDeltaMapping) (setKV qdmBase "running_window_length" (.i 31)))
        (fun i0 => (applyView (rulesOf .quantileDeltaMapping) true i0).map (fun w => getKV w.1 "cdf_threshold"))
      = .ok (some (.q (1 / 962))) := by
  decide +kernel

/-- both `apply` methods of the source start with `self.__attrs_post_init__()` (regenerated from the AST) … -/
theorem apply_rederives : ∀ p ∈ Gen.Config.applyRederives, p.2 = true := by
  rw [Lemmas.GenConfig.applyRederives]; decide

/-- … and it matters (concrete witness, what the unrepaired `DeltaChange.apply` did): without re-deriving, switching the
    running window on by assignment meets a missing attribute; with re-deriving it runs -/
theorem legacy_no_rederive_attribute_error :
    andThen (construct (rulesOf .deltaChange) lsBase) (fun i0 => applyView (rulesOf .deltaChange) false (assign i0 "running_window_mode" (.b true)))
      = .error "AttributeError" ∧
    andThen (construct (rulesOf .deltaChange) lsBase) (fun i0 => applyView (rulesOf .deltaChange) true (assign i0 "running_window_mode" (.b true)))
      = .ok (setKV lsBase "running_window_mode" (.b true), [("running_window", ⟨"RunningWindowOverDaysOfYear", [.i 31, .i 1]⟩)]) := by
  decide +kernel

/-! ### (e) invalid settings are rejected at construction -/

/-- a value that fails the converter or any validator of its field is rejected (with the class attrs raises) -/
theorem invalid_rejected (f : Field) (x y : Val) (v : Validator) (e : String)
    (hc : convertVal f.converter x = .ok y) (hv : v ∈ f.validators) (he : checkVal v y = some e) :
    ∃ e', checkField f x = .error e' := by
  unfold checkField
  rw [hc]
  simp only []
  have := firstFailure_of_mem f.validators y v e hv he
  obtain ⟨e', he'⟩ := this
  rw [he']
  exact ⟨e', rfl⟩

/-- examples over the regenerated field lists: wrong type, value not in the allowed list, non-positive length -/
example : (fieldOf .linearScaling "delta_type").map (fun f => checkField f (.s "linear")) = some (.error "ValueError") ∧
    (fieldOf .cdft "running_window_mode").map (fun f => checkField f (.i 1)) = some (.error "TypeError") ∧
    (fieldOf .isimip "running_window_length").map (fun f => checkField f (.i 0)) = some (.error "ValueError") ∧
    (fieldOf .quantileMapping "cdf_threshold").map (fun f => checkField f (.i 1)) = some (.error "TypeError") ∧
    (fieldOf .isimip "lower_bound").map (fun f => checkField f (.i 0)) = some (.ok (.q 0)) := by
  decide +kernel

/-- a step length larger than the window length is rejected by `__attrs_post_init__` of every running-window debiaser -/
theorem step_gt_length_rejected (d : Deb) (hd : d ∈ [Deb.linearScaling, .quantileMapping, .scaledDistributionMapping, .cdft, .ecdfm, .quantileDeltaMapping])
    (base : List (String × Val)) (S L : Int) (hS : get base "running_window_step_length" = .i S)
    (hL : get base "running_window_length" = .i L) (h : S > L) :
    construct (rulesOf d) base = .error "ValueError" := by
  have hr : ∃ rest, rulesOf d = .raiseIfGt "running_window_step_length" "running_window_length" :: rest := by
    simp only [List.mem_cons, List.not_mem_nil, or_false] at hd
    rcases hd with rfl | rfl | rfl | rfl | rfl | rfl <;> exact ⟨_, rfl⟩
  obtain ⟨rest, hr⟩ := hr
  rw [hr]
  simp [construct, derive, deriveStep, checkRule, hS, hL, h]

/-! ### (f) ISIMIP without bounds -/

/-- **ISIMIP built without bounds is unbounded**: the regenerated code defaults of the four bound attributes are the
    documented ones (`-inf`, `-inf`, `+inf`, `+inf`), and with them every regenerated `has_*` property is false. -/
theorem isimip_defaults_unbounded :
    Gen.Config.isimipDefaults = Gen.Config.isimipDocDefaults ∧
    Gen.Config.isimipDefaults = [("lower_bound", .negInf), ("lower_threshold", .negInf), ("upper_bound", .posInf), ("upper_threshold", .posInf)] ∧
    Gen.Config.has_lower_bound .negInf .negInf .posInf .posInf = false ∧
    Gen.Config.has_lower_threshold .negInf .negInf .posInf .posInf = false ∧
    Gen.Config.has_upper_bound .negInf .negInf .posInf .posInf = false ∧
    Gen.Config.has_upper_threshold .negInf .negInf .posInf .posInf = false ∧
    Gen.Config.has_bound .negInf .negInf .posInf .posInf = false ∧
    Gen.Config.has_threshold .negInf .negInf .posInf .posInf = false := by
  rw [Lemmas.GenConfig.isimipDefaults, Lemmas.GenConfig.isimipDocDefaults]
  exact ⟨rfl, rfl, rfl, rfl, rfl, rfl, rfl, rfl⟩

/-- the `has_*` properties do detect bounds (what the unrepaired defaults `+inf / -inf` did: all four were "present") -/
theorem legacy_wrong_sign_defaults_bounded :
    hasLowerBound .posInf .posInf .negInf .negInf = true ∧ hasUpperBound .posInf .posInf .negInf .negInf = true ∧
    hasLowerThreshold .posInf .posInf .negInf .negInf = true ∧ hasUpperThreshold .posInf .posInf .negInf .negInf = true ∧
    hasLowerBound (.fin 0) .negInf .posInf .posInf = true := by
  decide

/-! ### round 4: what the oracle demands, stated for the model -/

/-- every accepted name of one `Variable` object (an alias) gives the same outcome, for all debiasers (exhaustive over the
    14 × 14 pairs of keys) -/
theorem alias_same_outcome : ∀ d ∈ Deb.all, ∀ p ∈ varKeys, ∀ q ∈ varKeys, streq p.2 q.2 = true →
    fromVariable d (.name p.1) = fromVariable d (.name q.1) := by
  decide

example : (("ps", "psl") : String × String) ∈ varKeys ∧ (("psl", "psl") : String × String) ∈ varKeys := by decide

/-- QDM's detour is taken for exactly the spellings of `pr` (lower, UPPER, MiXed, exhaustive over the 14 names) and for
    exactly the `pr` object -/
theorem qdm_detour_spellings : ∀ n ∈ names,
    isPr (.name n) = streq n "pr" ∧ isPr (.name (upperStr n)) = streq n "pr" ∧ isPr (.name (mixedStr n)) = streq n "pr" ∧
    (∀ p ∈ varKeys, isPr (.obj p.2) = streq p.2 "pr") := by
  decide

/-- **the whole precedence chain of `_from_variable`'s keyword dictionary**: a keyword argument wins; otherwise the
    variable's default; otherwise the general default; otherwise the Variable's own name / range -/
theorem params_precedence {α} (name range : α) (general vs kwargs : List (String × α)) (k : String) :
    (∀ v, (k, v) ∈ kwargs → (∀ v', (k, v') ∈ kwargs → v' = v) → getKV (paramsOf name range general vs kwargs) k = some v) ∧
    (hasKey kwargs k = false → ∀ v, (k, v) ∈ vs → (∀ v', (k, v') ∈ vs → v' = v) → getKV (paramsOf name range general vs kwargs) k = some v) ∧
    (hasKey kwargs k = false → hasKey vs k = false → ∀ v, (k, v) ∈ general → (∀ v', (k, v') ∈ general → v' = v) →
        getKV (paramsOf name range general vs kwargs) k = some v) ∧
    (hasKey kwargs k = false → hasKey vs k = false → hasKey general k = false →
        getKV (paramsOf name range general vs kwargs) k = getKV [("variable", name), ("reasonable_physical_range", range)] k) := by
  unfold paramsOf
  refine ⟨fun v hm hu => getKV_merge _ _ k v hm hu, fun h1 v hm hu => ?_, fun h1 h2 v hm hu => ?_, fun h1 h2 h3 => ?_⟩
  · rw [getKV_merge_not_key _ _ _ h1]; exact getKV_merge _ _ k v hm hu
  · rw [getKV_merge_not_key _ _ _ h1, getKV_merge_not_key _ _ _ h2]; exact getKV_merge _ _ k v hm hu
  · rw [getKV_merge_not_key _ _ _ h1, getKV_merge_not_key _ _ _ h2, getKV_merge_not_key _ _ _ h3]

example : getKV (paramsOf "tas-name" "range" [("running_window_mode", "True"), ("detrending", "False")] [("detrending", "True")]
    [("running_window_mode", "False")]) "detrending" = some "True" ∧
    getKV (paramsOf "tas-name" "range" [("running_window_mode", "True")] [] [("running_window_mode", "False")]) "running_window_mode" = some "False" ∧
    getKV (paramsOf "tas-name" "range" [("running_window_mode", "True")] [] []) "variable" = some "tas-name" := by decide

/-- **whatever happened to the instance before** (an earlier `apply`, an earlier look at derived attributes, stale derived
    attributes `e` of any kind): after `k := v`, `apply` shows the run what a fresh instance constructed with `k = v` shows it -/
theorem assign_eq_construct_any_history (rs : List Rule) (f : List (String × Val)) (k : String) (v : Val)
    (e : String → Option Built) (hs : Settled rs (setKV f k v)) :
    applyView rs true (assign ⟨f, e⟩ k v) = andThen (construct rs (setKV f k v)) (applyView rs true) := by
  have hL := derive_view rs (setKV f k v) e hs
  have hR := derive_view rs (setKV f k v) noExtra hs
  have ha : assign ⟨f, e⟩ k v = ⟨setKV f k v, e⟩ := rfl
  rw [ha, hL, ← hR]
  unfold andThen construct
  cases hd : derive rs ⟨setKV f k v, noExtra⟩ with
  | error x => simp [applyView, hd]
  | ok j => simp [applyView, hd, derive_idem rs _ noExtra j hs hd]

/-- **Histories.**  For the seven debiasers whose `__attrs_post_init__` only validates and rebuilds (all but QDM): after ANY
    sequence of assignments and successful `apply`s on an instance constructed from `base`, the next `apply` shows the run
    exactly what a fresh instance constructed from the assigned-to fields shows it — nothing computed earlier survives. -/
theorem history_irrelevant (rs : List Rule) (hp : rs.all Rule.isPure = true) (base : List (String × Val)) (ops : List Op)
    (e : String → Option Built) (j : Inst) (h : runOps rs ⟨base, e⟩ ops = .ok j) :
    applyView rs true j = andThen (construct rs (fieldsAfter base ops)) (applyView rs true) := by
  have hf := runOps_fields rs hp ops base e j h
  obtain ⟨jf, je⟩ := j
  simp only [] at hf
  subst hf
  have hs := settled_of_pure rs hp (fieldsAfter base ops)
  have hL := derive_view rs _ je hs
  have hR := derive_view rs _ noExtra hs
  rw [hL, ← hR]
  unfold andThen construct
  cases hd : derive rs ⟨fieldsAfter base ops, noExtra⟩ with
  | error x => simp [applyView, hd]
  | ok j' => simp [applyView, hd, derive_idem rs _ noExtra j' hs hd]

theorem pure_rules : ∀ d ∈ Deb.all, d ≠ .quantileDeltaMapping → (rulesOf d).all Rule.isPure = true := by decide

/-- a history with two applies and two assignments in between (ISIMIP-like rules), evaluated -/
def isiBase : List (String × Val) := lsBase ++ [("distribution", .other "distribution"), ("nonparametric_qm", .b false)]

example : andThen (runOps (rulesOf .isimip) ⟨isiBase, noExtra⟩
      [.apply, .assign "running_window_mode" (.b true), .apply, .assign "running_window_length" (.i 61)]) (applyView (rulesOf .isimip) true)
    = .ok (setKV (setKV isiBase "running_window_mode" (.b true)) "running_window_length" (.i 61),
           [("running_window", ⟨"RunningWindowOverDaysOfYear", [.i 61, .i 1]⟩)]) := by
  decide +kernel

/-- **Invalid values are rejected whatever the other settings are**: if the value given for one field fails its converter or
    a validator, construction fails — for every assignment of the other fields -/
theorem invalid_rejected_any_context (d : Deb) (args : List (String × Val)) (f : Field) (x : Val) (e : String)
    (hm : f ∈ fieldsOf d) (hx : getKV args f.name = some x) (he : checkField f x = .error e) :
    ∃ e', constructChecked d args = .error e' := by
  obtain ⟨e', h⟩ := validateAll_error_of_mem (fieldsOf d) args f x e hm hx he
  exact ⟨e', by unfold constructChecked; rw [h]⟩

/-- **Invalid combinations are rejected at construction and at every re-run in `apply`**: whenever the check of ANY
    (validating or rebuilding) statement of a debiaser's `__attrs_post_init__` fails on the current fields, `__attrs_post_init__`
    raises — whatever derived attributes `e` the instance carries (none at construction, anything later) and whatever the other
    fields are. -/
theorem invalid_combination_rejected (d : Deb) (f : List (String × Val)) (e : String → Option Built) (r : Rule) (x : String)
    (hr : r ∈ pureOf (rulesOf d)) (hc : checkRule r f = .error x) :
    (∃ y, derive (rulesOf d) ⟨f, e⟩ = .error y) ∧ (∃ y, applyView (rulesOf d) true ⟨f, e⟩ = .error y) := by
  have key : ∃ y, derive (rulesOf d) ⟨f, e⟩ = .error y := by
    by_cases hq : d = .quantileDeltaMapping
    · subst hq
      have hsplit : rulesOf .quantileDeltaMapping = pureOf (rulesOf .quantileDeltaMapping) ++
          [.fillNone "cdf_threshold" "running_window_length" "running_window_over_years_of_cm_future_length"] := rfl
      obtain ⟨y, hy⟩ := derive_pure_error_of_mem _ (pureOf_pure _) f e r x hr hc
      exact ⟨y, by rw [hsplit, derive_append, hy]⟩
    · have hp : (rulesOf d).all Rule.isPure = true := by
        cases d <;> first | decide | exact absurd rfl hq
      have hm : r ∈ rulesOf d := (List.mem_filter.mp hr).1
      exact derive_pure_error_of_mem _ hp f e r x hm hc
  obtain ⟨y, hy⟩ := key
  exact ⟨⟨y, hy⟩, ⟨y, by simp [applyView, hy]⟩⟩

/-- the catalogue: the failing checks behind the three kinds of invalid combination -/
theorem invalid_combination_checks (f : List (String × Val)) :
    (get f "distribution" = .none → get f "nonparametric_qm" = .b false →
        checkRule (.raiseIfNoneAndNot "distribution" "nonparametric_qm") f = .error "ValueError") ∧
    (∀ L S : Int, get f "running_window_length" = .i L → get f "running_window_step_length" = .i S → S > L →
        checkRule (.raiseIfGt "running_window_step_length" "running_window_length") f = .error "ValueError") ∧
    (∀ L S : Int, get f "running_window_mode" = .b true → get f "running_window_length" = .i L → get f "running_window_step_length" = .i S →
        (L ≤ 0 ∨ S ≤ 0 ∨ normOdd S > normOdd L) →
        checkRule (.build "running_window" "running_window_mode" ["running_window_length", "running_window_step_length"] "RunningWindowOverDaysOfYear") f
          = .error "ValueError") ∧
    (∀ L S : Int, get f "running_window_mode_over_years_of_cm_future" = .b true →
        get f "running_window_over_years_of_cm_future_length" = .i L → get f "running_window_over_years_of_cm_future_step_length" = .i S →
        (L ≤ 0 ∨ S ≤ 0 ∨ normOdd S > normOdd L) → checkRule yearRule f = .error "ValueError") := by
  refine ⟨fun h1 h2 => by simp [checkRule, h1, h2], fun L S h1 h2 h => by simp [checkRule, h1, h2, h], ?_, ?_⟩
  · intro L S hm h1 h2 h
    simp only [checkRule, hm, List.map, h1, h2, buildCheck]
    rcases h with h | h | h
    · simp [h]
    · by_cases hl : L ≤ 0 <;> simp [hl, h]
    · by_cases hl : L ≤ 0 ∨ S ≤ 0 <;> simp [hl, h]
  · intro L S hm h1 h2 h
    simp only [yearRule, checkRule, hm, List.map, h1, h2, buildCheck]
    rcases h with h | h | h
    · simp [h]
    · by_cases hl : L ≤ 0 <;> simp [hl, h]
    · by_cases hl : L ≤ 0 ∨ S ≤ 0 <;> simp [hl, h]

/-- … and where each of them applies: ISIMIP's distribution check in every configuration (running window on or off);
    step > length for the six running-window debiasers in every configuration; the window construction for all eight
    (with the window on); the year windows for CDFt and QDM -/
theorem invalid_combination_members :
    Rule.raiseIfNoneAndNot "distribution" "nonparametric_qm" ∈ pureOf (rulesOf .isimip) ∧
    (∀ d ∈ [Deb.linearScaling, .quantileMapping, .scaledDistributionMapping, .cdft, .ecdfm, .quantileDeltaMapping],
        Rule.raiseIfGt "running_window_step_length" "running_window_length" ∈ pureOf (rulesOf d)) ∧
    (∀ d ∈ Deb.all, Rule.build "running_window" "running_window_mode" ["running_window_length", "running_window_step_length"]
        "RunningWindowOverDaysOfYear" ∈ pureOf (rulesOf d)) ∧
    (∀ d ∈ [Deb.cdft, .quantileDeltaMapping], yearRule ∈ pureOf (rulesOf d)) := by
  decide

/-- the ISIMIP combination, assembled: no distribution and no nonparametric mapping is rejected in EVERY configuration, at
    construction and at the re-run in `apply` -/
theorem isimip_no_distribution_rejected (f : List (String × Val)) (e : String → Option Built)
    (h1 : get f "distribution" = .none) (h2 : get f "nonparametric_qm" = .b false) :
    (∃ y, construct (rulesOf .isimip) f = .error y) ∧ (∃ y, applyView (rulesOf .isimip) true ⟨f, e⟩ = .error y) :=
  ⟨(invalid_combination_rejected .isimip f noExtra _ _ invalid_combination_members.1 ((invalid_combination_checks f).1 h1 h2)).1,
   (invalid_combination_rejected .isimip f e _ _ invalid_combination_members.1 ((invalid_combination_checks f).1 h1 h2)).2⟩

example : get ([("running_window_mode", .b false), ("distribution", .none), ("nonparametric_qm", .b false)] : List (String × Val)) "distribution" = .none := by
  decide

/-- **Assignment accepts exactly what construction accepts, and stores the same value**: for every field and every value
    spelling (Python int for a float field with a converter, numpy scalars, bool for int, …) the assignment `inst.k = x`
    succeeds iff the field's construction-time check succeeds, stores the converted value construction would store, and
    raises the same exception class otherwise — because no class of the hierarchy overrides attrs' `on_setattr`
    (decorator options regenerated from the source). -/
theorem assignment_checks_like_construction (d : Deb) (i : Inst) (f : Field) (x : Val) (hf : fieldOf d f.name = some f) :
    (∀ y, checkField f x = .ok y → assignChecked d i f.name x = .ok (assign i f.name y)) ∧
    (∀ e, checkField f x = .error e → assignChecked d i f.name x = .error e) ∧
    (∀ p ∈ Gen.Config.defineOptions, ∀ o ∈ p.2, o = "slots=False" ∨ o = "kw_only=True") := by
  refine ⟨fun y h => by simp [assignChecked, hf, h], fun e h => by simp [assignChecked, hf, h], ?_⟩
  rw [Lemmas.GenConfig.defineOptions]; decide

/-- spellings of the ISIMIP upper bound: a Python int and a numpy integer are converted to the float construction stores;
    a string is rejected both ways; for a float field *without* converter (QuantileMapping.cdf_threshold) an int is rejected both ways -/
example : (fieldOf .isimip "upper_bound").map (fun f => (checkField f (.i 60), checkField f (.np 60), checkField f (.s "sixty")))
      = some (.ok (.q 60), .ok (.q 60), .error "ValueError") ∧
    (fieldOf .quantileMapping "cdf_threshold").map (fun f => (checkField f (.i 1), checkField f (.np 1)))
      = some (.error "TypeError", .error "TypeError") ∧
    (fieldOf .isimip "window_length_annual_cycle_of_upper_bounds").map (fun f => checkField f (.q (61 / 2))) = some (.ok (.i 30)) := by
  decide +kernel

end Props.C15
