/-
  C18 — derived-variable conversions round-trip.
  Property theorems only, stated on `Model.Convert` (exact rational arithmetic, division **partial**:
  `Except.error "div0"` is what the real code reports as inf/NaN); `Lemmas.GenConvert` proves the model equal to the
  kernels regenerated from `ibicus/utils/_utils.py`.  Every guard is an explicit hypothesis; the zero-divisor cases
  are separate theorems saying that the value is *not* recovered (`*_degenerate`, `pr_not_recoverable`).
  numpy applies the kernels element by element: the `*_list` theorems lift the scalar statements to arrays of any
  shape (flattened).
-/
import IbicusModel.Lemmas.GenConvert
import Mathlib.Tactic.Linarith
import Mathlib.Tactic.Ring
import Mathlib.Tactic.FieldSimp
import Mathlib.Algebra.Order.Field.Basic

namespace Props.C18
open Model.Convert

theorem divE_ok (a b : Rat) (h : b ≠ 0) : Py.divE a b = .ok (a / b) := by
  unfold Py.divE; rw [if_neg h]

theorem divE_zero (a : Rat) : Py.divE a 0 = .error "div0" := by
  unfold Py.divE; rw [if_pos rfl]

/-! ### tas, tasmin, tasmax ↔ tasrange, tasskew -/

/-- **Round trip** `(tas, tasmin, tasmax) → (tasrange, tasskew) → (tasmin, tasmax)`: whenever `tasmax ≠ tasmin`
    the skew is defined and the single-variable inverses return the original `tasmin` and `tasmax`
    (for every `tas`, inside `[tasmin, tasmax]` or not). -/
theorem tas_roundtrip (tas tasmin tasmax : Rat) (h : tasmax ≠ tasmin) :
    ∃ s, getTasskew tas tasmin tasmax = .ok s ∧
      getTasmin tas (getTasrange tasmin tasmax) s = tasmin ∧
      getTasmax tas (getTasrange tasmin tasmax) s = tasmax := by
  have hd : tasmax - tasmin ≠ 0 := sub_ne_zero.mpr h
  refine ⟨(tas - tasmin) / (tasmax - tasmin), divE_ok _ _ hd, ?_, ?_⟩
  · unfold getTasmin getTasrange; field_simp; ring
  · unfold getTasmax tasmaxFromTasminAndRange getTasmin getTasrange; field_simp; ring

example : ∃ s, getTasskew 12 10 18 = .ok s ∧ getTasmin 12 (getTasrange 10 18) s = 10 ∧
    getTasmax 12 (getTasrange 10 18) s = 18 := tas_roundtrip 12 10 18 (by decide +kernel)

/-- the same through the paired functions `get_tasrange_tasskew` / `get_tasmin_tasmax` -/
theorem tas_roundtrip_pair (tas tasmin tasmax : Rat) (h : tasmax ≠ tasmin) :
    ∃ r s, getTasrangeTasskew tas tasmin tasmax = .ok (r, s) ∧ getTasminTasmax tas r s = (tasmin, tasmax) := by
  obtain ⟨s, hs, h1, h2⟩ := tas_roundtrip tas tasmin tasmax h
  refine ⟨getTasrange tasmin tasmax, s, ?_, ?_⟩
  · unfold getTasrangeTasskew; rw [hs]
  · unfold getTasminTasmax
    unfold getTasmax at h2
    simp only [h1] at h2 ⊢
    rw [h2]

example : ∃ r s, getTasrangeTasskew 12 10 18 = .ok (r, s) ∧ getTasminTasmax 12 r s = (10, 18) :=
  tas_roundtrip_pair 12 10 18 (by decide +kernel)

/-- **Degenerate case, stated not hidden**: for `tasmax = tasmin` the skew does not exist (the real code returns
    NaN for `tas = tasmin` and ±inf otherwise), so nothing is recovered from it. -/
theorem tas_degenerate (tas t : Rat) :
    getTasskew tas t t = .error "div0" ∧ getTasrangeTasskew tas t t = .error "div0" := by
  have : getTasskew tas t t = .error "div0" := by
    unfold getTasskew; rw [sub_self]; exact divE_zero _
  exact ⟨this, by unfold getTasrangeTasskew; rw [this]⟩

/-- and conversely the skew is an error only in that case -/
theorem tasskew_error_iff (tas tasmin tasmax : Rat) :
    (∃ e, getTasskew tas tasmin tasmax = .error e) ↔ tasmax = tasmin := by
  constructor
  · rintro ⟨e, he⟩
    by_contra hne
    obtain ⟨s, hs, _⟩ := tas_roundtrip tas tasmin tasmax hne
    rw [hs] at he; cases he
  · rintro rfl; exact ⟨_, (tas_degenerate tas tasmax).1⟩

/-- **The paired and the single-variable functions agree.** -/
theorem pair_eq_single (tas a b : Rat) :
    getTasminTasmax tas a b = (getTasmin tas a b, getTasmax tas a b) ∧
    getTasrangeTasskew tas a b = (getTasskew tas a b).map (fun s => (getTasrange a b, s)) := by
  constructor
  · rfl
  · unfold getTasrangeTasskew; cases getTasskew tas a b <;> rfl

/-- **Ordering is preserved by the inverse**: `0 ≤ tasskew ≤ 1` and `tasrange ≥ 0` give
    `tasmin ≤ tas ≤ tasmax` (and `tasmax − tasmin = tasrange`). -/
theorem tas_order (tas r s : Rat) (hs0 : 0 ≤ s) (hs1 : s ≤ 1) (hr : 0 ≤ r) :
    getTasmin tas r s ≤ tas ∧ tas ≤ getTasmax tas r s ∧ getTasmax tas r s - getTasmin tas r s = r := by
  unfold getTasmax tasmaxFromTasminAndRange getTasmin
  have h1 : 0 ≤ s * r := mul_nonneg hs0 hr
  have h2 : 0 ≤ (1 - s) * r := mul_nonneg (by linarith) hr
  refine ⟨by linarith, by nlinarith, by ring⟩

example : getTasmin 12 8 (1/4) ≤ 12 ∧ 12 ≤ getTasmax 12 8 (1/4) ∧ getTasmax 12 8 (1/4) - getTasmin 12 8 (1/4) = 8 :=
  tas_order 12 8 (1/4) (by decide +kernel) (by decide +kernel) (by decide +kernel)

/-- **The guards of `tas_order` are exact** (session 4): for a positive range the ordering `tasmin ≤ tas ≤ tasmax`
    holds *iff* `0 ≤ tasskew ≤ 1` — a skew outside `[0, 1]` always produces a `tas` outside `[tasmin, tasmax]`. -/
theorem tas_order_iff (tas r s : Rat) (hr : 0 < r) :
    (getTasmin tas r s ≤ tas ∧ tas ≤ getTasmax tas r s) ↔ (0 ≤ s ∧ s ≤ 1) := by
  unfold getTasmax tasmaxFromTasminAndRange getTasmin
  constructor
  · rintro ⟨h1, h2⟩
    have a : 0 ≤ s * r := by linarith
    have b : 0 ≤ (1 - s) * r := by nlinarith
    exact ⟨nonneg_of_mul_nonneg_left a hr, by have := nonneg_of_mul_nonneg_left b hr; linarith⟩
  · rintro ⟨h0, h1⟩
    have a : 0 ≤ s * r := mul_nonneg h0 (le_of_lt hr)
    have b : 0 ≤ (1 - s) * r := mul_nonneg (by linarith) (le_of_lt hr)
    exact ⟨by linarith, by nlinarith⟩

example : ¬ (getTasmin 12 8 (5/4) ≤ 12 ∧ 12 ≤ getTasmax 12 8 (5/4)) := by
  rw [tas_order_iff 12 8 (5/4) (by decide +kernel)]; decide +kernel

/-- with a zero range the skew is irrelevant: `tasmin = tas = tasmax` whatever `tasskew` is -/
theorem tas_order_zero_range (tas s : Rat) : getTasmin tas 0 s = tas ∧ getTasmax tas 0 s = tas := by
  unfold getTasmax tasmaxFromTasminAndRange getTasmin; constructor <;> ring

/-- a negative range inverts the order for every skew: the guard `tasrange ≥ 0` of `tas_order` is needed -/
theorem tas_order_neg_range (tas r s : Rat) (hr : r < 0) :
    getTasmax tas r s < getTasmin tas r s := by
  unfold getTasmax tasmaxFromTasminAndRange getTasmin; linarith

example : getTasmax 12 (-8) (1/4) < getTasmin 12 (-8) (1/4) :=
  tas_order_neg_range 12 (-8) (1/4) (by decide +kernel)

/-- and forwards: `tasmin < tasmax`, `tasmin ≤ tas ≤ tasmax` give `tasrange > 0` and `0 ≤ tasskew ≤ 1` -/
theorem tasskew_range (tas tasmin tasmax : Rat) (h : tasmin < tasmax) (h1 : tasmin ≤ tas) (h2 : tas ≤ tasmax) :
    0 < getTasrange tasmin tasmax ∧ ∃ s, getTasskew tas tasmin tasmax = .ok s ∧ 0 ≤ s ∧ s ≤ 1 := by
  have hd : 0 < tasmax - tasmin := by linarith
  refine ⟨hd, (tas - tasmin) / (tasmax - tasmin), divE_ok _ _ (ne_of_gt hd), ?_, ?_⟩
  · exact div_nonneg (by linarith) (le_of_lt hd)
  · rw [div_le_one hd]; linarith

example : 0 < getTasrange 10 18 ∧ ∃ s, getTasskew 12 10 18 = .ok s ∧ 0 ≤ s ∧ s ≤ 1 :=
  tasskew_range 12 10 18 (by decide +kernel) (by decide +kernel) (by decide +kernel)

/-- **Round trip the other way** `(tasrange, tasskew) → (tasmin, tasmax) → (tasrange, tasskew)` for `tasrange ≠ 0` -/
theorem tas_roundtrip_rev (tas r s : Rat) (hr : r ≠ 0) :
    getTasrange (getTasmin tas r s) (getTasmax tas r s) = r ∧
    getTasskew tas (getTasmin tas r s) (getTasmax tas r s) = .ok s := by
  have e : getTasmax tas r s - getTasmin tas r s = r := by
    unfold getTasmax tasmaxFromTasminAndRange getTasmin; ring
  refine ⟨e, ?_⟩
  unfold getTasskew
  rw [e, divE_ok _ _ hr]
  congr 1
  unfold getTasmin; field_simp; ring

example : getTasrange (getTasmin 12 8 (1/4)) (getTasmax 12 8 (1/4)) = 8 ∧
    getTasskew 12 (getTasmin 12 8 (1/4)) (getTasmax 12 8 (1/4)) = .ok (1/4) :=
  tas_roundtrip_rev 12 8 (1/4) (by decide +kernel)

/-! ### pr, prsn, prsnratio -/

/-- **`pr ≠ 0`**: the ratio is defined and `get_prsn(pr, get_prsnratio(pr, prsn)) = prsn`. -/
theorem pr_roundtrip_prsn (pr prsn : Rat) (h : pr ≠ 0) :
    ∃ q, getPrsnratio pr prsn = .ok q ∧ getPrsn pr q = prsn := by
  refine ⟨prsn / pr, divE_ok _ _ h, ?_⟩
  unfold getPrsn; field_simp

example : ∃ q, getPrsnratio 8 2 = .ok q ∧ getPrsn 8 q = 2 := pr_roundtrip_prsn 8 2 (by decide +kernel)

/-- **`pr ≠ 0` and `prsn ≠ 0`**: `get_pr(prsn, get_prsnratio(pr, prsn)) = pr`. -/
theorem pr_roundtrip_pr (pr prsn : Rat) (h : pr ≠ 0) (hs : prsn ≠ 0) :
    ∃ q, getPrsnratio pr prsn = .ok q ∧ getPr prsn q = .ok pr := by
  refine ⟨prsn / pr, divE_ok _ _ h, ?_⟩
  unfold getPr
  rw [divE_ok _ _ (div_ne_zero hs h)]
  congr 1
  field_simp

example : ∃ q, getPrsnratio 8 2 = .ok q ∧ getPr 2 q = .ok 8 :=
  pr_roundtrip_pr 8 2 (by decide +kernel) (by decide +kernel)

/-- **`prsn = 0` (no snow), stated not hidden**: the ratio is 0 and `get_pr` cannot return `pr` — the real code
    yields NaN (`0/0`); moreover *no* function of `(prsn, prsnratio)` could: two different `pr` give the same pair. -/
theorem pr_not_recoverable (pr pr' : Rat) (h : pr ≠ 0) (h' : pr' ≠ 0) :
    getPrsnratio pr 0 = .ok 0 ∧ getPr 0 0 = .error "div0" ∧ getPrsnratio pr 0 = getPrsnratio pr' 0 := by
  have e : ∀ p : Rat, p ≠ 0 → getPrsnratio p 0 = .ok 0 := by
    intro p hp; unfold getPrsnratio; rw [divE_ok _ _ hp, zero_div]
  exact ⟨e pr h, divE_zero 0, by rw [e pr h, e pr' h']⟩

example : getPrsnratio 3 0 = .ok 0 ∧ getPr 0 0 = .error "div0" ∧ getPrsnratio 3 0 = getPrsnratio 5 0 :=
  pr_not_recoverable 3 5 (by decide +kernel) (by decide +kernel)

/-- `pr = 0` (outside the property's quantifier): the ratio does not exist (real code: NaN or inf). -/
theorem prsnratio_degenerate (prsn : Rat) : getPrsnratio 0 prsn = .error "div0" := divE_zero prsn

/-- for `pr > 0` and `0 ≤ prsn ≤ pr` the ratio is a fraction in `[0, 1]` -/
theorem prsnratio_range (pr prsn : Rat) (h : 0 < pr) (h0 : 0 ≤ prsn) (h1 : prsn ≤ pr) :
    ∃ q, getPrsnratio pr prsn = .ok q ∧ 0 ≤ q ∧ q ≤ 1 :=
  ⟨prsn / pr, divE_ok _ _ (ne_of_gt h), div_nonneg h0 (le_of_lt h), by rw [div_le_one h]; exact h1⟩

example : ∃ q, getPrsnratio 8 2 = .ok q ∧ 0 ≤ q ∧ q ≤ 1 :=
  prsnratio_range 8 2 (by decide +kernel) (by decide +kernel) (by decide +kernel)

/-- **The guards of `prsnratio_range` are exact** (session 4): for `pr > 0` the ratio lies in `[0, 1]` *iff* `0 ≤ prsn ≤ pr`. -/
theorem prsnratio_range_iff (pr prsn : Rat) (h : 0 < pr) :
    (∃ q, getPrsnratio pr prsn = .ok q ∧ 0 ≤ q ∧ q ≤ 1) ↔ (0 ≤ prsn ∧ prsn ≤ pr) := by
  constructor
  · rintro ⟨q, hq, h0, h1⟩
    unfold getPrsnratio at hq; rw [divE_ok _ _ (ne_of_gt h)] at hq
    have e : prsn / pr = q := by injection hq
    subst e
    exact ⟨by have := mul_nonneg h0 (le_of_lt h); rwa [div_mul_cancel₀ _ (ne_of_gt h)] at this, by rwa [div_le_one h] at h1⟩
  · rintro ⟨h0, h1⟩; exact prsnratio_range pr prsn h h0 h1

example : ¬ ∃ q, getPrsnratio 8 9 = .ok q ∧ 0 ≤ q ∧ q ≤ 1 := by
  rw [prsnratio_range_iff 8 9 (by decide +kernel)]; decide +kernel

/-- `prsnratio ≠ 0` and `pr ≠ 0`: `(pr, prsnratio) → prsn → pr` and `→ prsnratio` -/
theorem pr_roundtrip_rev (pr q : Rat) (h : pr ≠ 0) (hq : q ≠ 0) :
    getPr (getPrsn pr q) q = .ok pr ∧ getPrsnratio pr (getPrsn pr q) = .ok q := by
  unfold getPr getPrsnratio getPrsn
  rw [divE_ok _ _ hq, divE_ok _ _ h]
  constructor <;> (congr 1; field_simp)

example : getPr (getPrsn 8 (1/4)) (1/4) = .ok 8 ∧ getPrsnratio 8 (getPrsn 8 (1/4)) = .ok (1/4) :=
  pr_roundtrip_rev 8 (1/4) (by decide +kernel) (by decide +kernel)

/-! ### arrays of any shape (element-wise lifting) -/

/-- the complete round trip at one element -/
def tasRoundTripAt (tas tasmin tasmax : Rat) : Except String (Rat × Rat) :=
  match getTasrangeTasskew tas tasmin tasmax with
  | .ok (r, s) => .ok (getTasminTasmax tas r s)
  | .error e => .error e

theorem tasRoundTripAt_ok (tas tasmin tasmax : Rat) (h : tasmax ≠ tasmin) :
    tasRoundTripAt tas tasmin tasmax = .ok (tasmin, tasmax) := by
  obtain ⟨r, s, h1, h2⟩ := tas_roundtrip_pair tas tasmin tasmax h
  unfold tasRoundTripAt; rw [h1]; simp only [h2]

/-- **Arrays of any shape**: for three equally shaped arrays (flattened) with `tasmax ≠ tasmin` at every element,
    the element-wise round trip returns the original `(tasmin, tasmax)` at every element. -/
theorem tas_roundtrip_list (tas tasmin tasmax : List Rat)
    (h : ∀ p ∈ tasmin.zip tasmax, p.2 ≠ p.1) :
    map3 tasRoundTripAt tas tasmin tasmax = map3 (fun _ b c => .ok (b, c)) tas tasmin tasmax := by
  induction tas generalizing tasmin tasmax with
  | nil => simp [map3]
  | cons a as ih =>
    cases tasmin with
    | nil => simp [map3]
    | cons b bs =>
      cases tasmax with
      | nil => simp [map3]
      | cons c cs =>
        simp only [map3]
        rw [tasRoundTripAt_ok a b c (h (b, c) (by simp)), ih bs cs (fun p hp => h p (by simp [hp]))]

example : map3 tasRoundTripAt [12, 3, -1] [10, 2, -4] [18, 5, 0] = [.ok (10, 18), .ok (2, 5), .ok (-4, 0)] :=
  tas_roundtrip_list [12, 3, -1] [10, 2, -4] [18, 5, 0] (by decide +kernel)

/-- the complete precipitation round trip at one element: `(pr, prsn) → ratio → (pr, prsn)` -/
def prRoundTripAt (pr prsn : Rat) : Except String (Rat × Rat) :=
  match getPrsnratio pr prsn with
  | .ok q => (match getPr prsn q with
      | .ok p => .ok (p, getPrsn pr q)
      | .error e => .error e)
  | .error e => .error e

/-- **Arrays of any shape**: with `pr ≠ 0` and `prsn ≠ 0` at every element both variables are recovered everywhere. -/
theorem pr_roundtrip_list (pr prsn : List Rat) (h : ∀ p ∈ pr.zip prsn, p.1 ≠ 0 ∧ p.2 ≠ 0) :
    map2 prRoundTripAt pr prsn = map2 (fun a b => .ok (a, b)) pr prsn := by
  induction pr generalizing prsn with
  | nil => simp [map2]
  | cons a as ih =>
    cases prsn with
    | nil => simp [map2]
    | cons b bs =>
      simp only [map2]
      have hab := h (a, b) (by simp)
      obtain ⟨q, hq, hp⟩ := pr_roundtrip_pr a b hab.1 hab.2
      obtain ⟨q', hq', hs⟩ := pr_roundtrip_prsn a b hab.1
      have : q' = q := by rw [hq] at hq'; cases hq'; rfl
      subst this
      have e : prRoundTripAt a b = .ok (a, b) := by
        unfold prRoundTripAt; rw [hq]; simp only [hp, hs]
      rw [e, ih bs (fun p hp => h p (by simp [hp]))]

example : map2 prRoundTripAt [8, 3] [2, 3] = [.ok (8, 2), .ok (3, 3)] :=
  pr_roundtrip_list [8, 3] [2, 3] (by decide +kernel)

/-- `prsn` alone is recovered wherever `pr ≠ 0` (snow-free elements included) -/
theorem prsn_roundtrip_list (pr prsn : List Rat) (h : ∀ p ∈ pr.zip prsn, p.1 ≠ 0) :
    map2 (fun a b => (getPrsnratio a b).map (getPrsn a)) pr prsn = map2 (fun _ b => .ok b) pr prsn := by
  induction pr generalizing prsn with
  | nil => simp [map2]
  | cons a as ih =>
    cases prsn with
    | nil => simp [map2]
    | cons b bs =>
      simp only [map2]
      obtain ⟨q, hq, hs⟩ := pr_roundtrip_prsn a b (h (a, b) (by simp))
      rw [hq, ih bs (fun p hp => h p (by simp [hp]))]
      simp only [Except.map, hs]

example : map2 (fun a b => (getPrsnratio a b).map (getPrsn a)) [8, 3] [2, 0] = [.ok 2, .ok 0] :=
  prsn_roundtrip_list [8, 3] [2, 0] (by decide +kernel)

/-! ### shape and storage order (element-wise: index `i` of the result is the kernel at index `i` of the inputs) -/

/-- **Shape is preserved**: equally shaped (flattened) inputs give a result of that shape. -/
theorem map3_length {β} (f : Rat → Rat → Rat → β) : ∀ (a b c : List Rat), a.length = b.length → b.length = c.length →
    (map3 f a b c).length = a.length
  | [], _, _, _, _ => by simp [map3]
  | _ :: _, [], _, h, _ => by simp at h
  | _ :: _, _ :: _, [], _, h => by simp at h
  | x :: a, y :: b, z :: c, h1, h2 => by
    simp only [map3, List.length_cons] at *
    rw [map3_length f a b c (by omega) (by omega)]

theorem map2_length {β} (f : Rat → Rat → β) : ∀ (a b : List Rat), a.length = b.length → (map2 f a b).length = a.length
  | [], _, _ => by simp [map2]
  | _ :: _, [], h => by simp at h
  | x :: a, y :: b, h => by
    simp only [map2, List.length_cons] at *
    rw [map2_length f a b (by omega)]

example : (map3 getTasmin [1, 2, 3] [4, 5, 6] [0, 1, 1 / 2]).length = 3 := map3_length _ _ _ _ rfl rfl

/-- **Element-wise**: entry `i` of the result is the scalar kernel of the entries `i` of the inputs, nothing else. -/
theorem map3_getD {β} (f : Rat → Rat → Rat → β) (da db dc : Rat) : ∀ (a b c : List Rat), a.length = b.length → b.length = c.length →
    ∀ i, (map3 f a b c).getD i (f da db dc) = f (a.getD i da) (b.getD i db) (c.getD i dc)
  | [], [], [], _, _, i => by simp [map3]
  | [], _ :: _, _, h, _, _ => by simp at h
  | _ :: _, [], _, h, _, _ => by simp at h
  | [], [], _ :: _, _, h, _ => by simp at h
  | _ :: _, _ :: _, [], _, h, _ => by simp at h
  | x :: a, y :: b, z :: c, h1, h2, i => by
    cases i with
    | zero => simp [map3]
    | succ n =>
      simp only [map3, List.getD_cons_succ]
      exact map3_getD f da db dc a b c (by simpa using h1) (by simpa using h2) n

theorem map2_getD {β} (f : Rat → Rat → β) (da db : Rat) : ∀ (a b : List Rat), a.length = b.length →
    ∀ i, (map2 f a b).getD i (f da db) = f (a.getD i da) (b.getD i db)
  | [], [], _, i => by simp [map2]
  | [], _ :: _, h, _ => by simp at h
  | _ :: _, [], h, _ => by simp at h
  | x :: a, y :: b, h, i => by
    cases i with
    | zero => simp [map2]
    | succ n =>
      simp only [map2, List.getD_cons_succ]
      exact map2_getD f da db a b (by simpa using h) n

/-- **Storage order does not matter**: converting the arrays visited in any order `idx` (a transposed, Fortran-ordered,
    strided or reversed view, any permutation or selection of the elements) is the conversion visited in that order. -/
theorem storage_order3 {β} (f : Rat → Rat → Rat → β) (a b c : List Rat) (da db dc : Rat)
    (h1 : a.length = b.length) (h2 : b.length = c.length) (idx : List Nat) :
    map3 f (pick a idx da) (pick b idx db) (pick c idx dc) = pick (map3 f a b c) idx (f da db dc) := by
  induction idx with
  | nil => simp [pick, map3]
  | cons i t ih =>
    simp only [pick, List.map_cons, map3] at ih ⊢
    rw [ih, map3_getD f da db dc a b c h1 h2 i]

theorem storage_order2 {β} (f : Rat → Rat → β) (a b : List Rat) (da db : Rat) (h : a.length = b.length) (idx : List Nat) :
    map2 f (pick a idx da) (pick b idx db) = pick (map2 f a b) idx (f da db) := by
  induction idx with
  | nil => simp [pick, map2]
  | cons i t ih =>
    simp only [pick, List.map_cons, map2] at ih ⊢
    rw [ih, map2_getD f da db a b h i]

example : map3 getTasmin (pick [10, 20, 30] [2, 0, 1] 0) (pick [1, 2, 3] [2, 0, 1] 0) (pick [1, 1 / 2, 0] [2, 0, 1] 0) =
    pick (map3 getTasmin [10, 20, 30] [1, 2, 3] [1, 1 / 2, 0]) [2, 0, 1] (getTasmin 0 0 0) :=
  storage_order3 getTasmin [10, 20, 30] [1, 2, 3] [1, 1 / 2, 0] 0 0 0 rfl rfl [2, 0, 1]

/-! ### sequences of calls and in-place modifications on the same arrays -/

theorem envAfter_append (e : Env) (p q : List Step) : envAfter e (p ++ q) = envAfter (envAfter e p) q := by
  induction p generalizing e with
  | nil => rfl
  | cons st t ih => cases st <;> simp only [List.cons_append, envAfter, ih]

theorem run_append (e : Env) (p q : List Step) : run e (p ++ q) = run e p ++ run (envAfter e p) q := by
  induction p generalizing e with
  | nil => rfl
  | cons st t ih => cases st <;> simp only [List.cons_append, run, envAfter, ih]

/-- **Every call is a fresh computation**: whatever was called before on the same arrays and however they were modified
    in place, a call returns the formulas of the *current* content of its arguments. -/
theorem call_fresh (e : Env) (pre : List Step) (f : Fn) :
    run e (pre ++ [.call f]) = run e pre ++ [f.eval (envAfter e pre)] := by
  rw [run_append]; rfl

/-- **Calls change nothing**: the content of the arrays after a script is the content after its modifications alone. -/
theorem calls_do_not_change_arrays (e : Env) (script : List Step) :
    envAfter e script = envAfter e (script.filter Step.isMod) := by
  induction script generalizing e with
  | nil => rfl
  | cons st t ih =>
    cases st with
    | call f => simp only [envAfter, List.filter_cons, Step.isMod, Bool.false_eq_true, if_false]; exact ih e
    | mod m => simp only [envAfter, List.filter_cons, Step.isMod, if_true]; exact ih _

/-- a call repeated gives the same result, and the paired functions are the single ones side by side, at any point of a script -/
theorem call_repeatable (e : Env) (pre : List Step) (f : Fn) :
    run e (pre ++ [.call f, .call f]) = run e pre ++ [f.eval (envAfter e pre), f.eval (envAfter e pre)] := by
  rw [run_append]; rfl

theorem paired_eval (e : Env) :
    Fn.rangeskew.eval e = Fn.tasrange.eval e ++ Fn.tasskew.eval e ∧ Fn.minmax.eval e = Fn.tasmin.eval e ++ Fn.tasmax.eval e :=
  ⟨rfl, rfl⟩

/-- the stale-cache scenario: `get_tasmin`, then a unit change in place, then `get_tasmax` — the second call sees the shifted `tas` -/
example :
    run ⟨[280], [275], [290], [15], [1 / 3], [2], [1], [1 / 2]⟩ [.call .tasmin, .mod (.shiftT 273), .call .tasmax] =
      [[[.ok 275]], [[.ok 17]]] := by decide +kernel

end Props.C18
