/-
  C04 — unit-change equivariance for unbounded variables (K vs °C vs °F).

  For `g x = a·x + b`, `a > 0` (written `affine a b xs = xs.map (fun x => a * x + b)`):
      f (g • obs) (g • cm_hist) (g • cm_future) = g • f obs cm_hist cm_future
  for the per-window transfer function `f` of each of the eight debiasers with tas-like settings, and for the
  whole-series run in every window mode (seasonal running windows on/off, CDFt / QDM year windows on/off, ISIMIP
  running windows / months).  Multiplicative LinearScaling / DeltaChange: pure rescaling (`b = 0`).

  Layer N (`Model/Debiasers.lean`, `Model/Isimip.lean`) over exact rationals; the distribution family is a parameter
  with `LocScaleLaws` (proved for the executable test double `ratSigmoid`, assumed for `scipy.stats.norm`).
  Guards are explicit.  What is *not* needed is said: the `cdf_threshold` clipping needs no guard (it acts on cdf
  values, which do not see the unit), neither does tie-freeness (the stable argsort is invariant).
-/
import IbicusModel.Lemmas.C04Windowed
import IbicusModel.Lemmas.GenDebiasers
import IbicusModel.Props.C05
import IbicusModel.Model.FromVariable

namespace Props.C04
open Model.Stats Model.Family Model.Debiasers Model.Isimip Model.Skeleton
open Lemmas.Stats Lemmas.StatsAffine Lemmas.Family Lemmas.C04

/-- the unit change on a result buffer (`none` = never written) -/
abbrev affineBuf (a b : Rat) (out : List (Option Rat)) : List (Option Rat) := out.map (Option.map (fun v => a * v + b))

/-! ## ingredients (DESIGN §9: `sort_map_mono`, `rank_map_mono`) -/

/-- sorting commutes with strictly increasing maps -/
theorem sort_map_mono {g : Rat → Rat} (hg : StrictMono g) (l : List Rat) : sortQ (l.map g) = (sortQ l).map g :=
  sortQ_map_mono hg l

/-- `np.argsort(np.argsort(x))` (stable) does not change under strictly increasing maps — ties included -/
theorem rank_map_mono {g : Rat → Rat} (hg : StrictMono g) (l : List Rat) : rankOf (l.map g) = rankOf l :=
  rankOf_map_mono hg l

/-- both empirical cdfs are unit-free, all nine inverse empirical cdfs carry the unit -/
theorem ecdf_iecdf_affine {a : Rat} (ha : 0 < a) (b : Rat) (em : EcdfMethod) (im : IecdfMethod) :
    (∀ x y, ecdf1 em (affine a b x) (a * y + b) = ecdf1 em x y) ∧
    (∀ x p, x ≠ [] → p ≤ 1 → iecdf1 im (affine a b x) p = a * iecdf1 im x p + b) :=
  ⟨ecdf1_map_affine ha b em, fun _ _ hx hp => iecdf1_map_affine ha b im hx hp⟩

example : sortQ ((affine (9 / 5) 32 [3, -1, 2])) = affine (9 / 5) 32 (sortQ [3, -1, 2]) :=
  sortQ_map_affine (by norm_num) 32 _
-- a sample with a tie: the ranks are still the same (the model's argsort is the stable one)
example : rankOf (affine (9 / 5) 32 [3, -1, 2, -1]) = rankOf [3, -1, 2, -1] := rankOf_map_affine (by norm_num) 32 _

/-! ## 1–2. LinearScaling, DeltaChange -/

/-- **LinearScaling (additive)**: any `a`, `b` (not even `a > 0` is needed). Guard: the two means exist. -/
theorem ls_add_affine (a b : Rat) {obs H : List Rat} (F : List Rat) (ho : obs ≠ []) (hh : H ≠ []) :
    linearScaling .additive (affine a b obs) (affine a b H) (affine a b F)
      = affine a b (linearScaling .additive obs H F) := by
  unfold linearScaling
  simp only
  rw [mean_map_affine a b ho, mean_map_affine a b hh]
  apply affine_map_congr
  intro x _
  ring

/-- **DeltaChange (additive)**: the corrected series is `obs`. Guard: the two means exist. -/
theorem dc_add_affine (a b : Rat) (obs : List Rat) {H F : List Rat} (hh : H ≠ []) (hf : F ≠ []) :
    deltaChange .additive (affine a b obs) (affine a b H) (affine a b F)
      = affine a b (deltaChange .additive obs H F) := by
  unfold deltaChange
  simp only
  rw [mean_map_affine a b hf, mean_map_affine a b hh]
  apply affine_map_congr
  intro x _
  ring

/-- **LinearScaling (multiplicative)** is equivariant under pure rescaling `x ↦ a·x`, `a ≠ 0`.
    Guard `lsGuard`: means exist and `mean cm_hist ≠ 0`. -/
theorem ls_mult_scale_equivariant {a : Rat} (ha : a ≠ 0) {obs H : List Rat} (F : List Rat)
    (hg : lsGuard .multiplicative obs H) :
    linearScaling .multiplicative (affine a 0 obs) (affine a 0 H) (affine a 0 F)
      = affine a 0 (linearScaling .multiplicative obs H F) := by
  obtain ⟨ho, hh, _⟩ := hg
  unfold linearScaling
  simp only
  rw [mean_map_affine a 0 ho, mean_map_affine a 0 hh]
  apply affine_map_congr
  intro x _
  simp only [add_zero]
  rw [mul_div_mul_left _ _ ha]
  ring

/-- **DeltaChange (multiplicative)** under pure rescaling. Guard `dcGuard`. -/
theorem dc_mult_scale_equivariant {a : Rat} (ha : a ≠ 0) (obs : List Rat) {H F : List Rat}
    (hg : dcGuard .multiplicative H F) :
    deltaChange .multiplicative (affine a 0 obs) (affine a 0 H) (affine a 0 F)
      = affine a 0 (deltaChange .multiplicative obs H F) := by
  obtain ⟨hh, hf, _⟩ := hg
  unfold deltaChange
  simp only
  rw [mean_map_affine a 0 hf, mean_map_affine a 0 hh]
  apply affine_map_congr
  intro x _
  simp only [add_zero]
  rw [mul_div_mul_left _ _ ha]
  ring

-- non-vacuity: K → °F on a concrete sample; the output differs from the input (the correction is not the identity)
example : linearScaling .additive (affine (9 / 5) 32 [1, 2, 6]) (affine (9 / 5) 32 [2, 4, 9]) (affine (9 / 5) 32 [5, 7])
    = affine (9 / 5) 32 (linearScaling .additive [1, 2, 6] [2, 4, 9] [5, 7]) := ls_add_affine _ _ _ (by simp) (by simp)
example : linearScaling .additive [1, 2, 6] [2, 4, 9] [5, 7] = [3, 5] := by decide +kernel
example : deltaChange .additive (affine (5 / 9) (-160 / 9) [1, 2, 6]) (affine (5 / 9) (-160 / 9) [2, 4, 9]) (affine (5 / 9) (-160 / 9) [5, 7])
    = affine (5 / 9) (-160 / 9) (deltaChange .additive [1, 2, 6] [2, 4, 9] [5, 7]) := dc_add_affine _ _ _ (by simp) (by simp)
example : lsGuard .multiplicative [1, 2, 6] [2, 4, 9] ∧ dcGuard .multiplicative [2, 4, 9] [5, 7] := by decide +kernel
example : linearScaling .multiplicative (affine 3 0 [1, 2, 6]) (affine 3 0 [2, 4, 9]) (affine 3 0 [5, 7])
    = affine 3 0 (linearScaling .multiplicative [1, 2, 6] [2, 4, 9] [5, 7]) :=
  ls_mult_scale_equivariant (by norm_num) _ (by decide +kernel)
/-- the multiplicative form is **not** shift-equivariant (why the property restricts it to `b = 0`) -/
theorem ls_mult_not_shift_equivariant :
    linearScaling .multiplicative (affine 1 1 [1, 2, 6]) (affine 1 1 [2, 4, 9]) (affine 1 1 [5, 7])
      ≠ affine 1 1 (linearScaling .multiplicative [1, 2, 6] [2, 4, 9] [5, 7]) := by decide +kernel

/-! ## 3. QuantileMapping -/

/-- **QuantileMapping, parametric** over any family with `LocScaleLaws`, additive detrending or none, **any
    `cdf_threshold` — clipped or not** (no `NoClip` guard: the clipping acts on cdf values, which are unit-free).
    Guard: samples non-empty. -/
theorem qm_param_affine {Fam : LocScaleFam} (L : LocScaleLaws Fam) {a : Rat} (ha : 0 < a) (b t : Rat)
    (d : Detrending) (hd : d ≠ .multiplicative) {obs H F : List Rat} (ho : obs ≠ []) (hh : H ≠ []) (hf : F ≠ []) :
    qmParam Fam.toFamily t d (affine a b obs) (affine a b H) (affine a b F)
      = affine a b (qmParam Fam.toFamily t d obs H F) :=
  quantileMapping_affine _ a b d hd hh hf (standardQMParam_affine L ha b t ho hh)

/-- **QuantileMapping, non-parametric** (step ecdf, `IECDF`, constant extrapolation) -/
theorem qm_nonparam_affine {a : Rat} (ha : 0 < a) (b : Rat) (d : Detrending) (hd : d ≠ .multiplicative)
    {obs H F : List Rat} (ho : obs ≠ []) (hh : H ≠ []) (hf : F ≠ []) :
    qmNonparam d (affine a b obs) (affine a b H) (affine a b F) = affine a b (qmNonparam d obs H F) :=
  quantileMapping_affine _ a b d hd hh hf (standardQMNonparam_affine ha b ho hh)

example : qmParam Model.Family.ratSigmoid.toFamily (1 / 16) .additive (affine (9 / 5) 32 [1, 2, 6]) (affine (9 / 5) 32 [2, 4, 9])
      (affine (9 / 5) 32 [5, 7, 40])
    = affine (9 / 5) 32 (qmParam Model.Family.ratSigmoid.toFamily (1 / 16) .additive [1, 2, 6] [2, 4, 9] [5, 7, 40]) :=
  qm_param_affine ratSigmoid_laws (by norm_num) _ _ _ (by decide) (by simp) (by simp) (by simp)
-- … and this instance is clipped: the largest future value is pulled to `ppf_obs (1 − t)`
example : (qmParam Model.Family.ratSigmoid.toFamily (1 / 16) .no_detrending [1, 2, 6] [2, 4, 9] [5, 7, 40]).getD 2 0
    = Model.Family.ratSigmoid.ppf (Model.Family.ratSigmoid.fit [1, 2, 6]) (1 - 1 / 16) := by decide +kernel
example : qmNonparam .additive (affine (9 / 5) 32 [1, 2, 6]) (affine (9 / 5) 32 [2, 4, 9]) (affine (9 / 5) 32 [5, 7, 40])
    = affine (9 / 5) 32 (qmNonparam .additive [1, 2, 6] [2, 4, 9] [5, 7, 40]) :=
  qm_nonparam_affine (by norm_num) _ _ (by decide) (by simp) (by simp) (by simp)

/-! ## 4. ECDFM -/

/-- **ECDFM** over any family with `LocScaleLaws`, any `cdf_threshold`. Guard: samples non-empty. -/
theorem ecdfm_affine {Fam : LocScaleFam} (L : LocScaleLaws Fam) {a : Rat} (ha : 0 < a) (b t : Rat)
    {obs H F : List Rat} (ho : obs ≠ []) (hh : H ≠ []) (hf : F ≠ []) :
    ecdfm Fam.toFamily t (affine a b obs) (affine a b H) (affine a b F) = affine a b (ecdfm Fam.toFamily t obs H F) := by
  unfold ecdfm
  simp only [LocScaleFam.toFamily]
  rw [fit_affine' L ha b ho, fit_affine' L ha b hh, fit_affine' L ha b hf]
  apply affine_map_congr
  intro x _
  rw [thr_cdf_affine ha, ppf_affine, ppf_affine]
  ring

example : ecdfm Model.Family.ratSigmoid.toFamily (1 / 16) (affine (9 / 5) 32 [1, 2, 6]) (affine (9 / 5) 32 [2, 4, 9])
      (affine (9 / 5) 32 [5, 7, 40])
    = affine (9 / 5) 32 (ecdfm Model.Family.ratSigmoid.toFamily (1 / 16) [1, 2, 6] [2, 4, 9] [5, 7, 40]) :=
  ecdfm_affine ratSigmoid_laws (by norm_num) _ _ (by simp) (by simp) (by simp)

/-! ## 5. QuantileDeltaMapping (absolute) -/

/-- **QDM absolute**, either `ecdf_method`, any `cdf_threshold`, no censoring, without year windows.
    Guard: `obs`, `cm_hist` non-empty (their fits). -/
theorem qdm_abs_affine {Fam : LocScaleFam} (L : LocScaleLaws Fam) {a : Rat} (ha : 0 < a) (b : Rat) (em : EcdfMethod)
    (t : Rat) {obs H : List Rat} (F : List Rat) (ho : obs ≠ []) (hh : H ≠ []) :
    qdmWindow Fam.toFamily .absolute em t none (affine a b obs) (affine a b H) (affine a b F)
      = affine a b (qdmWindow Fam.toFamily .absolute em t none obs H F) := by
  unfold qdmWindow
  simp only [LocScaleFam.toFamily]
  rw [fit_affine' L ha b ho, fit_affine' L ha b hh]
  exact qdmSteps_affine ha b em t F _ _

/-- **QDM absolute with running windows over the years of `cm_future`** -/
theorem qdm_abs_years_affine {Fam : LocScaleFam} (L : LocScaleLaws Fam) {a : Rat} (ha : 0 < a) (b : Rat)
    (em : EcdfMethod) (t : Rat) (Lw Sw : Int) (years : List Int) {obs H : List Rat} (F : List Rat)
    (ho : obs ≠ []) (hh : H ≠ []) :
    qdmWindowYears Fam.toFamily .absolute em t none Lw Sw years (affine a b obs) (affine a b H) (affine a b F)
      = (qdmWindowYears Fam.toFamily .absolute em t none Lw Sw years obs H F).map (affineBuf a b) := by
  unfold qdmWindowYears
  rw [affine_length]
  split_ifs
  · rfl
  · apply applyYears_equivariant2
    intro x iw
    unfold qdmYearFn
    simp only [LocScaleFam.toFamily, Except.map]
    rw [fit_affine' L ha b ho, fit_affine' L ha b hh]
    congr 1
    exact qdmSteps_affine ha b em t x _ _

example : qdmWindow Model.Family.ratSigmoid.toFamily .absolute .step (1 / 16) none (affine (9 / 5) 32 [1, 2, 6])
      (affine (9 / 5) 32 [2, 4, 9]) (affine (9 / 5) 32 [5, 7, 40])
    = affine (9 / 5) 32 (qdmWindow Model.Family.ratSigmoid.toFamily .absolute .step (1 / 16) none [1, 2, 6] [2, 4, 9] [5, 7, 40]) :=
  qdm_abs_affine ratSigmoid_laws (by norm_num) _ _ _ _ (by simp) (by simp)
-- with censoring (a pr-like setting) the statement is false: the censoring threshold is a physical constant
example : qdmWindow Model.Family.ratSigmoid.toFamily .absolute .step (1 / 16) (some 0) (affine 1 (-10) [1, 2, 6])
      (affine 1 (-10) [2, 4, 9]) (affine 1 (-10) [5, 7, 40])
    ≠ affine 1 (-10) (qdmWindow Model.Family.ratSigmoid.toFamily .absolute .step (1 / 16) (some 0) [1, 2, 6] [2, 4, 9] [5, 7, 40]) := by
  decide +kernel

/-! ## 6. ScaledDistributionMapping (absolute) -/

/-- **SDM absolute** (current text, with the mean-bias term `− (mean cm_hist − mean obs)`): recurrence intervals
    are functions of cdf values only; the scaling carries the factor `a` through `(ppf_F − ppf_H)·σ_obs/σ_H`; the
    trend `cm_future − detrended` carries `a·+b`; the mean-bias term scales by `a`.  Ties in `cm_future` allowed. -/
theorem sdm_abs_affine {Fam : LocScaleFam} (L : LocScaleLaws Fam) {a : Rat} (ha : 0 < a) (b : Rat)
    {obs H X : List Rat} (ho : obs ≠ []) (hh : H ≠ []) (hx : X ≠ []) :
    sdmAbsolute Fam (affine a b obs) (affine a b H) (affine a b X) = affine a b (sdmAbsolute Fam obs H X) := by
  unfold sdmAbsolute
  simp only
  rw [sdmAbsoluteSorted_affine L ha b ho hh hx, detrendConst_affine a b hx, rankOf_map_affine ha 0,
    mean_map_affine a b hh, mean_map_affine a b ho]
  have hback : takeIdx (affine a 0 (sdmAbsoluteSorted Fam obs H X)) (rankOf (detrendConst X))
      = affine a 0 (takeIdx (sdmAbsoluteSorted Fam obs H X) (rankOf (detrendConst X))) := by
    apply takeIdx_map
    intro i hi
    rw [sdmAbsoluteSorted_length, ← detrendConst_length X]
    exact rankOf_valid _ i hi
  rw [hback]
  have htr : subL (affine a b X) (affine a 0 (detrendConst X)) = affine a b (subL X (detrendConst X)) := by
    unfold subL affine
    rw [List.zipWith_map, List.map_zipWith]
    congr 1
    funext x y
    ring
  rw [htr]
  unfold affine
  rw [List.zipWith_map, List.map_zipWith]
  congr 1
  funext bc tr
  ring

example : sdmAbsolute Model.Family.ratSigmoid (affine (9 / 5) 32 [1, 2, 6]) (affine (9 / 5) 32 [2, 4, 9]) (affine (9 / 5) 32 [5, 7, 40])
    = affine (9 / 5) 32 (sdmAbsolute Model.Family.ratSigmoid [1, 2, 6] [2, 4, 9] [5, 7, 40]) :=
  sdm_abs_affine ratSigmoid_laws (by norm_num) _ (by simp) (by simp) (by simp)
example : sdmAbsGuard Model.Family.ratSigmoid [1, 2, 6] [2, 4, 9] [5, 7, 40] := by decide +kernel

/-! ## 7. CDFt -/

/-- **CDFt** (`SSR = False`) for every pair of `ecdf_method` × `iecdf_method` (2 × 9), `delta_shift` additive or
    `no_shift`.  Guard: samples non-empty. -/
theorem cdft_affine {a : Rat} (ha : 0 < a) (b : Rat) (d : DeltaShift) (hd : d ≠ .multiplicative) (em : EcdfMethod)
    (im : IecdfMethod) {obs H F : List Rat} (ho : obs ≠ []) (hh : H ≠ []) (hf : F ≠ []) :
    cdftMapping d em im (affine a b obs) (affine a b H) (affine a b F) = affine a b (cdftMapping d em im obs H F) :=
  cdftMappingG_affine (eqAffineLaws ha b em im) d hd ho hh hf (cdftShifted_fst_ne_nil d obs hh F)
    (cdftShifted_ne_nil d obs H hf)

/-- the same for an empty future window (the result is empty) -/
theorem cdft_affine_any {a : Rat} (ha : 0 < a) (b : Rat) (d : DeltaShift) (hd : d ≠ .multiplicative) (em : EcdfMethod)
    (im : IecdfMethod) {obs H : List Rat} (F : List Rat) (ho : obs ≠ []) (hh : H ≠ []) :
    cdftMapping d em im (affine a b obs) (affine a b H) (affine a b F) = affine a b (cdftMapping d em im obs H F) := by
  by_cases hf : F = []
  · subst hf
    cases d <;> rfl
  · exact cdft_affine ha b d hd em im ho hh hf

/-- **CDFt with running windows over the years of `cm_future`** (its default) -/
theorem cdft_years_affine {a : Rat} (ha : 0 < a) (b : Rat) (d : DeltaShift) (hd : d ≠ .multiplicative) (em : EcdfMethod)
    (im : IecdfMethod) (Lw Sw : Int) (years : List Int) {obs H : List Rat} (F : List Rat) (ho : obs ≠ []) (hh : H ≠ []) :
    cdftWindowYears d em im Lw Sw years (affine a b obs) (affine a b H) (affine a b F)
      = (cdftWindowYears d em im Lw Sw years obs H F).map (affineBuf a b) := by
  unfold cdftWindowYears
  rw [affine_length]
  split_ifs
  · rfl
  · apply applyYears_equivariant2
    intro x iw
    unfold cdftYearFn
    simp only [Except.map]
    congr 1
    exact cdft_affine_any ha b d hd em im x ho hh

example : cdftMapping .additive .linear .linear (affine (9 / 5) 32 [1, 2, 6]) (affine (9 / 5) 32 [2, 4, 9])
      (affine (9 / 5) 32 [5, 7, 40])
    = affine (9 / 5) 32 (cdftMapping .additive .linear .linear [1, 2, 6] [2, 4, 9] [5, 7, 40]) :=
  cdft_affine (by norm_num) _ _ (by decide) _ _ (by simp) (by simp) (by simp)
-- a sign slip in the shift (`mean cm_hist − mean obs`) would break it already for `b = 0`… the model has the code's sign:
example : (cdftShifted .additive [1, 2, 6] [2, 4, 9] [5]).2 = [5 + (3 - 5)] := by decide +kernel

/-! ## 8. ISIMIP (additive trend transfer, no bounds / thresholds) -/

/-- **with `∓∞` bounds and thresholds none of the `has_*` properties holds** (so no value is ever compared with a
    threshold, randomised, sent to a bound, and `floc` / `fscale` are not fixed) -/
theorem isimip_unbounded_flags (c : Cfg) (u : Unbounded c) :
    c.hasLowerBound = false ∧ c.hasLowerThreshold = false ∧ c.hasUpperBound = false ∧ c.hasUpperThreshold = false ∧
      c.hasBound = false ∧ c.hasThreshold = false ∧ fixedArgs c = .ok (none, none) := by
  obtain ⟨h1, h2, h3, h4⟩ := u.flags
  exact ⟨h1, h2, h3, h4, by simp [Cfg.hasBound, h1, h3], hasThreshold_unbounded u, fixedArgs_unbounded u⟩

/-- a threshold of `0` (a value leaking into an unbounded variable) *is* a threshold — the mutant the check must see -/
example : ({ trendMethod := .additive, nonparametricQm := false, detrending := true, lowerThreshold := .fin 0 } : Cfg).hasLowerThreshold
    = true := by decide

/-- **`linregress(...).slope` scales by `a`** and forgets `b` (step 3; the slope is modelled exactly) -/
theorem linregress_slope_scales (a b : Rat) (xs ys : List Rat) : linSlope xs (affine a b ys) = a * linSlope xs ys :=
  linSlope_affine a b xs ys

/-- **ISIMIP `_apply_on_window` (steps 3–7)**, unbounded variable, additive trend transfer; parametric or
    non-parametric quantile mapping, detrending on or off, KS test / event likelihood adjustment on or off, any
    `ecdf` / `iecdf` method pair; family = any location–scale family with `LocScaleLaws`.
    The oracle decisions `o` (is the `linregress` trend significant; did the KS test accept the fit) are *the same
    on both sides*: they are decisions about unit-free statistics (recorded assumption).  Guard: with detrending,
    the year lists are parallel to the samples. -/
theorem isimip_add_affine {Fam : LocScaleFam} (L : LocScaleLaws Fam) (scaleAt : Rat → List Rat → Rat) {c : Cfg}
    (u : Unbounded c) (htm : c.trendMethod = .additive) (o : Oracles) (d : Draws) {a : Rat} (ha : 0 < a) (b : Rat)
    (obs H X : List Rat) (yO yH yF : List Int)
    (hlen : c.detrending = true → obs.length = yO.length ∧ H.length = yH.length ∧ X.length = yF.length) :
    applyOnWindow c (IsiFamily.ofLocScale Fam scaleAt) o d (affine a b obs) (affine a b H) (affine a b X) yO yH yF
      = (applyOnWindow c (IsiFamily.ofLocScale Fam scaleAt) o d obs H X yO yH yF).map (affine a b) :=
  applyOnWindow_affine L scaleAt u htm o d ha b obs H X yO yH yF hlen

/-- the tas configuration of `isimip3_variable_settings` as a model configuration -/
def tasCfg : Cfg := { trendMethod := .additive, nonparametricQm := false, detrending := true }

example : Unbounded tasCfg := ⟨rfl, rfl, rfl, rfl⟩
-- non-vacuity: a concrete window with a significant trend, K → °C, parametric branch taken, result not the input
example : applyOnWindow tasCfg Model.Isimip.ratSigmoid { sigF := true } {} (affine 1 (-273) [280, 282, 287, 285])
      (affine 1 (-273) [281, 284, 290, 286]) (affine 1 (-273) [283, 288, 292, 295]) [1, 1, 2, 2] [1, 1, 2, 2] [5, 5, 6, 6]
    = (applyOnWindow tasCfg Model.Isimip.ratSigmoid { sigF := true } {} [280, 282, 287, 285] [281, 284, 290, 286]
        [283, 288, 292, 295] [1, 1, 2, 2] [1, 1, 2, 2] [5, 5, 6, 6]).map (affine 1 (-273)) :=
  isimip_add_affine ratSigmoid_laws _ ⟨rfl, rfl, rfl, rfl⟩ rfl _ _ (by norm_num) _ _ _ _ _ _ _ (fun _ => ⟨rfl, rfl, rfl⟩)
-- (which branch of step 6 such windows take — `parametric` — is measured by the correspondence's branch histogram:
--  `sortQ` is defined by well-founded recursion and does not reduce in the kernel, so it is not a `decide` example)

/-! ## whole series: every window mode -/

/-- **seasonal running windows** (`RunningWindowDebiaser.apply_location`) for any guarded window function whose guard
    is unit-free and which is equivariant on its domain -/
theorem windowed_affine_RW (G : List Rat → List Rat → List Rat → Bool) (f : List Rat → List Rat → List Rat → List Rat)
    (a b : Rat)
    (hG : ∀ o h x, G (affine a b o) (affine a b h) (affine a b x) = G o h x)
    (hf : ∀ o h x, G o h x = true → f (affine a b o) (affine a b h) (affine a b x) = affine a b (f o h x))
    (L S : Int) (dO dH dF : List Int) (obs hist fut : List Rat) :
    applyLocationRW (guardedWin G f) L S dO dH dF (affine a b obs) (affine a b hist) (affine a b fut)
      = (applyLocationRW (guardedWin G f) L S dO dH dF obs hist fut).map (affineBuf a b) :=
  Lemmas.Lift.applyLocationRW_equivariant _ _ _ _ _ L S dO dH dF obs hist fut (guardedWin_affine G f a b hG hf)

/-- the same for `DeltaChange.apply_location` (loop over the days of `obs`) -/
theorem windowed_affine_DC (G : List Rat → List Rat → List Rat → Bool) (f : List Rat → List Rat → List Rat → List Rat)
    (a b : Rat)
    (hG : ∀ o h x, G (affine a b o) (affine a b h) (affine a b x) = G o h x)
    (hf : ∀ o h x, G o h x = true → f (affine a b o) (affine a b h) (affine a b x) = affine a b (f o h x))
    (L S : Int) (dO dH dF : List Int) (obs hist fut : List Rat) :
    applyLocationDC (guardedWin G f) L S dO dH dF (affine a b obs) (affine a b hist) (affine a b fut)
      = (applyLocationDC (guardedWin G f) L S dO dH dF obs hist fut).map (affineBuf a b) :=
  Lemmas.Lift.applyLocationDC_equivariant _ _ _ _ _ L S dO dH dF obs hist fut (guardedWin_affine G f a b hG hf)

theorem ls_windowed_affine (a b : Rat) (L S : Int) (dO dH dF : List Int) (obs hist fut : List Rat) :
    applyLocationRW lsWin L S dO dH dF (affine a b obs) (affine a b hist) (affine a b fut)
      = (applyLocationRW lsWin L S dO dH dF obs hist fut).map (affineBuf a b) := by
  apply windowed_affine_RW
  · intro o h x
    apply decide_eq_decide.mpr
    simp [lsGuard, affine_ne_nil_iff]
  · intro o h x hg
    obtain ⟨ho, hh, _⟩ := of_decide_eq_true hg
    exact ls_add_affine a b x ho hh

theorem dc_windowed_affine (a b : Rat) (L S : Int) (dO dH dF : List Int) (obs hist fut : List Rat) :
    applyLocationDC dcWin L S dO dH dF (affine a b obs) (affine a b hist) (affine a b fut)
      = (applyLocationDC dcWin L S dO dH dF obs hist fut).map (affineBuf a b) := by
  apply windowed_affine_DC
  · intro o h x
    apply decide_eq_decide.mpr
    simp [dcGuard, affine_ne_nil_iff]
  · intro o h x hg
    obtain ⟨hh, hf, _⟩ := of_decide_eq_true hg
    exact dc_add_affine a b o hh hf

theorem qm_param_windowed_affine {Fam : LocScaleFam} (Lw : LocScaleLaws Fam) {a : Rat} (ha : 0 < a) (b t : Rat)
    (d : Detrending) (hd : d ≠ .multiplicative) (L S : Int) (dO dH dF : List Int) (obs hist fut : List Rat) :
    applyLocationRW (qmParamWin Fam t d) L S dO dH dF (affine a b obs) (affine a b hist) (affine a b fut)
      = (applyLocationRW (qmParamWin Fam t d) L S dO dH dF obs hist fut).map (affineBuf a b) := by
  apply windowed_affine_RW
  · intro o h x
    apply decide_eq_decide.mpr
    rw [qmGuard_affine a b d hd]
    have := scalesOk_affine Lw ha b [o, h]
    simp only [List.map_cons, List.map_nil] at this
    rw [this]
  · intro o h x hg
    obtain ⟨⟨ho, hh, hf, _⟩, _⟩ := of_decide_eq_true hg
    exact qm_param_affine Lw ha b t d hd ho hh hf

theorem qm_nonparam_windowed_affine {a : Rat} (ha : 0 < a) (b : Rat) (d : Detrending) (hd : d ≠ .multiplicative)
    (L S : Int) (dO dH dF : List Int) (obs hist fut : List Rat) :
    applyLocationRW (qmNonparamWin d) L S dO dH dF (affine a b obs) (affine a b hist) (affine a b fut)
      = (applyLocationRW (qmNonparamWin d) L S dO dH dF obs hist fut).map (affineBuf a b) := by
  apply windowed_affine_RW
  · intro o h x
    exact decide_eq_decide.mpr (qmGuard_affine a b d hd o h x)
  · intro o h x hg
    obtain ⟨ho, hh, hf, _⟩ := of_decide_eq_true hg
    exact qm_nonparam_affine ha b d hd ho hh hf

theorem ecdfm_windowed_affine {Fam : LocScaleFam} (Lw : LocScaleLaws Fam) {a : Rat} (ha : 0 < a) (b t : Rat)
    (L S : Int) (dO dH dF : List Int) (obs hist fut : List Rat) :
    applyLocationRW (ecdfmWin Fam t) L S dO dH dF (affine a b obs) (affine a b hist) (affine a b fut)
      = (applyLocationRW (ecdfmWin Fam t) L S dO dH dF obs hist fut).map (affineBuf a b) := by
  apply windowed_affine_RW
  · intro o h x
    apply decide_eq_decide.mpr
    have := scalesOk_affine Lw ha b [o, h, x]
    simpa only [List.map_cons, List.map_nil] using this
  · intro o h x hg
    have hs : scalesOk Fam [o, h, x] := of_decide_eq_true hg
    exact ecdfm_affine Lw ha b t (hs o (by simp)).1 (hs h (by simp)).1 (hs x (by simp)).1

theorem sdm_windowed_affine {Fam : LocScaleFam} (Lw : LocScaleLaws Fam) {a : Rat} (ha : 0 < a) (b : Rat)
    (L S : Int) (dO dH dF : List Int) (obs hist fut : List Rat) :
    applyLocationRW (sdmWin Fam) L S dO dH dF (affine a b obs) (affine a b hist) (affine a b fut)
      = (applyLocationRW (sdmWin Fam) L S dO dH dF obs hist fut).map (affineBuf a b) := by
  apply windowed_affine_RW
  · intro o h x
    exact decide_eq_decide.mpr (sdmAbsGuard_affine Lw ha b o h x)
  · intro o h x hg
    have hs : sdmAbsGuard Fam o h x := of_decide_eq_true hg
    unfold sdmAbsGuard scalesOk at hs
    have hne : ∀ s : List Rat, detrendConst s ≠ [] → s ≠ [] := by
      intro s h0 h1; apply h0; rw [h1]; rfl
    exact sdm_abs_affine Lw ha b (hne _ (hs _ (by simp)).1) (hne _ (hs _ (by simp)).1) (hne _ (hs _ (by simp)).1)

/-- **QDM**: seasonal running windows, with (`yrs = some …`) or without (`none`) year windows inside each of them -/
theorem qdm_windowed_affine {Fam : LocScaleFam} (Lw : LocScaleLaws Fam) {a : Rat} (ha : 0 < a) (b : Rat)
    (em : EcdfMethod) (t : Rat) (yrs : Option (Int × Int × List Int))
    (L S : Int) (dO dH dF : List Int) (obs hist fut : List Rat) :
    applyLocationRW (qdmWin Fam em t yrs) L S dO dH dF (affine a b obs) (affine a b hist) (affine a b fut)
      = (applyLocationRW (qdmWin Fam em t yrs) L S dO dH dF obs hist fut).map (affineBuf a b) := by
  apply Lemmas.Lift.applyLocationRW_equivariant
  intro o h x io ih ix
  unfold qdmWin
  have hG := scalesOk_affine Lw ha b [o, h]
  simp only [List.map_cons, List.map_nil] at hG
  change (if scalesOk Fam [affine a b o, affine a b h] then _ else _) = _
  by_cases hs : scalesOk Fam [o, h]
  · rw [if_pos (hG.mpr hs), if_pos hs]
    have ho := (hs o (by simp)).1
    have hh := (hs h (by simp)).1
    cases yrs with
    | none =>
      simp only [Except.map]
      congr 1
      exact qdm_abs_affine Lw ha b em t x ho hh
    | some p =>
      obtain ⟨Ly, Sy, years⟩ := p
      simp only
      rw [show (List.map (fun v => a * v + b) x) = affine a b x from rfl,
        show (List.map (fun v => a * v + b) o) = affine a b o from rfl,
        show (List.map (fun v => a * v + b) h) = affine a b h from rfl,
        qdm_abs_years_affine Lw ha b em t Ly Sy _ x ho hh]
      exact collapse_map _ _
  · rw [if_neg (fun h' => hs (hG.mp h')), if_neg hs]
    rfl

/-- **CDFt**: seasonal running windows, with (the default) or without year windows inside each of them -/
theorem cdft_windowed_affine {a : Rat} (ha : 0 < a) (b : Rat) (d : DeltaShift) (hd : d ≠ .multiplicative)
    (em : EcdfMethod) (im : IecdfMethod) (yrs : Option (Int × Int × List Int))
    (L S : Int) (dO dH dF : List Int) (obs hist fut : List Rat) :
    applyLocationRW (cdftWin d em im yrs) L S dO dH dF (affine a b obs) (affine a b hist) (affine a b fut)
      = (applyLocationRW (cdftWin d em im yrs) L S dO dH dF obs hist fut).map (affineBuf a b) := by
  apply Lemmas.Lift.applyLocationRW_equivariant
  intro o h x io ih ix
  unfold cdftWin
  have hG := cdftGuard_affine a b d hd o h x
  change (if cdftGuard d (affine a b o) (affine a b h) (affine a b x) then _ else _) = _
  by_cases hs : cdftGuard d o h x
  · rw [if_pos (hG.mpr hs), if_pos hs]
    obtain ⟨ho, hh, hf, _⟩ := hs
    cases yrs with
    | none =>
      simp only [Except.map]
      congr 1
      exact cdft_affine ha b d hd em im ho hh hf
    | some p =>
      obtain ⟨Ly, Sy, years⟩ := p
      simp only
      rw [show (List.map (fun v => a * v + b) x) = affine a b x from rfl,
        show (List.map (fun v => a * v + b) o) = affine a b o from rfl,
        show (List.map (fun v => a * v + b) h) = affine a b h from rfl,
        cdft_years_affine ha b d hd em im Ly Sy _ x ho hh]
      exact collapse_map _ _
  · rw [if_neg (fun h' => hs (hG.mp h')), if_neg hs]
    rfl

/-- the ISIMIP window function on a window of parallel value / year lists -/
theorem isimip_winFn_affine {Fam : LocScaleFam} (Lw : LocScaleLaws Fam) (scaleAt : Rat → List Rat → Rat) {c : Cfg}
    (u : Unbounded c) (htm : c.trendMethod = .additive) (orc : List Nat → Oracles) (drw : List Nat → Draws)
    {a : Rat} (ha : 0 < a) (b : Rat) (yearsO yearsH yearsF : List Int) (obs hist fut : List Rat)
    (hO : obs.length = yearsO.length) (hH : hist.length = yearsH.length) (hF : fut.length = yearsF.length)
    (io ih ix : List Nat) :
    winFn c (IsiFamily.ofLocScale Fam scaleAt) orc drw yearsO yearsH yearsF ((take obs io).map (fun v => a * v + b))
        ((take hist ih).map (fun v => a * v + b)) ((take fut ix).map (fun v => a * v + b)) io ih ix
      = (winFn c (IsiFamily.ofLocScale Fam scaleAt) orc drw yearsO yearsH yearsF (take obs io) (take hist ih) (take fut ix)
          io ih ix).map (List.map (fun v => a * v + b)) := by
  unfold winFn
  exact applyOnWindow_affine Lw scaleAt u htm _ _ ha b _ _ _ _ _ _
    (fun _ => ⟨take_length_eq _ _ hO io, take_length_eq _ _ hH ih, take_length_eq _ _ hF ix⟩)

/-- **ISIMIP `apply_location`, running-window mode** (`scale_by_annual_cycle_of_upper_bounds = False`, as for every
    unbounded variable).  Guard: year lists parallel to the series. -/
theorem isimip_windowed_affine_RW {Fam : LocScaleFam} (Lw : LocScaleLaws Fam) (scaleAt : Rat → List Rat → Rat) {c : Cfg}
    (u : Unbounded c) (htm : c.trendMethod = .additive) (hsc : c.scaleByAnnualCycle = false)
    (orc : List Nat → Oracles) (drw : List Nat → Draws) {a : Rat} (ha : 0 < a) (b : Rat) (L S : Int)
    (doyO doyH doyF yearsO yearsH yearsF : List Int) (obs hist fut : List Rat)
    (hO : obs.length = yearsO.length) (hH : hist.length = yearsH.length) (hF : fut.length = yearsF.length) :
    Model.Isimip.applyLocationRW c (IsiFamily.ofLocScale Fam scaleAt) orc drw L S doyO doyH doyF yearsO yearsH yearsF
        (affine a b obs) (affine a b hist) (affine a b fut)
      = (Model.Isimip.applyLocationRW c (IsiFamily.ofLocScale Fam scaleAt) orc drw L S doyO doyH doyF yearsO yearsH yearsF
          obs hist fut).map (affineBuf a b) := by
  unfold Model.Isimip.applyLocationRW step1 step8Buffer
  simp only [hsc, Bool.false_eq_true, if_false, bind, Except.bind, pure, Except.pure]
  rw [show affine a b obs = obs.map (fun v => a * v + b) from rfl, show affine a b hist = hist.map (fun v => a * v + b) from rfl,
    show affine a b fut = fut.map (fun v => a * v + b) from rfl,
    applyLocationRW_equivariant_on _ _ _ _ (fun v => a * v + b) L S doyO doyH doyF obs hist fut
      (fun cc => isimip_winFn_affine Lw scaleAt u htm orc drw ha b yearsO yearsH yearsF obs hist fut hO hH hF _ _ _)]
  cases Model.Skeleton.applyLocationRW (winFn c (IsiFamily.ofLocScale Fam scaleAt) orc drw yearsO yearsH yearsF) L S doyO doyH doyF
    obs hist fut <;> rfl

/-- **ISIMIP `apply_location`, month mode** (`running_window_mode = False`) -/
theorem isimip_windowed_affine_months {Fam : LocScaleFam} (Lw : LocScaleLaws Fam) (scaleAt : Rat → List Rat → Rat) {c : Cfg}
    (u : Unbounded c) (htm : c.trendMethod = .additive) (hsc : c.scaleByAnnualCycle = false)
    (orc : List Nat → Oracles) (drw : List Nat → Draws) {a : Rat} (ha : 0 < a) (b : Rat)
    (mO mH mF doyO doyH doyF yearsO yearsH yearsF : List Int) (obs hist fut : List Rat)
    (hO : obs.length = yearsO.length) (hH : hist.length = yearsH.length) (hF : fut.length = yearsF.length) :
    Model.Isimip.applyLocationMonths c (IsiFamily.ofLocScale Fam scaleAt) orc drw mO mH mF doyO doyH doyF yearsO yearsH yearsF
        (affine a b obs) (affine a b hist) (affine a b fut)
      = (Model.Isimip.applyLocationMonths c (IsiFamily.ofLocScale Fam scaleAt) orc drw mO mH mF doyO doyH doyF yearsO yearsH
          yearsF obs hist fut).map (affineBuf a b) := by
  unfold Model.Isimip.applyLocationMonths step1 step8Buffer
  simp only [hsc, Bool.false_eq_true, if_false, bind, Except.bind, pure, Except.pure]
  rw [show affine a b obs = obs.map (fun v => a * v + b) from rfl, show affine a b hist = hist.map (fun v => a * v + b) from rfl,
    show affine a b fut = fut.map (fun v => a * v + b) from rfl,
    applyLocationMonths_equivariant_on _ _ _ _ (fun v => a * v + b) mO mH mF obs hist fut
      (fun m => isimip_winFn_affine Lw scaleAt u htm orc drw ha b yearsO yearsH yearsF obs hist fut hO hH hF _ _ _)]
  cases Model.Skeleton.applyLocationMonths (winFn c (IsiFamily.ofLocScale Fam scaleAt) orc drw yearsO yearsH yearsF) mO mH mF
    obs hist fut <;> rfl

/-! ### non-vacuity of the windowed statements: a run in which every step is written, K → °F -/

def days : List Int := [1, 2, 3, 4, 5, 6]
example : applyLocationRW lsWin 3 1 days days days [1, 2, 6, 3, 5, 4] [2, 4, 9, 1, 7, 3] [5, 7, 40, 2, 8, 9]
    = .ok [some (7 / 2), some 5, some 39, some 1, some (25 / 3), some (17 / 2)] := by decide +kernel
example : applyLocationRW lsWin 3 1 days days days (affine (9 / 5) 32 [1, 2, 6, 3, 5, 4]) (affine (9 / 5) 32 [2, 4, 9, 1, 7, 3])
      (affine (9 / 5) 32 [5, 7, 40, 2, 8, 9])
    = (applyLocationRW lsWin 3 1 days days days [1, 2, 6, 3, 5, 4] [2, 4, 9, 1, 7, 3] [5, 7, 40, 2, 8, 9]).map
        (affineBuf (9 / 5) 32) := ls_windowed_affine _ _ _ _ _ _ _ _ _ _
-- year windows inside the (single) seasonal window: all six steps written (QDM with the step ecdf: no sorting involved,
-- so the kernel can evaluate it)
example : (applyLocationRW (qdmWin Model.Family.ratSigmoid .step (1 / 16) (some (3, 1, [2001, 2001, 2002, 2002, 2003, 2003]))) 3 3
    [2, 2, 2, 2, 2, 2] [2, 2, 2, 2, 2, 2] [2, 2, 2, 2, 2, 2] [1, 2, 6, 3, 5, 4] [2, 4, 9, 1, 7, 3] [5, 7, 40, 2, 8, 9]).toOption.map
      (fun l => l.all (·.isSome)) = some true := by decide +kernel

/-! ## multiplicative LinearScaling / DeltaChange, whole series (pure rescaling) -/

theorem ls_mult_windowed_scale {a : Rat} (ha : a ≠ 0) (L S : Int) (dO dH dF : List Int) (obs hist fut : List Rat) :
    applyLocationRW lsMultWin L S dO dH dF (affine a 0 obs) (affine a 0 hist) (affine a 0 fut)
      = (applyLocationRW lsMultWin L S dO dH dF obs hist fut).map (affineBuf a 0) := by
  apply windowed_affine_RW
  · intro o h x
    exact decide_eq_decide.mpr (lsGuard_mult_scale ha o h)
  · intro o h x hg
    exact ls_mult_scale_equivariant ha x (of_decide_eq_true hg)

theorem dc_mult_windowed_scale {a : Rat} (ha : a ≠ 0) (L S : Int) (dO dH dF : List Int) (obs hist fut : List Rat) :
    applyLocationDC dcMultWin L S dO dH dF (affine a 0 obs) (affine a 0 hist) (affine a 0 fut)
      = (applyLocationDC dcMultWin L S dO dH dF obs hist fut).map (affineBuf a 0) := by
  apply windowed_affine_DC
  · intro o h x
    exact decide_eq_decide.mpr (dcGuard_mult_scale ha h x)
  · intro o h x hg
    exact dc_mult_scale_equivariant ha o (of_decide_eq_true hg)

example : applyLocationRW lsMultWin 3 1 days days days (affine 1000 0 [1, 2, 6, 3, 5, 4]) (affine 1000 0 [2, 4, 9, 1, 7, 3])
      (affine 1000 0 [5, 7, 40, 2, 8, 9])
    = (applyLocationRW lsMultWin 3 1 days days days [1, 2, 6, 3, 5, 4] [2, 4, 9, 1, 7, 3] [5, 7, 40, 2, 8, 9]).map
        (affineBuf 1000 0) := ls_mult_windowed_scale (by norm_num) _ _ _ _ _ _ _ _

/-! ## `ecdf_method = "kernel_density"` (histogram cdf; the bins are an oracle with the law `BinsAffine`) -/

/-- **CDFt with the histogram ecdf** and any inverse-ecdf method, under the oracle law "the bin edges of
    `np.histogram(x, bins="auto")` carry the unit, the counts do not change" (`BinsAffine`, on non-constant samples).
    Guards: samples non-empty, `cm_hist` and `cm_future` not constant. -/
theorem cdft_affine_hist {a : Rat} (ha : 0 < a) (b : Rat) (d : DeltaShift) (hd : d ≠ .multiplicative)
    (bins : List Rat → List Rat × List Nat) (hb : BinsAffine a b bins) (im : IecdfMethod) {obs H F : List Rat}
    (ho : obs ≠ []) (hH : minQ H < maxQ H) (hF : minQ F < maxQ F) :
    cdftMappingG (Lemmas.C02.histE bins) (iecdf1 im) d (affine a b obs) (affine a b H) (affine a b F)
      = affine a b (cdftMappingG (Lemmas.C02.histE bins) (iecdf1 im) d obs H F) := by
  have hne : ∀ x : List Rat, minQ x < maxQ x → x ≠ [] := by
    intro x hx h0; rw [h0] at hx; simp [minQ, maxQ] at hx
  obtain ⟨h1, h2⟩ := cdftShifted_nonconst d hd obs hH hF
  exact cdftMappingG_affine (eqAffineLaws_hist ha b bins hb im) d hd ho (hne _ hH) (hne _ hF) h1 h2

/-- **QDM absolute with the histogram ecdf** -/
theorem qdm_abs_affine_hist {Fam : LocScaleFam} (L : LocScaleLaws Fam) {a : Rat} (ha : 0 < a) (b : Rat)
    (bins : List Rat → List Rat × List Nat) (hb : BinsAffine a b bins) (t : Rat) {obs H F : List Rat}
    (ho : obs ≠ []) (hh : H ≠ []) (hF : minQ F < maxQ F) :
    qdmStepsG Fam.toFamily .absolute (Lemmas.C02.histE bins) t none (affine a b F) (Fam.fit (affine a b obs)) (Fam.fit (affine a b H))
      = affine a b (qdmStepsG Fam.toFamily .absolute (Lemmas.C02.histE bins) t none F (Fam.fit obs) (Fam.fit H)) := by
  rw [fit_affine' L ha b ho, fit_affine' L ha b hh]
  exact qdmStepsG_affine a b _ t F _ _ (fun y => histE_affine ha b bins hb hF y)

/-- the oracle law is satisfiable: one bin over the range of the sample -/
def rangeBin (x : List Rat) : List Rat × List Nat := ([minQ x, maxQ x], [x.length])

theorem rangeBin_affine {a : Rat} (ha : 0 < a) (b : Rat) : BinsAffine a b rangeBin where
  laws := fun x hx => ⟨rfl, by simp [rangeBin, hx], by
    have : x ≠ [] := by intro h0; rw [h0] at hx; simp [minQ, maxQ] at hx
    simpa [rangeBin] using List.length_pos_iff.mpr this⟩
  aff := fun x hx => by
    have hne : x ≠ [] := by intro h0; rw [h0] at hx; simp [minQ, maxQ] at hx
    unfold rangeBin
    rw [minQ_map_affine ha b hne, maxQ_map_affine ha b hne, affine_length]
    rfl

example : cdftMappingG (Lemmas.C02.histE rangeBin) (iecdf1 .linear) .additive (affine (9 / 5) 32 [1, 2, 6]) (affine (9 / 5) 32 [2, 4, 9])
      (affine (9 / 5) 32 [5, 7, 40])
    = affine (9 / 5) 32 (cdftMappingG (Lemmas.C02.histE rangeBin) (iecdf1 .linear) .additive [1, 2, 6] [2, 4, 9] [5, 7, 40]) :=
  cdft_affine_hist (by norm_num) _ _ (by decide) _ (rangeBin_affine (by norm_num) _) _ (by simp) (by decide +kernel) (by decide +kernel)

/-! ## grids: `Debiaser.apply` maps `apply_location` over the cells (`Model/Grid.lean`, C05) -/

open Model.Grid in
/-- **the unit change passes through `apply`** (serial or any complete parallel schedule, failsafe on or off): if the
    per-location function is equivariant, then at every cell whose location returns a series of the right length the
    column of the output of the transformed run is the transformed column of the original run. -/
theorem apply_grid_affine {ε} (loc : LocFn Rat ε) (a b : Rat)
    (hloc : ∀ o h x, loc (affine a b o) (affine a b h) (affine a b x) = (loc o h x).map (affine a b))
    (fs : Bool) (obs hist fut : Arr3 Rat) (nx ny : Nat) (m : Mode) (hm : ModeOk m nx ny) (out out' : Arr3 (Elem Rat))
    (h : debiaserApply loc fs obs hist fut nx ny m = .ok out)
    (h' : debiaserApply loc fs (affine3 a b obs) (affine3 a b hist) (affine3 a b fut) nx ny m = .ok out')
    (i j : Nat) (hi : i < nx) (hj : j < ny) (v : List Rat) (hv : cellFn loc obs hist fut (i, j) = .ok v)
    (hl : v.length = fut.length) :
    slice out i j = v.map (fun x => some (.val x)) ∧
    slice out' i j = (affine a b v).map (fun x => some (.val x)) := by
  constructor
  · exact Props.C05.apply_cellwise _ fs _ nx ny m hm out h i j hi hj v hv hl
  · have hv' : cellFn loc (affine3 a b obs) (affine3 a b hist) (affine3 a b fut) (i, j) = .ok (affine a b v) := by
      unfold cellFn at hv ⊢
      simp only [slice_affine3]
      rw [hloc, hv]
      rfl
    unfold debiaserApply at h'
    exact Props.C05.apply_cellwise _ fs _ nx ny m hm out' h' i j hi hj (affine a b v) hv'
      (by rw [affine_length, affine3_length]; exact hl)

/-- the per-location function of a running-window debiaser with a guarded window function is equivariant
    (the hypothesis `hloc` of `apply_grid_affine`) -/
theorem locRW_affine (G : List Rat → List Rat → List Rat → Bool) (f : List Rat → List Rat → List Rat → List Rat)
    (a b : Rat)
    (hG : ∀ o h x, G (affine a b o) (affine a b h) (affine a b x) = G o h x)
    (hf : ∀ o h x, G o h x = true → f (affine a b o) (affine a b h) (affine a b x) = affine a b (f o h x))
    (L S : Int) (dO dH dF : List Int) (o h x : List Rat) :
    locRW (guardedWin G f) L S dO dH dF (affine a b o) (affine a b h) (affine a b x)
      = (locRW (guardedWin G f) L S dO dH dF o h x).map (affine a b) := by
  unfold locRW
  rw [windowed_affine_RW G f a b hG hf]
  exact collapse_map _ _

example : ∀ o h x, locRW lsWin 31 1 [1, 2, 3] [1, 2, 3] [1, 2, 3] (affine (9 / 5) 32 o) (affine (9 / 5) 32 h) (affine (9 / 5) 32 x)
    = (locRW lsWin 31 1 [1, 2, 3] [1, 2, 3] [1, 2, 3] o h x).map (affine (9 / 5) 32) := by
  intro o h x
  apply locRW_affine
  · intro o h x; apply decide_eq_decide.mpr; simp [lsGuard, affine_ne_nil_iff]
  · intro o h x hg
    obtain ⟨ho, hh, _⟩ := of_decide_eq_true hg
    exact ls_add_affine _ _ x ho hh

/-! ## construction sequences: `from_variable` reads its tables, it does not write them (`Model/FromVariable.lean`) -/

open Model.FromVariable in
/-- **the debiaser a call of `from_variable` builds does not depend on what was constructed before it in the process**:
    the shared table of general settings is the same after any sequence of calls … -/
theorem from_variable_state_const (table : String → Option Settings) (general : Settings) (before : List Call) :
    before.foldl (fun g c => (fromVariableStep table g c).1) general = general := by
  induction before generalizing general with
  | nil => rfl
  | cons c t ih => simp only [List.foldl_cons, fromVariableStep]; exact ih general

open Model.FromVariable in
/-- … so its constructor arguments are those of the same call made first in a fresh process.  (In particular an ISIMIP
    debiaser for an unbounded variable keeps `scale_by_annual_cycle_of_upper_bounds = False` — the hypothesis `hsc` of
    `isimip_windowed_affine_RW` — after debiasers for `rsds` were built.) -/
theorem from_variable_history_free (table : String → Option Settings) (general : Settings) (before : List Call) (c : Call) :
    session (fromVariableStep table) general before c = session (fromVariableStep table) general [] c := by
  unfold session
  rw [from_variable_state_const]
  rfl

open Model.FromVariable in
/-- the statement has content: an implementation that merges the variable settings *into* the shared general settings
    (`general.update(variable_settings)`) hands `tas` the multiplicative step 1 / 8 of `rsds` — complete evaluation -/
theorem aliasing_counter_model_leaks :
    let table : String → Option Settings := fun v =>
      if v = "rsds" then some [("scale_by_annual_cycle_of_upper_bounds", "True")] else if v = "tas" then some [("detrending", "True")] else none
    let general : Settings := [("scale_by_annual_cycle_of_upper_bounds", "False"), ("detrending", "False")]
    (session (aliasingStep table) general [{ var := "rsds" }] { var := "tas" }).bind (get · "scale_by_annual_cycle_of_upper_bounds") = some "True" ∧
    (session (fromVariableStep table) general [{ var := "rsds" }] { var := "tas" }).bind (get · "scale_by_annual_cycle_of_upper_bounds") = some "False" := by
  decide

end Props.C04
